"""C07 — Chunk store round trip and chunk addressing (correspondence + failing-input search)."""
import io
import itertools
import os
import warnings
import shutil
from fractions import Fraction

import dask
import dask.array as da
import numpy as np

from fixtures import c07stores, v4
from katdal.chunkstore import (BadChunk, ChunkNotFound, ChunkStore, ChunkStoreError,
                               generate_chunks)
from katdal.chunkstore_s3 import _normalise_bucket_name

RULE = ('(a) round trips: random dtype (incl. structured, big-endian, bool, complex, bytes/str, 0-d), shape (0-3 dims, '
        'lengths 0-6), uneven chunking, put/get offsets (none, zeros, small, > 99999, negative, wrong length) through '
        'put_dask_array/get_dask_array and put_chunk/get_chunk on DictChunkStore, NpyFileChunkStore (scratch dir) and '
        'S3ChunkStore (loopback endpoint); (b) pruned reads get_dask_array(index=unit-step slices incl. None/negative/'
        'empty) with recorded get_chunk requests; (c) random put/get/mark_complete/is_complete sequences; (d) '
        'chunk_metadata / chunk_id_str on random slices (negative, > width, non-unit steps, wrong shapes, object dtypes); '
        '(e) generate_chunks through its public arguments: random shapes / budgets, dims_to_split None or axes in any order '
        'each spelled from the front or the back (negative), repeated axes, entries naming no axis, max_dim_elements keys '
        'spelled either way incl. two spellings of one axis with different limits and keys naming no axis, a malformed '
        'stream with limits <= 0, and (thorough) all shapes <= (6,6,4) x budgets 1..64 x 168 flag sets; (f) bucket-name '
        'normalisation on random paths; (g) chunks handed to put_chunk / put_dask_array in 9 memory layouts (C, Fortran, '
        'transposed / strided / negative-stride / interior / axis-rotated views, unaligned, read-only; blocks of transposed '
        'dask arrays) on all back-ends incl. direct_write, with the stored .npy objects (header fortran_order/shape/dtype and '
        'body bytes) compared with the model, and foreign .npy objects (Fortran order, format 1.0/2.0) read back; (h) arrays '
        'written in several parts (equal or different chunk layouts, offsets) and/or mirrored to two stores / two array names '
        'by ONE dask.compute call and read back (whole, part by part, indexed) by one compute call; (i) reads that do not match '
        'what is stored (another dtype, merged / split chunk grid, chunks never written) with errors=<number> and errors=raise: '
        'only MISSING chunks may be replaced by the default value; (j) 2-4 arrays with near-colliding names (\'_\' / \'-\' variants, '
        'prefixes of each other, names with \'/\', characters that need quoting, upper / lower case, names that look like chunk ids / '
        'markers) written into ONE store (put_chunk / put_dask_array, one array or one chunk rewritten, markers) and read back '
        '(get_chunk and is_complete of every array, get_dask_array of two of them) on Dict / NPY / S3 with the S3 store URL in both modes (bare endpoint with the '
        'bucket in the names incl. two buckets, or bucket and key prefix in the store URL, with / without trailing slash), the '
        'endpoint\'s key set compared with the documented names; a 6 % stream of ill-formed names (empty / dot components: '
        'finding C07-F7); round trips (a) and sequences (c) on S3 also use both URL modes; (k) the BYTES of the .npy object: 36 dtypes of every '
        'object-free kind (bool, (u)int, float incl. f2, complex, S, V, U, datetime64 / timedelta64, structured incl. nested and sub-array fields; '
        'both byte orders), 0-3 dims with zero-size axes, 9 memory layouts, put_chunk / get_chunk on NPY (buffered and O_DIRECT) and S3: the '
        'stored bytes are parsed by numpy (version 1.0, C order, shape, dtype, body, 64-byte alignment: property) and for the modelled kinds '
        'compared byte for byte with the model file and decoded by both model readers (tie); objects of other writers (numpy write_array 1.0 / 2.0 '
        'in either order; the MODEL writer with format 1.0 / 2.0 / 3.0 and paddings 0-200) planted under the chunk name and read by get_chunk; '
        'a 10 % stream of truncated objects (never data, always a ChunkStoreError). A case is non-trivial when it stores at least two chunks / has a non-empty '
        'selection / actually splits a dimension / has an underscore in the bucket / has a non-C layout of a >= 2 x 2 array / puts at least two graphs / names at least two arrays; distinct by its '
        'canonical input')
ASSUMPTIONS = ['dask merges the graphs handed to one compute call by task name (modelled: of several requests with the same '
               'name only the first is evaluated); two RecS3 stores would share the one loopback endpoint, so at most one S3 '
               'store takes part in a multi-store case',
               'dask assembles blocks by position and culls blocks outside a slice (modelled: element p comes from the '
               'block containing p; an empty selection still takes block 0 of each axis)',
               'numpy .npy encoding/decoding and requests / urllib3 / urlsplit / geturl are exercised, not modelled; quote, the '
               'path merge of urljoin and the percent-decoding of the endpoint are modelled for ASCII names (Model/ChunksUrl.v)',
               'the loopback endpoint keys its objects by the percent-decoded request path and takes the first path component '
               'as the bucket (path-style addressing), like the S3 service the store is written for',
               'generate_chunks: equality with the exact-arithmetic model is demanded only where the float64 '
               'computation is decision-exact; the chunks_ok relation is demanded always',
               'DictChunkStore is addressed by slices not names: its keys are not compared, and negative offsets are '
               'not applied to it']

# ---------------------------------------------------------------------------------------------------
# The failing-input search after a broken translator item: model files that read the missing definition do not compile and
# the pipeline leaves them out of the driver it rebuilds.  This module is imported BEFORE the pipeline regenerates anything,
# so the driver found at import time is the one of the previous tree: keep a copy of it (only if it is up to date with the
# model sources on disk, contains every wire of this check and the proofs of this check are up to date with it = a good tree) and let the search use it when wires of this check are missing.

C07_WIRES = (7, 71, 72, 73, 74, 75)
C07_MODEL_SOURCES = ('Model/Chunks.v', 'Model/ChunksMulti.v', 'Model/ChunksGenPy.v', 'Model/ChunksUrl.v', 'Model/ChunksNpy.v', 'Model/Npy.v',
                     'Base/Sx.v')


def _sources_hash(core):
    import hashlib
    h = hashlib.sha256()
    for f in C07_MODEL_SOURCES:
        h.update(open(os.path.join(core.COQ, f), 'rb').read())
    return h.hexdigest()


def _snapshot_driver():
    try:
        import json
        from vh import core
        ex = core.EXTRACT_DIR
        drv, lo, stamp = (os.path.join(ex, x) for x in ('driver', 'left_out_wires.json', 'stamp'))
        if not (os.path.exists(drv) and os.path.exists(stamp)):
            return
        left = json.load(open(lo)) if os.path.exists(lo) else {}
        if any(str(w) in left for w in C07_WIRES):
            return
        st = open(stamp).read()
        if st != core.model_hash() + '|':          # not the driver of the sources on disk
            return
        # ... of a GOOD tree: the proofs of this check are compiled against the very Generated.v the driver was built from
        # (after a run whose translator passed but whose proofs broke, Props/C07.vo is out of date)
        rc, _ = core.sh('timeout 20 make -q Props/C07.vo', cwd=core.COQ, timeout=30)
        if rc != 0:
            return
        dst = os.path.join(core.VERIF, 'build', 'c07_last_good')
        tag = st + _sources_hash(core)
        if os.path.exists(os.path.join(dst, 'tag')) and open(os.path.join(dst, 'tag')).read() == tag:
            return
        os.makedirs(dst, exist_ok=True)
        tmp = os.path.join(dst, 'driver.tmp.%d' % os.getpid())
        shutil.copy2(drv, tmp)
        if open(stamp).read() != st:               # rebuilt meanwhile by another check
            os.remove(tmp)
            return
        os.replace(tmp, os.path.join(dst, 'driver'))
        with open(os.path.join(dst, 'tag'), 'w') as f:
            f.write(tag)
    except Exception:
        pass


_snapshot_driver()


def _last_good_model(ctx):
    """If wires of this check are missing from the current driver, answer model calls with the driver kept from the last
    good tree (same model sources, only Gen/Generated.v differs).  Returns a note for the evidence or None."""
    import json
    import subprocess
    from vh import core
    lo = os.path.join(core.EXTRACT_DIR, 'left_out_wires.json')
    left = json.load(open(lo)) if os.path.exists(lo) else {}
    have_driver = os.path.exists(os.path.join(core.EXTRACT_DIR, 'driver'))
    if have_driver and not any(str(w) in left for w in C07_WIRES):
        return None
    dst = os.path.join(core.VERIF, 'build', 'c07_last_good')
    drv = os.path.join(dst, 'driver')
    if not (os.path.exists(drv) and os.path.exists(os.path.join(dst, 'tag'))
            and open(os.path.join(dst, 'tag')).read().endswith(_sources_hash(core))):
        return 'no usable driver of the last good tree'

    def model(cases):
        if not cases:
            return []
        text = '\n'.join(core.to_sx(c) for c in cases) + '\n'
        p = subprocess.run(['bash', '-c', 'ulimit -s unlimited 2>/dev/null; exec %s' % drv], input=text, stdout=subprocess.PIPE,
                           stderr=subprocess.PIPE, text=True, timeout=3000, env=dict(os.environ, OCAMLRUNPARAM='l=8G'))
        if p.returncode:
            raise RuntimeError('model driver (last good tree) failed rc=%s: %s' % (p.returncode, p.stderr[-2000:]))
        lines = p.stdout.split('\n')
        if lines and lines[-1] == '':
            lines.pop()
        if len(lines) != len(cases):
            raise RuntimeError('model driver returned %d lines for %d cases' % (len(lines), len(cases)))
        return [core.parse_sx(l) for l in lines]
    ctx.model = model
    return 'model of the last good tree (wires %s are missing from the current driver)' % sorted(left)


SYNC = dict(scheduler='synchronous')
NAMES = {'dict': ['x'], 'npy': ['x', 'sub/x', 'a_b/c/x'], 's3': ['b_k/x_y', 'bk/x', 'b_k_/deep/x_']}
DTYPES = ['u1', '<i2', '>i4', '<f4', '>f8', '?', '<c8', '>c16', 'S3', '<U2', '>u2',
          [('a', '<u2'), ('b', '>f4')], [('re', 'i1'), ('f', '?'), ('t', 'S2')]]


def codes(s):
    return [ord(c) for c in s]


def destr(cs):
    return ''.join(chr(c) for c in cs)


def conv(dtype, labels):
    """Deterministic, (mostly) injective map from integer labels to values of dtype."""
    dt = np.dtype(dtype)
    labels = np.asarray(labels, dtype=np.int64)
    if (labels < 0).any():     # label -1 = element of a missing chunk replaced by the default value 0
        out = conv(dtype, np.where(labels < 0, 0, labels))
        out[labels < 0] = np.zeros((), dt)
        return out
    return np.asarray(_conv(dt, labels)).astype(dt).reshape(labels.shape)


def _conv(dt, labels):
    if dt.names:
        out = np.zeros(labels.shape, dt)
        for k, f in enumerate(dt.names):
            out[f] = _conv(dt[f], labels + k)
        return out
    if dt.kind == 'b':
        return ((labels * 2654435761 >> 5) & 1).astype(bool)
    if dt.kind in 'iu':
        return (labels * 37 + 11).astype(dt)
    if dt.kind == 'f':
        return (labels + 0.5).astype(dt)
    if dt.kind == 'c':
        return (labels + 1j * (2 * labels + 1)).astype(dt)
    if dt.kind == 'S':
        return np.array([b'%d' % (l % 10 ** dt.itemsize) for l in labels.ravel().tolist()], dtype=dt).reshape(labels.shape)
    if dt.kind == 'U':
        n = dt.itemsize // 4
        return np.array(['%d' % (l % 10 ** n) for l in labels.ravel().tolist()], dtype=dt).reshape(labels.shape)
    raise ValueError(dtype)


def same(a, b):
    return a.shape == b.shape and a.dtype == b.dtype and np.ascontiguousarray(a).tobytes() == np.ascontiguousarray(b).tobytes()


def dt_repr(dtype):
    return dtype if isinstance(dtype, str) else [list(x) for x in dtype]


def dt_of(rep):
    return rep if isinstance(rep, str) else [tuple(x) for x in rep]


# ---------------------------------------------------------------------------------------------------
# back-ends

class Backends:
    def __init__(self, s3):
        self.s3 = s3
        self.tmp = v4.scratch_dir('c07')
        self.n = 0

    def done(self):
        for d in getattr(self, 'dirs', []):
            shutil.rmtree(d, ignore_errors=True)
        self.dirs = []

    def close(self):
        shutil.rmtree(self.tmp, ignore_errors=True)

    def new(self, kind, full_shape, dtype, name=None, bp=''):
        """Returns (store, array_name, keys()) with keys() -> sorted object keys as the model names them.
        bp: path of the S3 store URL ('' = bare endpoint, '/bucket/' = store relative to an existing bucket)."""
        name = name or NAMES[kind][0]
        if kind == 'dict':
            st = c07stores.RecDict(x=np.zeros(full_shape, np.dtype(dtype)))
            return st, 'x', None
        if kind in ('npy', 'npyd'):
            self.n += 1
            d = os.path.join(self.tmp, 'n%d' % self.n)
            os.makedirs(d)
            st = c07stores.RecNpy(d, direct_write=(kind == 'npyd'))
            st.create_array(name)
            st.root = d

            def keys():
                out = []
                for root, _, files in os.walk(d):
                    out += [os.path.relpath(os.path.join(root, f), d) for f in files]
                return sorted(out)
            self.dirs = getattr(self, 'dirs', []) + [d]
            return st, name, keys
        self.s3.reset()
        st = c07stores.RecS3(self.s3.url + bp, timeout=(5, 5), retries=0)
        st.create_array(name)
        return st, name, (lambda: sorted(self.s3.objects))


S3_PATHS = ['', '', '/', '/bkt/', '/b_u/', '/bkt/pre_x/']     # store URL paths: bucket in the array name / in the store URL


def s3_paths(ctx, pairs):
    """{(bp, rel): object path at the endpoint} from the model of make_url (wire_74) for (store path, relative name) pairs."""
    by = {}
    for bp, k in sorted(set(pairs)):
        by.setdefault(bp, []).append(k)
    bps = sorted(by)
    out = {}
    for bp, mo in zip(bps, ctx.model([[74, [1, codes(bp), [codes(k) for k in by[bp]]]] for bp in bps])):
        for k, o in zip(by[bp], mo[0]):
            out[(bp, k)] = destr(o[1]) if o != [-999] else None
    return out


def err_code(e):
    if isinstance(e, TypeError):
        return 1
    if isinstance(e, BadChunk):
        return 2
    if isinstance(e, ChunkNotFound):
        return 3
    if isinstance(e, ChunkStoreError):
        return 5
    return 9


# ---------------------------------------------------------------------------------------------------
# generators

def rand_chunks(rng, maxlen=6, allow0=True):
    nd = rng.choice([0, 1, 1, 2, 2, 2, 3, 3])
    chunks = []
    for _ in range(nd):
        n = rng.randint(0 if allow0 else 1, maxlen)
        if rng.random() < 0.8 and n == 0:
            n = rng.randint(1, maxlen)
        if n == 0:
            chunks.append([0])
            continue
        cs = []
        while n > 0:
            c = rng.randint(1, n)
            cs.append(c)
            n -= c
        rng.shuffle(cs)
        chunks.append(cs)
    return chunks


def rand_offset(rng, nd, kind):
    r = rng.random()
    if r < 0.35 or nd == 0:
        return []
    if r < 0.45:
        return [0] * nd
    if r < 0.75 or kind == 'dict':
        return [rng.randint(0, 5) for _ in range(nd)]
    if r < 0.85:
        return [rng.choice([0, 7, 99998, 100000, 123456]) for _ in range(nd)]
    if r < 0.95:
        return [rng.randint(-4, 4) for _ in range(nd)]
    return [rng.randint(0, 3) for _ in range(rng.randint(1, nd))][:max(1, nd - 1)]   # wrong length


def rand_index(rng, shape):
    nd = len(shape)
    k = rng.randint(0, nd) if rng.random() < 0.3 else nd
    out = []
    for n in shape[:k]:
        r = rng.random()
        if r < 0.15:
            out.append([None, None])
            continue

        def b():
            t = rng.random()
            if t < 0.15:
                return None
            if t < 0.3:
                return rng.randint(-n - 1, -1)
            return rng.randint(0, n + 1)
        s, e = b(), b()
        if rng.random() < 0.75 and s is not None and e is not None and (s % max(n, 1)) > (e % max(n, 1)):
            s, e = e, s
        out.append([s, e])
    return out


# ---------------------------------------------------------------------------------------------------
# (a) round trips

def roundtrip_case(ctx, be, kind, case, mo):
    """case: dict(dtype, chunks, offp, offg, errors); mo: model output [put_results, keys, get_result]."""
    dtype = np.dtype(dt_of(case['dtype']))
    chunks = [tuple(c) for c in case['chunks']]
    shape = tuple(sum(c) for c in chunks)
    offp, offg = tuple(case['offp']), tuple(case['offg'])
    nd = len(shape)
    full = tuple(s + max([0] + [o[i] for o in (offp, offg) if len(o) > i]) for i, s in enumerate(shape))
    labels = np.arange(int(np.prod(shape, dtype=int))).reshape(shape)
    x = conv(dtype, labels)
    sig = 'op=roundtrip;backend=%s;offset=%s;' % (kind, off_class(offp, offg, nd))
    store, name, keys = be.new(kind, full, dtype, case.get('name'), case.get('bp', ''))
    arr = da.from_array(x, chunks=tuple(chunks))
    with dask.config.set(**SYNC):
        try:
            res = store.put_dask_array(name, arr, offp).compute()
            impl_put = [0 if r is None else err_code(r) for r in np.asarray(res, dtype=object).ravel().tolist()]
        except Exception as e:
            impl_put = ['raised', type(e).__name__]
        mput = mo[0]
        if impl_put[:1] == ['raised']:
            ctx.disagree(sig + 'ndim=%d;symptom=put_raised:%s' % (nd, impl_put[1]), case, impl_put, mput,
                         'put_dask_array raised instead of storing the array')
            be.done()
            ctx.traces_validated += 1
            return
        if impl_put != mput and not (kind == 'dict' and any(mput)):
            ctx.disagree(sig + 'symptom=put_results', case, impl_put, mput, 'put_dask_array success array differs from model',
                         kind='tie' if any(mput) else 'property')
        if keys is not None:
            impl_keys = keys()
            mkeys = sorted(destr(k) for k in mo[1])
            if kind == 's3':
                mkeys = sorted(case['_norm'][(case.get('bp', ''), k)] for k in mkeys)
            if impl_keys != mkeys:
                ctx.disagree(sig + 'symptom=object_keys', case, impl_keys[:6], mkeys[:6],
                             'file names / object keys differ from chunk_name of the blocks')
        c07stores.CALLS.clear()
        mget = mo[2]
        try:
            out = store.get_dask_array(name, tuple(chunks), dtype, offset=offg, errors=case['errors']).compute()
            out = np.asarray(out)
        except Exception as e:
            out = e
    if mget[0] == 0:
        exp = conv(dtype, np.array(mget[1], dtype=np.int64).reshape(shape))
        if isinstance(out, Exception):
            ctx.disagree(sig + 'symptom=get_raised:%s' % type(out).__name__, case, repr(out)[:200], 'data',
                         'get_dask_array raised where the round trip must succeed')
        elif not same(out, exp):
            ctx.disagree(sig + 'symptom=wrong_data', case, out.ravel()[:8].tolist(), exp.ravel()[:8].tolist(),
                         'array read back differs from the array written (element, dtype or shape)', spec=x.ravel()[:8].tolist())
        elif not same(exp, x):
            ctx.disagree(sig + 'symptom=model_not_identity', case, None, mget[1][:8], 'model round trip is not the identity',
                         kind='tie')
    else:
        if not isinstance(out, Exception) and kind != 'dict':
            ctx.disagree(sig + 'symptom=data_instead_of_error', case, out.ravel()[:8].tolist(), mget,
                         'read returned data where the model (and the stored state) has no such chunks', kind='tie')
    be.done()
    ctx.traces_validated += 1


def off_class(offp, offg, nd):
    def c(o):
        if not o:
            return 'none'
        if len(o) != nd:
            return 'badlen'
        if any(v < 0 for v in o):
            return 'neg'
        if any(v > 99999 for v in o):
            return 'wide'
        return 'zero' if not any(o) else 'small'
    return c(offp) if offp == offg else c(offp) + '/' + c(offg)


def gen_roundtrips(ctx, n):
    rng = ctx.rng
    cases = []
    kinds = ['dict', 'npy', 'npy', 's3']
    for i in range(n):
        kind = kinds[i % len(kinds)]
        chunks = rand_chunks(rng)
        nd = len(chunks)
        offp = rand_offset(rng, nd, kind)
        offg = offp
        errors = rng.choice(['raise', 0])
        if kind != 'dict' and rng.random() < 0.08 and nd:
            offg = rand_offset(rng, nd, kind)
            errors = 'raise'
        if len(offp) not in (0, nd) or len(offg) not in (0, nd):
            errors = 'raise'
        cases.append((kind, dict(name=rng.choice(NAMES[kind]), dtype=dt_repr(rng.choice(DTYPES)), chunks=chunks, offp=offp, offg=offg,
                                 errors=errors)))
        if kind == 's3':
            cases[-1][1]['bp'] = rng.choice(S3_PATHS)
    return cases


def run_roundtrips(ctx, be, cases):
    mc = []
    for kind, c in cases:
        c.setdefault('name', NAMES[kind][0])
        mc.append([7, [2, codes(c['name']), c['chunks'], c['offp'], c['offg'], c['errors'] != 'raise']])
    mos = ctx.model(mc)
    # object paths at the endpoint for the S3 cases (model of make_url: quote, urljoin, bucket normalisation)
    norm = s3_paths(ctx, [(c.get('bp', ''), destr(k)) for (kind, c), mo in zip(cases, mos) if kind == 's3' for k in mo[1]])
    for (kind, c), mo in zip(cases, mos):
        c['_norm'] = norm
        roundtrip_case(ctx, be, kind, c, mo)
        del c['_norm']
        nblocks = int(np.prod([len(x) for x in c['chunks']], dtype=int))
        ctx.note_case(('rt', kind, repr(c)), nontrivial=nblocks >= 2,
                      sample=dict(op='roundtrip', backend=kind, **c))
        ctx.count('roundtrip:' + kind)
        if kind == 's3':
            ctx.count('s3_store_url=' + ('bucket_in_url' if c.get('bp', '').strip('/') else 'bare_endpoint'))
        ctx.count('ndim=%d' % len(c['chunks']))
        ctx.count('offset=' + off_class(tuple(c['offp']), tuple(c['offg']), len(c['chunks'])))


# ---------------------------------------------------------------------------------------------------
# (b) pruned reads

def index_case(ctx, be, kind, case, mo):
    """mo = [requested, names, result, spec_requested, spec_labels]."""
    dtype = np.dtype(dt_of(case['dtype']))
    chunks = tuple(tuple(c) for c in case['chunks'])
    shape = tuple(sum(c) for c in chunks)
    index = tuple(slice(s, e) for s, e in case['index'])
    labels = np.arange(int(np.prod(shape, dtype=int))).reshape(shape)
    x = conv(dtype, labels)
    exp_shape = np.empty(shape, dtype=[])[index].shape
    empty = 0 in exp_shape
    store_class = 'dict' if kind == 'dict' else 'named'
    sig = 'op=index;store=%s;sel=%s;' % (store_class, 'empty' if empty else 'nonempty')
    store, name, keys = be.new(kind, shape, dtype, case.get('name'))
    with dask.config.set(**SYNC):
        store.put_dask_array(name, da.from_array(x, chunks=chunks)).compute()
        c07stores.CALLS.clear()
        try:
            out = np.asarray(store.get_dask_array(name, chunks, dtype, index=index, errors=case.get('errors', 0)).compute())
        except Exception as e:
            out = e
    be.done()
    req = sorted(set(c[1] for c in c07stores.CALLS))
    mreq = sorted(set(tuple(tuple(p) for p in r) for r in mo[0]))
    sreq = sorted(set(tuple(tuple(p) for p in r) for r in mo[3]))
    all_blocks = set(itertools.product(*[list(zip(np.cumsum((0,) + c[:-1]).tolist(), np.cumsum(c).tolist())) for c in chunks]))
    spec = conv(dtype, np.array(mo[4], dtype=np.int64).reshape(exp_shape))
    # tie: implementation vs model, for every selection (the model follows _prune_chunks as repaired by d72167c: the
    # last remaining chunk of an axis is never dropped, so empty selections are served by a real chunk)
    if isinstance(out, Exception):
        if mo[2][0] == 0 and not (kind == 'dict'):
            ctx.disagree(sig + 'symptom=tie_raised:%s' % type(out).__name__, case, repr(out)[:200], mo[2], 'raised, model has data', kind='tie')
    elif mo[2][0] == 0:
        md = conv(dtype, np.array(mo[2][1], dtype=np.int64).reshape(exp_shape))
        if not same(out, md):
            ctx.disagree(sig + 'symptom=tie_data', case, out.ravel()[:8].tolist(), md.ravel()[:8].tolist(), 'data differs from model', kind='tie')
    elif kind != 'dict':
        ctx.disagree(sig + 'symptom=tie_data_vs_error', case, out.ravel()[:8].tolist(), mo[2], 'data, model has error', kind='tie')
    if req != mreq and not isinstance(out, Exception):
        ctx.disagree(sig + 'symptom=tie_requests', case, req[:6], mreq[:6], 'requested chunks differ from model', kind='tie')
    # property: implementation vs spec
    if isinstance(out, Exception):
        ctx.disagree(sig + 'symptom=raised:%s' % type(out).__name__, case, repr(out)[:200], None,
                     'pruned read raised instead of returning the selected elements', spec=spec.ravel()[:8].tolist())
    else:
        if not same(out, spec):
            ctx.disagree(sig + 'symptom=wrong_data', case, out.ravel()[:8].tolist(), None,
                         'pruned read differs from array[index]', spec=spec.ravel()[:8].tolist())
        extra = [r for r in req if r not in sreq]
        missing = [r for r in sreq if r not in req]
        altered = [r for r in req if r not in all_blocks]
        if empty and (altered or extra):
            ctx.disagree('op=index;sel=empty;symptom=nonoverlapping_request', case, (altered + extra)[:4], None,
                         'an empty selection requests a chunk (none overlaps it)', spec=sreq[:6])
        elif altered:
            ctx.disagree(sig + 'symptom=boundary_altered', case, altered[:4], None, 'a requested chunk is not a block of the stored chunking',
                         spec=sreq[:6])
        elif extra:
            ctx.disagree(sig + 'symptom=extra_request', case, extra[:4], None, 'a chunk not overlapping the selection was requested',
                         spec=sreq[:6])
        if missing:
            ctx.disagree(sig + 'symptom=missing_request', case, req[:6], None, 'an overlapping chunk was not requested', spec=sreq[:6])
    ctx.traces_validated += 1
    return empty


def run_index_cases(ctx, be, cases):
    mc = []
    for kind, c in cases:
        c.setdefault('name', NAMES[kind][0])
        nm = c['name']
        mc.append([7, [3, codes(nm), c['chunks'], [[[] if s is None else [s], [] if e is None else [e]] for s, e in c['index']],
                       c.get('errors', 0) != 'raise']])
    mos = ctx.model(mc)
    for (kind, c), mo in zip(cases, mos):
        empty = index_case(ctx, be, kind, c, mo)
        ctx.note_case(('ix', kind, repr(c)), nontrivial=not empty, sample=dict(op='index', backend=kind, **c))
        ctx.count('index:' + kind)
        ctx.count('selection=' + ('empty' if empty else 'nonempty'))


def gen_index_cases(ctx, n):
    rng = ctx.rng
    out = []
    for i in range(n):
        kind = ['dict', 'npy', 's3'][i % 3]
        chunks = rand_chunks(rng, allow0=False)
        while not chunks:
            chunks = rand_chunks(rng, allow0=False)
        shape = [sum(c) for c in chunks]
        out.append((kind, dict(name=rng.choice(NAMES[kind]), dtype=dt_repr(rng.choice(DTYPES)), chunks=chunks, index=rand_index(rng, shape))))
    return out


# ---------------------------------------------------------------------------------------------------
# (c) operation sequences on the name-addressed stores

def run_ops(ctx, be, n):
    rng = ctx.rng
    cases = []
    for i in range(n):
        kind = ['npy', 's3'][i % 2]
        nd = rng.randint(0, 2)
        sls = [[[s, s + rng.randint(0, 3)] for s in [rng.choice([0, 0, 2, 5, 100000, -2]) for _ in range(nd)]] for _ in range(3)]
        ops = []
        for _ in range(rng.randint(3, 10)):
            r = rng.random()
            sl = rng.choice(sls)
            if r < 0.4:
                shape = [e - s for s, e in sl]
                if rng.random() < 0.1 and nd:
                    shape[0] += 1
                ops.append([0, sl, shape, rng.randint(0, 50)])
            elif r < 0.7:
                ops.append([1, sl])
            elif r < 0.85:
                ops.append([2, rng.choice([0, 1])])
            else:
                ops.append([3, rng.choice([0, 1])])
        cases.append((kind, ops, rng.choice(S3_PATHS) if kind == 's3' else ''))
    arrn = {'npy': 'x', 's3': 'b_k/x_y'}
    mark = {'npy': ['x', 'x/y'], 's3': ['b_k/x_y', 'b_k/z']}
    mc = []
    for kind, ops, bp in cases:
        mops = [(o[:1] + [codes(mark[kind][o[1]])]) if o[0] in (2, 3) else o for o in ops]
        mc.append([7, [7, codes(arrn[kind]), mops]])
    mos = ctx.model(mc)
    norm = s3_paths(ctx, [(bp, destr(k)) for (kind, _, bp), mo in zip(cases, mos) if kind == 's3' for k in mo[1]])
    dt = np.dtype('<i4')
    for (kind, ops, bp), mo in zip(cases, mos):
        store, name, keys = be.new(kind, (), dt, arrn[kind], bp)
        outs = []
        for o in ops:
            try:
                if o[0] == 0:
                    shape = tuple(max(v, 0) for v in o[2])
                    if any(v < 0 for v in o[2]):
                        outs.append(None)
                        continue
                    data = (o[3] + np.arange(int(np.prod(shape, dtype=int)))).astype(dt).reshape(shape)
                    store.put_chunk(name, tuple(slice(s, e) for s, e in o[1]), data)
                    outs.append([0])
                elif o[0] == 1:
                    c = store.get_chunk(name, tuple(slice(s, e) for s, e in o[1]), dt)
                    outs.append([0, list(c.shape), c.ravel().tolist()] if c.dtype == dt else ['dtype', str(c.dtype)])
                elif o[0] == 2:
                    store.mark_complete(mark[kind][o[1]])
                    outs.append([0])
                else:
                    outs.append([0, int(store.is_complete(mark[kind][o[1]]))])
            except ChunkStoreError as e:
                outs.append([err_code(e)])
            except Exception as e:
                outs.append(['raised', type(e).__name__])
        impl_keys = keys()
        be.done()
        mkeys = sorted(destr(k) for k in mo[1])
        if kind == 's3':
            mkeys = sorted(norm[(bp, k)] for k in mkeys)
        case = dict(backend=kind, ops=ops, bp=bp)
        for j, (a, b) in enumerate(zip(outs, mo[0])):
            if a is None:
                continue
            if a != b and not (a == [5] and b == [3]):    # S3: missing chunk in an empty bucket is StoreUnavailable
                what = {0: 'put_chunk', 1: 'get_chunk', 2: 'mark_complete', 3: 'is_complete'}[ops[j][0]]
                ctx.disagree('op=sequence;backend=%s;step=%s;symptom=result' % (kind, what), case, a, b,
                             '%s result differs from the store model at step %d' % (what, j))
                break
        else:
            if impl_keys != mkeys and not any(a is None for a in outs):
                ctx.disagree('op=sequence;backend=%s;symptom=object_keys' % kind, case, impl_keys, mkeys, 'object keys differ')
        ctx.traces_validated += 1
        ctx.note_case(('ops', kind, repr(ops)), nontrivial=len(ops) >= 4, sample=None)
        ctx.count('sequence:' + kind)


# ---------------------------------------------------------------------------------------------------
# (d) names and chunk_metadata

class _Chunk:
    def __init__(self, shape, hasobject):
        self.shape = tuple(shape)
        self.ndim = len(self.shape)
        self.size = int(np.prod(self.shape, dtype=np.int64)) if self.shape else 1
        self.dtype = np.dtype(object if hasobject else 'u1')


def run_names(ctx, n):
    rng = ctx.rng
    vals = [0, 1, 9, 10, 99, 12345, 99999, 100000, 1234567, -1, -9, -10, -9999, -10000, -123456, 2 ** 40, 10 ** 17]
    zs = vals + [rng.randint(-200000, 200000) for _ in range(n)] + [rng.randint(0, 10 ** rng.randint(1, 17)) for _ in range(n // 4)]
    mos = ctx.model([[7, [6, ChunkStore.NAME_INDEX_WIDTH, z]] for z in zs])
    for z, mo in zip(zs, mos):
        impl = ChunkStore.chunk_id_str((slice(z, z + 1),))
        if impl != destr(mo[0]) or mo[1] != z:
            ctx.disagree('op=chunk_id_str;sign=%s;wide=%s' % (z < 0, abs(z) > 99999), dict(start=z), impl, destr(mo[0]),
                         'printed index differs from the documented zero-padded decimal form (or does not parse back)')
        ctx.note_case(('fmt', z), nontrivial=True)
        ctx.count('chunk_id_str')
    # the documented examples (docstrings of chunk_id_str / NpyFileChunkStore / S3ChunkStore): the SPEC side
    for starts, doc in (((12, 1024, 0), '00012_01024_00000'), ((1, 512), '00001_00512'), ((0,), '00000')):
        impl = ChunkStore.chunk_id_str(tuple(slice(a, a + 1) for a in starts))
        nm = ChunkStore.chunk_metadata('arr/name', tuple(slice(a, a + 1) for a in starts))[0]
        if impl != doc or nm != 'arr/name/' + doc:
            ctx.disagree('op=chunk_id_str;documented_example', dict(starts=list(starts)), impl, None,
                         'chunk id differs from the documented zero-padded form', spec=doc)
        ctx.note_case(('doc', starts))
    cases = []
    for _ in range(n):
        nd = rng.randint(0, 4)
        sl = [[rng.choice(vals[:12] + [rng.randint(0, 300)]), 0] for _ in range(nd)]
        for s in sl:
            s[1] = s[0] + rng.randint(-1, 5)
        steps = [rng.choice([None, None, 1, 1, 2, -1, 0]) if rng.random() < 0.2 else rng.choice([None, 1]) for _ in range(nd)]
        shape = [e - s for s, e in sl]
        cshape = None
        if rng.random() < 0.6:
            cshape = list(shape)
            if rng.random() < 0.25 and nd:
                cshape[rng.randrange(nd)] += rng.choice([-1, 1])
            if rng.random() < 0.1:
                cshape = cshape + [1] if rng.random() < 0.5 else cshape[:-1]
        name = rng.choice(['x', 'a/b', 'b_k/x_y', 'x/00001', '', 'a//b/', 'weights_channel'])
        cobj = cshape is not None and rng.random() < 0.1
        dobj = rng.random() < 0.1
        cases.append(dict(name=name, slices=sl, steps=steps, cshape=cshape, cobj=cobj, dobj=dobj))
    mos = ctx.model([[7, [1, codes(c['name']), c['slices'], [[] if s is None else [s] for s in c['steps']],
                          [] if c['cshape'] is None else [c['cshape']], c['cobj'], c['dobj']]] for c in cases])
    for c, mo in zip(cases, mos):
        slices = tuple(slice(s, e, st) for (s, e), st in zip(c['slices'], c['steps']))
        try:
            nm, shp = ChunkStore.chunk_metadata(c['name'], slices, chunk=None if c['cshape'] is None else _Chunk(c['cshape'], c['cobj']),
                                                dtype=object if c['dobj'] else 'f4')
            impl = [0, nm, list(shp)]
        except (TypeError, ChunkStoreError) as e:
            impl = [err_code(e)]
        except Exception as e:
            impl = ['raised', type(e).__name__]
        model = [0, destr(mo[1]), mo[2]] if mo[0] == 0 else [mo[0]]
        if impl != model:
            ctx.disagree('op=chunk_metadata;impl=%s;model=%s' % (impl[0], model[0]), c, impl, model,
                         'chunk_metadata name/shape/validation differs from model')
        ctx.note_case(('meta', repr(c)), nontrivial=len(c['slices']) > 0)
        ctx.count('chunk_metadata')
        ctx.traces_validated += 1


# ---------------------------------------------------------------------------------------------------
# (e) generate_chunks

def gc_norm(nd, i):
    """NumPy reading of an axis number: position or None."""
    if 0 <= i < nd:
        return i
    if -nd <= i < 0:
        return i + nd
    return None


def gc_args(c):
    """(M, dims as given or the default, limits as given) of a case."""
    mcs = Fraction(c['mcs'][0], c['mcs'][1])
    M = mcs / c['itemsize']
    nd = len(c['shape'])
    dims = list(range(nd)) if c['dims'] is None else list(c['dims'])
    mde = [] if c['mde'] is None else [list(kv) for kv in c['mde']]
    return M, dims, mde


def gc_limits(nd, dims, mde):
    """axis -> strictest limit among the keys naming it, for nominated axes only (the spec's reading)."""
    nominated = [gc_norm(nd, i) for i in dims]
    lim = {}
    for k, v in mde:
        a = gc_norm(nd, k)
        if a is not None and a in nominated:
            lim[a] = min(v, lim.get(a, v))
    return [a for a in nominated if a is not None], lim


def gc_robust(shape, M, dims, pow2, mde):
    """True when every float64 decision of generate_chunks provably equals the exact-arithmetic decision."""
    def dyadic(q):
        d = Fraction(q).denominator
        return d & (d - 1) == 0
    if not dyadic(M):
        return False
    nd = len(shape)
    axes, lim = gc_limits(nd, dims, mde)
    de = list(shape)
    for i in axes:
        if i in lim and lim[i] < shape[i]:
            de[i] = 2 ** (lim[i].bit_length() - 1) if pow2 else lim[i]
    for d in dims:
        cur = int(np.prod(de, dtype=object))
        if cur <= M:
            break
        d = gc_norm(nd, d)
        if d is None:
            break           # IndexError in both
        x = Fraction(de[d]) * M / cur
        if x < 1:
            t = 1
        elif pow2:
            t = 2 ** (int(x).bit_length() - 1)
        else:
            q = Fraction(shape[d]) / x
            if q.denominator == 1 and not dyadic(x):
                return False
            pieces = -((-q.numerator) // q.denominator)
            t = shape[d] // pieces
        de[d] = t
    return True


def gc_case(ctx, c, mo, quiet=False):
    shape, dims, pow2, mde = c['shape'], c['dims'], c['pow2'], c['mde']
    kw = {}
    if dims is not None:
        kw['dims_to_split'] = tuple(dims) if c.get('dims_tuple', True) else list(dims)
    if mde is not None:
        kw['max_dim_elements'] = {int(k): v for k, v in mde}
    mcs = Fraction(c['mcs'][0], c['mcs'][1])
    arg = mcs.numerator if mcs.denominator == 1 else float(mcs)
    try:
        with warnings.catch_warnings():
            warnings.simplefilter('ignore')
            out = generate_chunks(tuple(shape), np.dtype('V%d' % c['itemsize']), arg, power_of_two=pow2, **kw)
        out = [list(map(int, x)) for x in out]
    except Exception as e:
        out = e
    return out


def gc_wire(c, out):
    M, dims, mde = gc_args(c)
    return [73, [c['shape'], M.numerator, M.denominator, [] if c['dims'] is None else [list(c['dims'])], c['pow2'],
                 [] if c['mde'] is None else [[list(kv) for kv in c['mde']]], out]], M, dims, mde


def gc_flags(c, dims, mde, detail=False):
    """Shape class of the arguments: how the axes are spelled in dims_to_split and in the keys of max_dim_elements."""
    nd = len(c['shape'])
    ax = []
    if c['dims'] is None:
        ax.append('all')
    else:
        if any(-nd <= i < 0 for i in dims):
            ax.append('neg')
        if any(gc_norm(nd, i) is None for i in dims):
            ax.append('oor')
        if detail and len(set(gc_norm(nd, i) for i in dims)) < len(dims):
            ax.append('rep')
    keys = []
    if mde:
        if any(-nd <= k < 0 for k, _ in mde) or (not detail and len(set(gc_norm(nd, k) for k, _ in mde)) < len(mde)):
            keys.append('neg')
        if detail and any(gc_norm(nd, k) is None for k, _ in mde):
            keys.append('oor')
        if detail and len(set(gc_norm(nd, k) for k, _ in mde)) < len(mde):
            keys.append('alias')
    return 'pow2=%d;caps=%s;dims=%s' % (c['pow2'], ('+'.join(keys) or '1') if mde else '0', '+'.join(ax) or 'subset')


def gc_check(ctx, c, out, mo, M, dims, mde):
    model, ok_impl, ok_model, dom, valid = mo
    flags = gc_flags(c, dims, mde)
    raised = isinstance(out, Exception)
    ctx.traces_validated += 1
    if not dom:
        # malformed arguments (a limit <= 0, ...): the property only demands "rejected, not answered wrongly"
        ctx.count('gc_malformed')
        if not raised and not ok_impl:
            ctx.disagree('op=generate_chunks;limits=nonpositive;symptom=answered:%s' % gc_symptom(c, out, M, dims, mde), c, out,
                         None, 'generate_chunks answers malformed arguments with a scheme that violates the chunking spec',
                         spec='chunks_ok_py = false')
        return
    model_raises = model[0] != 0
    mchunks = None if model_raises else model[1]
    if not ok_model:
        ctx.disagree('op=generate_chunks;%s;symptom=model_not_ok' % flags, c, repr(out)[:200], model, 'model output violates chunks_ok_py', kind='tie')
    if raised:
        if model_raises and isinstance(out, IndexError):
            ctx.count('gc_index_error')
            return
        ctx.disagree('op=generate_chunks;%s;symptom=raised:%s' % (flags, type(out).__name__), c, repr(out)[:200], model,
                     'generate_chunks raised on an in-domain input' if valid else
                     'generate_chunks raised where the model returns (or raised something other than IndexError)',
                     kind='property' if valid else 'tie')
        return
    if not ok_impl:
        ctx.disagree('op=generate_chunks;%s;symptom=%s' % (flags, gc_symptom(c, out, M, dims, mde)), c, out, model,
                     'chunking scheme violates tiling / size budget / power-of-two / per-dimension limits (axis numbers read '
                     'the NumPy way)', spec='chunks_ok_py = false')
    elif model_raises:
        ctx.disagree('op=generate_chunks;%s;symptom=returned_where_model_raises' % flags, c, out, model,
                     'generate_chunks returned where the model of the source raises IndexError', kind='tie')
    elif out != mchunks and gc_robust(c['shape'], M, dims, c['pow2'], mde):
        ctx.disagree('op=generate_chunks;%s;symptom=differs_from_model' % flags, c, out, model,
                     'chunking differs from the exact-arithmetic model of the algorithm', kind='tie')


def gc_symptom(c, out, M, dims, mde):
    shape = c['shape']
    nd = len(shape)
    if len(out) != nd or any(sum(o) != s or not o or min(o) <= 0 for o, s in zip(out, shape)):
        return 'not_tiling'
    axes, lim = gc_limits(nd, dims, mde)
    if any(max(out[i]) > lim[i] for i in lim):
        return 'dim_cap'
    if c['pow2'] and any(v & (v - 1) for o in out for v in o[:-1]):
        return 'not_pow2'
    if any(len(o) > 1 for i, o in enumerate(out) if i not in axes):
        return 'unsplit_dim_split'
    return 'budget'


def gc_spell(rng, nd, i, p=0.35):
    return i - nd if rng.random() < p else i


def run_gen_chunks(ctx, n, be=None):
    rng = ctx.rng
    cases = []
    for _ in range(n):
        nd = rng.randint(1, 4)
        shape = [rng.choice([1, 2, 3, 5, 7, 8, 12, 16, 31, 64, 100, rng.randint(1, 40)]) for _ in range(nd)]
        itemsize = rng.choice([1, 1, 2, 4, 8, 16, 3, 6])
        total = int(np.prod(shape)) * itemsize
        r = rng.random()
        if r < 0.7:
            mcs = [rng.randint(1, max(2, total + total // 4)), 1]
        elif r < 0.85:
            mcs = [rng.randint(1, 4 * max(2, total)), 4]
        else:
            mcs = [rng.choice([1, 10, 1000, 10 ** 6, 2 ** 40]), 1]
        # dims_to_split: None, or axes in any order, each spelled from the front or from the back, now and then an
        # axis twice (same or other spelling) and an entry that names no axis (mostly last, where it is often not reached)
        dims = None
        if rng.random() < 0.6:
            dims = [gc_spell(rng, nd, i) for i in rng.sample(range(nd), rng.randint(0, nd))]
            if dims and rng.random() < 0.15:
                i = rng.choice(dims)
                dims.insert(rng.randint(0, len(dims)), rng.choice([i, i + nd if i < 0 else i - nd]))
            if rng.random() < 0.12:
                bad = rng.choice([nd, nd + rng.randint(1, 20), -nd - 1, -nd - rng.randint(2, 20), 17])
                dims.insert(len(dims) if rng.random() < 0.6 else rng.randint(0, len(dims)), bad)
        # max_dim_elements: keys spelled either way, now and then both spellings of an axis with different limits,
        # a key that names no axis; malformed stream: a limit <= 0
        mde = None
        if rng.random() < 0.55:
            vals = [1, 2, 3, 4, 5, 8, 13, 100]
            mde = [[gc_spell(rng, nd, i), rng.choice(vals)] for i in rng.sample(range(nd), rng.randint(0, nd))]
            if mde and rng.random() < 0.15:
                k = rng.choice(mde)[0]
                mde.insert(rng.randint(0, len(mde)), [k + nd if k < 0 else k - nd, rng.choice(vals)])
            if rng.random() < 0.08:
                mde.insert(rng.randint(0, len(mde)), [rng.choice([nd, -nd - 1, 17, nd + 3]), rng.choice(vals)])
            if mde and rng.random() < 0.04:
                rng.choice(mde)[1] = rng.choice([0, -1, -3])
        cases.append(dict(shape=shape, itemsize=itemsize, mcs=mcs, dims=dims, pow2=rng.random() < 0.5, mde=mde))
    # the way katdal's writers call it: (dumps, channels, corrprods), time / frequency splittable from the front or the back,
    # power-of-two chunks with per-dimension limits, budgets of 0.1 .. 100 MB (float64 arguments such as 1e6)
    for _ in range(max(1, n // 12)):
        shape = [rng.choice([1, 10, 37, 100, 720]), rng.choice([1024, 4096, 8192, 32768, 1000]), rng.choice([40, 144, 800, 2016])]
        itemsize = rng.choice([8, 4, 1])
        mcs = [rng.choice([10 ** 5, 10 ** 6, 3 * 10 ** 6, 10 ** 7, 10 ** 8, 2 ** 20, 2 ** 24, int(np.prod(shape)) * itemsize // rng.choice([1, 10, 16])]), 1]
        dims = rng.choice([[0, 1], [-3, -2], [0, -2], [1], [-2, 0], None, [0, 1, 17]])
        mde = rng.choice([None, [[0, rng.choice([1, 4, 32])], [1, rng.choice([64, 256, 1000])]],
                          [[-3, rng.choice([2, 10])], [-2, rng.choice([50, 1024])]], [[0, 2], [-2, 50], [1, 64]]])
        cases.append(dict(shape=shape, itemsize=itemsize, mcs=mcs, dims=dims, pow2=rng.random() < 0.7, mde=mde))
        ctx.count('gc_katdal_like')
    run_gc_batch(ctx, cases, sample=True, be=be, roundtrips=ctx.scale(45, 450))


def gc_round_trip(ctx, be, c, out, kind):
    """The scheme generate_chunks returned is used as the chunking of put_dask_array / get_dask_array (clause "any
    chunking ... reads back identical" composed with the generator: theorem C07_generated_chunks_round_trip)."""
    shape = tuple(c['shape'])
    chunks = tuple(tuple(o) for o in out)
    dtype = np.dtype('<i4')
    x = np.arange(int(np.prod(shape)), dtype=dtype).reshape(shape)
    store, name, keys = be.new(kind, shape, dtype)
    sig = 'op=generate_chunks_roundtrip;backend=%s;' % kind
    try:
        with dask.config.set(**SYNC):
            res = store.put_dask_array(name, da.from_array(x, chunks=chunks)).compute()
            ok = all(r is None for r in res.ravel())
            back = np.asarray(store.get_dask_array(name, chunks, dtype, errors='raise').compute())
        if not ok:
            ctx.disagree(sig + 'symptom=put_failed', c, repr(res.ravel()[:4]), None, 'a block of the generated chunking was not stored')
        elif not same(back, x):
            ctx.disagree(sig + 'symptom=wrong_data', c, back.ravel()[:8].tolist(), None, 'array stored with the generated chunking reads back differently',
                         spec=x.ravel()[:8].tolist())
        if keys is not None and ok:
            nblocks = int(np.prod([len(o) for o in chunks]))
            if len([k for k in keys() if k.endswith('.npy')]) != nblocks:
                ctx.disagree(sig + 'symptom=object_count', c, len(keys()), nblocks, 'number of stored objects differs from the number of blocks')
    except Exception as e:
        ctx.disagree(sig + 'symptom=raised:%s' % type(e).__name__, c, repr(e)[:200], None, 'round trip with the generated chunking raised')
    be.done()
    ctx.traces_validated += 1
    ctx.count('gc_roundtrip:' + kind)


def run_gc_batch(ctx, cases, sample=False, be=None, roundtrips=0):
    outs = [gc_case(ctx, c, None) for c in cases]
    if be is not None:
        done = 0
        for c, o in zip(cases, outs):
            if done >= roundtrips:
                break
            if not isinstance(o, Exception) and 1 < int(np.prod(c['shape'])) <= 600 and len(o) == len(c['shape']) \
                    and all(sum(x) == n and x and min(x) > 0 for x, n in zip(o, c['shape'])) \
                    and 1 < int(np.prod([len(x) for x in o])) <= 64:
                gc_round_trip(ctx, be, c, o, ['dict', 'npy', 's3'][done % 3])
                done += 1
    wires = [gc_wire(c, [] if isinstance(o, Exception) else o) for c, o in zip(cases, outs)]
    mos = ctx.model([w[0] for w in wires])
    for c, o, w, mo in zip(cases, outs, wires, mos):
        gc_check(ctx, c, o, mo, w[1], w[2], w[3])
        split = not isinstance(o, Exception) and any(len(x) > 1 for x in o)
        ctx.note_case(('gc', repr(c)), nontrivial=split, sample=dict(op='generate_chunks', out=None if isinstance(o, Exception) else o, **c) if sample else None)
        ctx.count('generate_chunks')
        ctx.count('gc_split=%s' % split)
        if sample:
            for part in gc_flags(c, w[2], w[3], detail=True).split(';')[1:]:
                ctx.count('gc_' + part)


def run_gc_exhaustive(ctx):
    cases = []
    flagsets = []
    for pow2 in (False, True):
        for dims in (None, [0], [1], [2], [0, 1], [1, 0], [2, 0], [1, 2], [2, 1, 0], [-1], [0, -1], [-3, 2], [-2, 1, 0], [1, 3]):
            for mde in (None, [[0, 2]], [[1, 3], [2, 1]], [[0, 5], [1, 2], [2, 3]], [[-1, 2]], [[2, 3], [-1, 2], [-3, 4]]):
                flagsets.append((pow2, dims, mde))
    for a in range(1, 7):
        for b in range(1, 7):
            for c in range(1, 5):
                for m in range(1, 65):
                    for pow2, dims, mde in flagsets:
                        cases.append(dict(shape=[a, b, c], itemsize=1, mcs=[m, 1], dims=dims, pow2=pow2, mde=mde))
    for i in range(0, len(cases), 50000):
        run_gc_batch(ctx, cases[i:i + 50000])
    ctx.extra['generate_chunks_exhaustive'] = dict(shapes='1..6 x 1..6 x 1..4', budgets='1..64', flag_sets=len(flagsets), cases=len(cases))


# ---------------------------------------------------------------------------------------------------
# (f) bucket-name normalisation

def run_buckets(ctx, n):
    rng = ctx.rng
    paths = ['', '/', '/a_b', '/a_b/', '/a_b/c_d/00000_00001.npy', '//a_b/c_d', '/a-b/c_d', '/_/_', '/a_b//c_', '/a.b_c/x']
    for _ in range(n):
        k = rng.randint(0, 14)
        p = ''.join(rng.choice('ab_-/.0_') for _ in range(k))
        paths.append('/' + p if rng.random() < 0.9 or not p.startswith('/') else p)
    paths = [p for p in paths if p == '' or p.startswith('/')]
    mos = ctx.model([[7, [5, codes(p)]] for p in paths])
    base = 'http://127.0.0.1:9000'
    for p, mo in zip(paths, mos):
        u = _normalise_bucket_name(base + p)
        impl = u[len(base):] if u.startswith(base) else u
        model = destr(mo[0])
        if p.startswith('//'):
            # urlsplit reads '//x' after the authority as part of the path only in some versions: compare when consistent
            pass
        if impl != model:
            ctx.disagree('op=normalise_bucket;underscore_in_key=%s' % ('_' in p.lstrip('/').partition('/')[2]), dict(path=p), impl, model,
                         'normalised URL path differs from model (bucket underscores -> dashes, key untouched)')
        if mo[0] != mo[1] or mo[3] != mo[4]:
            ctx.disagree('op=normalise_bucket;symptom=model_law', dict(path=p), None, mo, 'model violates idempotence / key preservation', kind='tie')
        u2 = _normalise_bucket_name(u)
        if u2 != u:
            ctx.disagree('op=normalise_bucket;symptom=not_idempotent', dict(path=p), u2, u, 'normalisation is not idempotent')
        ctx.note_case(('bucket', p), nontrivial='_' in p.lstrip('/').split('/')[0])
        ctx.count('normalise_bucket')
        ctx.traces_validated += 1


# ---------------------------------------------------------------------------------------------------
# (g) memory layouts of the chunks handed to the store, the objects written, foreign (Fortran-ordered) objects

LAYOUTS = ['C', 'F', 'T', 'strided', 'neg', 'inner', 'perm', 'unaligned', 'readonly']
NAMED1 = {'npy': 'x', 'npyd': 'sub/x', 's3': 'b_k/x_y', 'dict': 'x'}


def make_layout(x, layout):
    """An ndarray with the logical content of x and the given memory layout."""
    x = np.asarray(x)
    if layout == 'C' or (x.ndim == 0 and layout not in ('unaligned', 'readonly')):
        return np.array(x, order='C')
    if layout == 'F':
        return np.asfortranarray(x)
    if layout == 'T':                       # transposed view of a C array
        return np.ascontiguousarray(x.T).T
    if layout == 'strided':                 # every second element of a larger array
        big = np.zeros(tuple(2 * n for n in x.shape), x.dtype)
        v = big[tuple(slice(None, None, 2) for _ in x.shape)]
        v[...] = x
        return v
    if layout == 'neg':                     # negative stride along the first axis
        return np.ascontiguousarray(x[::-1])[::-1]
    if layout == 'inner':                   # interior of a larger array
        big = np.zeros(tuple(n + 2 for n in x.shape), x.dtype)
        v = big[tuple(slice(1, n + 1) for n in x.shape)]
        v[...] = x
        return v
    if layout == 'perm':                    # axes rotated: neither C nor F order for ndim >= 3
        perm = tuple(range(1, x.ndim)) + (0,)
        return np.ascontiguousarray(x.transpose(perm)).transpose(tuple(np.argsort(perm).tolist()))
    if layout == 'unaligned':
        buf = np.zeros(x.nbytes + 1, np.uint8)
        v = np.ndarray(x.shape, x.dtype, buffer=buf, offset=1)
        v[...] = x
        return v
    if layout == 'readonly':
        y = np.array(x, order='C')
        y.setflags(write=False)
        return y
    raise ValueError(layout)


def sub(x, sl):
    """x[sl] as an ndarray (indexing a 0-d array with () gives a scalar that loses the byte order)."""
    return x[sl] if sl != () else x


def lay_class(a):
    return 0 if a.flags.c_contiguous else 1 if a.flags.f_contiguous else 2


def parse_npy(raw):
    fp = io.BytesIO(raw)
    ver = tuple(np.lib.format.read_magic(fp))
    rd = np.lib.format.read_array_header_1_0 if ver == (1, 0) else np.lib.format.read_array_header_2_0
    shape, fo, dt = rd(fp)
    return ver, tuple(shape), bool(fo), dt, raw[fp.tell():]


def block_slices(chunks):
    axes = [list(zip(np.cumsum((0,) + tuple(c)[:-1]).tolist(), np.cumsum(c).tolist())) for c in chunks]
    return [tuple(b) for b in itertools.product(*axes)]


def raw_object(be, kind, store, key, norm):
    """Bytes of the object with the model's key (None if absent)."""
    if kind == 's3':
        return be.s3.objects.get(norm[key])
    path = os.path.join(store.root, key)
    return open(path, 'rb').read() if os.path.isfile(path) else None


def model_names(ctx, items):
    """items: [(array_name, ((start, stop), ...))] -> object keys as the model names them (+ S3 paths)."""
    mos = ctx.model([[7, [1, codes(nm), [list(se) for se in sl], [[] for _ in sl], [], 0, 0]] for nm, sl in items])
    keys = [destr(mo[1]) + '.npy' for mo in mos]
    norm = {}
    uk = sorted(set(keys))
    for k, o in zip(uk, ctx.model([[7, [5, codes('/' + k)]] for k in uk])):
        norm[k] = destr(o[0])
    return keys, norm


def gen_layout_cases(ctx, n):
    rng = ctx.rng
    out = []
    for i in range(n):
        kind = ['npy', 's3', 'npyd', 'dict', 'npy', 's3'][i % 6]
        chunks = rand_chunks(rng, maxlen=5, allow0=False)
        if rng.random() < 0.7:
            while len(chunks) < 2:
                chunks = rand_chunks(rng, maxlen=5, allow0=False)
        if rng.random() < 0.35:       # whole axes in one chunk: the blocks inherit the contiguity of the array
            chunks = [[sum(c)] if rng.random() < 0.7 else c for c in chunks]
        out.append((kind, dict(dtype=dt_repr(rng.choice(DTYPES)), chunks=chunks, layout=rng.choice(LAYOUTS),
                               via=rng.choice(['dask', 'dask', 'daskT', 'chunk', 'chunk']))))
    return out


def run_layout_cases(ctx, be, cases):
    prep = []
    for kind, c in cases:
        dtype = np.dtype(dt_of(c['dtype']))
        chunks = [tuple(x) for x in c['chunks']]
        shape = tuple(sum(x) for x in chunks)
        x = conv(dtype, np.arange(int(np.prod(shape, dtype=int))).reshape(shape))
        bl = block_slices(chunks)
        sl = [tuple(slice(a, b) for a, b in b_) for b_ in bl]
        if c['via'] == 'chunk':
            blocks = [make_layout(sub(x, s), c['layout']) for s in sl]
        else:
            xl = make_layout(x, c['layout'])
            blocks = [sub(xl, s) for s in sl]
        prep.append((dtype, chunks, shape, x, bl, sl, blocks))
    name_items, wires = [], []
    for (kind, c), (dtype, chunks, shape, x, bl, sl, blocks) in zip(cases, prep):
        for b_, blk in zip(bl, blocks):
            name_items.append((NAMED1[kind], b_))
            wires.append([71, [1, list(blk.shape), lay_class(blk)]])
    keys, norm = model_names(ctx, name_items)
    mos = ctx.model(wires)
    k = 0
    for (kind, c), (dtype, chunks, shape, x, bl, sl, blocks) in zip(cases, prep):
        nb = len(bl)
        layout_case(ctx, be, kind, c, dtype, chunks, shape, x, bl, sl, blocks, keys[k:k + nb], norm, mos[k:k + nb])
        k += nb
        ctx.note_case(('lay', kind, repr(c)), nontrivial=c['layout'] != 'C' and len(shape) >= 2 and min(shape) >= 2,
                      sample=dict(op='layout', backend=kind, **c))
        ctx.count('layout:' + kind)
        ctx.count('layout=' + c['layout'])
        ctx.count('via=' + c['via'])


def layout_case(ctx, be, kind, c, dtype, chunks, shape, x, bl, sl, blocks, keys, norm, mos):
    nd = len(shape)
    sig = 'op=layout;backend=%s;layout=%s;' % (kind, c['layout'])
    store, name, _ = be.new(kind, shape, dtype, NAMED1[kind])
    with dask.config.set(**SYNC):
        try:
            if c['via'] == 'chunk':
                res = [store.put_chunk_noraise(name, s, blk) for s, blk in zip(sl, blocks)]
            elif c['via'] == 'daskT' and nd >= 1:
                xt = make_layout(np.array(x.T, order='C'), c['layout'])
                arr = da.from_array(xt, chunks=tuple(chunks[::-1])).T
                res = np.asarray(store.put_dask_array(name, arr).compute(), dtype=object).ravel().tolist()
            else:
                arr = da.from_array(make_layout(x, c['layout']), chunks=tuple(chunks))
                res = np.asarray(store.put_dask_array(name, arr).compute(), dtype=object).ravel().tolist()
            bad = [r for r in res if r is not None]
        except Exception as e:
            bad = [e]
        ctx.traces_validated += 1
        if bad:
            ctx.disagree(sig + 'symptom=put_failed:%s' % type(bad[0]).__name__, c, repr(bad[0])[:200], 0,
                         'storing a chunk with this memory layout failed (model: every put succeeds)')
            be.done()
            return
        n0 = len(ctx.disagreements)
        # read back: chunk by chunk and as a lazy array
        try:
            got = [np.asarray(store.get_chunk(name, s, dtype)) for s in sl]
            whole = np.asarray(store.get_dask_array(name, tuple(chunks), dtype, errors='raise').compute())
        except Exception as e:
            ctx.disagree(sig + 'symptom=get_raised:%s' % type(e).__name__, c, repr(e)[:200], 'data',
                         'reading back raised where the round trip must succeed')
            be.done()
            return
    for s, g in zip(sl, got):
        if not same(g, sub(x, s)):
            ctx.disagree(sig + 'symptom=wrong_chunk', c, g.ravel()[:8].tolist(), None,
                         'chunk read back differs from the chunk written (element order, dtype or shape)',
                         spec=sub(x, s).ravel()[:8].tolist())
            break
    if len(ctx.disagreements) == n0 and not same(whole, x):
        ctx.disagree(sig + 'symptom=wrong_data', c, whole.ravel()[:8].tolist(), None,
                     'array read back differs from the array written', spec=x.ravel()[:8].tolist())
    if len(ctx.disagreements) == n0:
        # the objects written: header says C order and the body lists the logical elements in C order (model)
        if kind != 'dict':
            for b_, s, key, mo in zip(bl, sl, keys, mos):
                raw = raw_object(be, kind, store, key, norm)
                if raw is None:
                    ctx.disagree(sig + 'symptom=object_missing', c, None, key, 'no object under the chunk name of a block')
                    break
                try:
                    ver, oshape, fo, odt, body = parse_npy(raw)
                except Exception as e:
                    ctx.disagree(sig + 'symptom=object_unreadable', c, repr(e)[:200], key, 'stored object is not a valid .npy file')
                    break
                (mfo, mshape, mbody), mdec = mo
                want = np.array(sub(x, s), order='C').reshape(-1)[np.array(mbody, dtype=np.int64)] if mbody else np.zeros(0, dtype)
                if (bool(fo), list(oshape), odt) != (bool(mfo), mshape, dtype):
                    ctx.disagree(sig + 'symptom=object_header', c, [bool(fo), list(oshape), str(odt)], [bool(mfo), mshape, str(dtype)],
                                 'header of the stored .npy object differs from the model (fortran_order, shape, dtype)', kind='tie')
                    break
                if body != want.tobytes():
                    ctx.disagree(sig + 'symptom=object_body', c, list(body[:16]), list(want.tobytes()[:16]),
                                 'body of the stored .npy object is not the C-order listing of the chunk', kind='tie')
                    break
                if mdec != list(range(len(mdec))):
                    ctx.disagree(sig + 'symptom=model_decode', c, None, mdec, 'model: decode(encode) is not the identity', kind='tie')
    be.done()


def gen_foreign_cases(ctx, n):
    rng = ctx.rng
    out = []
    for i in range(n):
        kind = ['npy', 's3'][i % 2]
        nd = rng.choice([0, 1, 2, 2, 2, 3])
        shape = [rng.randint(1, 4) for _ in range(nd)]
        start = [rng.choice([0, 0, 3, 100000]) for _ in range(nd)]
        out.append((kind, dict(dtype=dt_repr(rng.choice(DTYPES)), shape=shape, start=start, fortran=rng.random() < 0.7,
                               version=rng.choice([1, 1, 2]))))
    return out


def run_foreign_cases(ctx, be, cases):
    """Objects written by another .npy writer (np.lib.format.write_array, C or Fortran order, format 1.0 / 2.0) under
    the model's object key must read back element for element."""
    items = [(NAMED1[kind], [(a, a + n) for a, n in zip(c['start'], c['shape'])]) for kind, c in cases]
    keys, norm = model_names(ctx, items)
    mos = ctx.model([[71, [2, c['shape'], c['fortran']]] for _, c in cases])
    for (kind, c), key, mo in zip(cases, keys, mos):
        dtype = np.dtype(dt_of(c['dtype']))
        shape = tuple(c['shape'])
        x = conv(dtype, np.arange(int(np.prod(shape, dtype=int))).reshape(shape))
        sig = 'op=foreign;backend=%s;fortran=%d;version=%d;ndim=%d;' % (kind, c['fortran'], c['version'], len(shape))
        fp = io.BytesIO()
        np.lib.format.write_array(fp, np.asarray(x, order='F' if c['fortran'] else 'C'),
                                  version=(c['version'], 0), allow_pickle=False)
        raw = fp.getvalue()
        (mfo, mshape, mbody), mdec = mo
        ver, oshape, fo, odt, body = parse_npy(raw)
        want = x.reshape(-1)[np.array(mbody, dtype=np.int64)]
        # numpy only sets fortran_order for arrays that are F- but not C-contiguous
        if fo and (list(oshape) != mshape or body != want.tobytes() or not mfo):
            ctx.disagree(sig + 'symptom=model_foreign_object', c, list(body[:16]), mbody, "numpy's Fortran-ordered object differs from the model's", kind='tie')
        if mdec != list(range(len(mdec))):
            ctx.disagree(sig + 'symptom=model_decode', c, None, mdec, 'model: decoding the foreign object is not the identity', kind='tie')
        store, name, _ = be.new(kind, shape, dtype, NAMED1[kind])
        if kind == 's3':
            be.s3.objects[norm[key]] = raw
        else:
            path = os.path.join(store.root, key)
            os.makedirs(os.path.dirname(path), exist_ok=True)
            with open(path, 'wb') as f:
                f.write(raw)
        sl = tuple(slice(a, a + n) for a, n in zip(c['start'], shape))
        try:
            with dask.config.set(**SYNC):
                g = np.asarray(store.get_chunk(name, sl, dtype))
                w = np.asarray(store.get_dask_array(name, tuple((n,) for n in shape), dtype, offset=tuple(c['start']),
                                                    errors='raise').compute())
        except Exception as e:
            ctx.disagree(sig + 'symptom=get_raised:%s' % type(e).__name__, c, repr(e)[:200], 'data',
                         'reading a valid .npy object raised')
            g = w = None
        if g is not None and not (same(g, x) and same(w, x)):
            ctx.disagree(sig + 'symptom=wrong_data', c, g.ravel()[:8].tolist(), None,
                         'chunk decoded from a valid .npy object differs from its content', spec=x.ravel()[:8].tolist())
        be.done()
        ctx.traces_validated += 1
        ctx.note_case(('foreign', kind, repr(c)), nontrivial=bool(fo), sample=dict(op='foreign', backend=kind, **c))
        ctx.count('foreign:' + kind)
        ctx.count('foreign_fortran=%s' % bool(fo))


# ---------------------------------------------------------------------------------------------------
# (k) the BYTES of the .npy object: every object-free dtype kind, 0-3 dims (zero-size axes too), 9 memory layouts, through
# put_chunk / get_chunk on NPY (both write paths) and S3; the stored bytes against the byte-level model (wire_75), files
# of other writers (numpy's write_array 1.0 / 2.0 in either order, and the MODEL's writer with arbitrary padding) read by
# katdal's readers, truncated files

NPYF_DTYPES = ['u1', 'i1', '<i2', '>i2', '<i4', '>i4', '<i8', '>u8', '<u2', '>u4', '<f2', '>f2', '<f4', '>f4', '<f8', '>f8',
               '?', '<c8', '>c8', '<c16', '>c16', 'S1', 'S3', 'S7', 'V2', 'V5', '<U1', '<U2', '>U3', '<M8[s]', '>M8[ns]',
               '<m8[us]', [('a', '<u2'), ('b', '>f4')], [('re', 'i1'), ('f', '?'), ('t', 'S2')],
               [('p', '<f8', (2,)), ('q', [('x', '>i2'), ('y', '<c8')])], [('u', '<U2'), ('d', '<M8[s]')]]
NPYF_MODEL_KINDS = 'biufcSV'


def npyf_values(dtype, shape):
    """Array of `dtype` whose elements all differ (as far as the dtype allows): raw bytes derived from the element number."""
    dt = np.dtype(dtype)
    n = int(np.prod(shape, dtype=int))
    if dt.names is None and dt.kind in 'biufcSU':
        return conv(dt, np.arange(n).reshape(shape))
    if dt.names is None and dt.kind in 'Mm':
        return (np.arange(n, dtype=np.int64) * 1000003 + 17).view(dt.newbyteorder('=')).astype(dt).reshape(shape)
    if dt.names is None and dt.kind == 'V':
        raw = np.array([[(7 * k + 3 * j + 1) % 256 for j in range(dt.itemsize)] for k in range(n)], np.uint8).reshape(n, dt.itemsize)
        return raw.view(dt).reshape(shape) if n else np.zeros(shape, dt)
    out = np.zeros(shape, dt)
    for k, f in enumerate(dt.names):
        sub_dt, sub_shape = (dt[f].subdtype if dt[f].subdtype else (dt[f], ()))
        out[f] = npyf_values(sub_dt, tuple(shape) + tuple(sub_shape)) if n else out[f]
    return out


def npyf_descr(dt):
    """The model's descriptor of a dtype, or None when the dtype is outside Model/ChunksNpy.v."""
    d = np.lib.format.dtype_to_descr(dt)
    if isinstance(d, str) and len(d) >= 3 and d[0] in '<>|' and d[1] in NPYF_MODEL_KINDS and d[2:].isdigit() and int(d[2:]) == dt.itemsize:
        return d
    return None


def npyf_items(x):
    """Bytes of the elements of x in C order of the logical elements."""
    b = np.ascontiguousarray(x).tobytes()
    isz = x.dtype.itemsize
    return [list(b[i * isz:(i + 1) * isz]) for i in range(x.size)]


def gen_npyfile_cases(ctx, n):
    rng = ctx.rng
    out = []
    for i in range(n):
        kind = ['npy', 's3', 'npyd'][i % 3]
        nd = rng.choice([0, 1, 1, 2, 2, 2, 3])
        shape = [rng.choice([0, 1, 1, 2, 2, 3, 3, 4, 5]) if rng.random() < 0.9 else rng.choice([10, 11, 100, 1000, 99999])
                 for _ in range(nd)]
        while int(np.prod(shape, dtype=int)) > 4000:
            shape[shape.index(max(shape))] = rng.randint(1, 3)
        r = rng.random()
        mode = 'put' if r < 0.55 else 'numpy_writer' if r < 0.75 else 'model_writer' if r < 0.9 else 'truncated'
        c = dict(dtype=dt_repr(NPYF_DTYPES[(i // 3 + rng.randint(0, 1) * rng.randint(0, len(NPYF_DTYPES))) % len(NPYF_DTYPES)]),
                 shape=shape, start=[rng.choice([0, 0, 3, 100000]) for _ in range(nd)], mode=mode,
                 layout=rng.choice(LAYOUTS), fortran=rng.random() < 0.6, version=rng.choice([1, 1, 2, 3]),
                 pad=rng.choice([0, 1, 5, 15, 16, 63, 64, 65, 200]), cut=rng.random())
        out.append((kind, c))
    return out


def run_npyfile_cases(ctx, be, cases):
    items = [(NAMED1[kind], [(a, a + n) for a, n in zip(c['start'], c['shape'])]) for kind, c in cases]
    keys, norm = model_names(ctx, items)
    for (kind, c), key in zip(cases, keys):
        npyfile_case(ctx, be, kind, c, key, norm)


def _plant(be, kind, store, key, norm, raw):
    if kind == 's3':
        be.s3.objects[norm[key]] = raw
    else:
        path = os.path.join(store.root, key)
        os.makedirs(os.path.dirname(path), exist_ok=True)
        with open(path, 'wb') as f:
            f.write(raw)


def npyfile_case(ctx, be, kind, c, key, norm):
    dtype = np.dtype(dt_of(c['dtype']))
    shape = tuple(c['shape'])
    x = npyf_values(dtype, shape)
    descr = npyf_descr(dtype)
    mode = c['mode']
    dk = 'structured' if dtype.names else dtype.kind + ('be' if dtype.byteorder == '>' else '')
    sig = 'op=npyfile;backend=%s;mode=%s;dtype=%s;ndim=%d;' % (kind, mode, dk, len(shape))
    sl = tuple(slice(a, a + n) for a, n in zip(c['start'], shape))
    store, name, _ = be.new(kind, shape, dtype, NAMED1[kind])
    s3 = kind == 's3'
    ctx.count('npyfile:' + kind)
    ctx.count('npyfile_mode=' + mode)
    ctx.count('npyfile_dtype=' + dk)
    ctx.count('npyfile_model=%s' % (descr is not None))
    ctx.note_case(('npyfile', kind, repr(c)), nontrivial=x.size > 1, sample=dict(op='npyfile', backend=kind, **c))
    ctx.traces_validated += 1
    try:
        if mode == 'put':
            chunk = make_layout(x, c['layout'])
            try:
                store.put_chunk(name, sl, chunk)
                g = np.asarray(store.get_chunk(name, sl, dtype))
            except Exception as e:
                ctx.disagree(sig + 'symptom=raised:%s' % type(e).__name__, c, repr(e)[:200], 'chunk', 'put_chunk / get_chunk of a valid chunk raised')
                return
            if not same(g, x):
                ctx.disagree(sig + 'symptom=wrong_chunk', c, g.ravel()[:6].tolist() if not dtype.names else repr(g.ravel()[:3]), None,
                             'chunk read back differs from the chunk written (bytes, dtype or shape)', spec=repr(x.ravel()[:3]))
                return
            raw = raw_object(be, kind, store, key, norm)
            if raw is None:
                ctx.disagree(sig + 'symptom=object_missing', c, None, key, 'no object under the chunk name')
                return
            # property on the stored bytes, for EVERY dtype: a valid version-1.0 .npy file that numpy itself reads back
            try:
                ver, oshape, fo, odt, body = parse_npy(raw)
                back = np.load(io.BytesIO(raw), allow_pickle=False)
            except Exception as e:
                ctx.disagree(sig + 'symptom=object_unreadable', c, repr(e)[:200], key, 'stored object is not a valid .npy file')
                return
            off = len(raw) - len(body)
            if not same(back, x):
                ctx.disagree(sig + 'symptom=object_content', c, repr(back.ravel()[:3]), None,
                             'numpy reads the stored .npy object as something else than the chunk written', spec=repr(x.ravel()[:3]))
                return
            # tie (every dtype): the model writes format 1.0, fortran_order False, the C-order listing of the logical elements
            if (ver, oshape, fo, odt) != ((1, 0), shape, False, dtype) or body != np.ascontiguousarray(x).tobytes():
                ctx.disagree(sig + 'symptom=object_header', c, [list(ver), list(oshape), fo, str(odt)], [[1, 0], list(shape), False, str(dtype)],
                             'stored .npy object: version / shape / order / dtype / body differ from the model object', kind='tie')
                return
            if off % 64 != 0 or raw[off - 1:off] != b'\n':
                ctx.disagree(sig + 'symptom=header_alignment', c, off, 'multiple of 64', 'the body of the stored object does not start on a 64-byte boundary (model: it does)', kind='tie')
                return
            if descr is not None:
                its = npyf_items(x)
                mo = ctx.model([[75, [1, codes(descr), 0, list(shape), its]], [75, [3, list(raw)]], [75, [4, 2, codes(descr), 0, list(shape)]]])
                if bytes(mo[0]) != raw:
                    k = next((i for i, (a, b) in enumerate(zip(bytes(mo[0]), raw)) if a != b), min(len(mo[0]), len(raw)))
                    ctx.disagree(sig + 'symptom=file_bytes', c, list(raw[max(0, k - 4):k + 8]), mo[0][max(0, k - 4):k + 8],
                                 'bytes of the stored object differ from the model file at offset %d (lengths %d / %d)' % (k, len(raw), len(mo[0])), kind='tie')
                    return
                want = [0, codes(descr), 0, list(shape), its]
                if mo[1][0] != want or mo[1][1] != want:
                    ctx.disagree(sig + 'symptom=model_decode', c, None, [m[:4] for m in mo[1]], 'model readers do not decode the stored object to the chunk', kind='tie')
                    return
                if mo[2][1] != off:
                    ctx.disagree(sig + 'symptom=model_offset', c, off, mo[2], 'body offset differs from the model', kind='tie')
            return
        # files of other writers planted under the model's key
        xo = np.asarray(x, order='F' if c['fortran'] else 'C')
        fo_real = bool(xo.flags.f_contiguous and not xo.flags.c_contiguous)
        if mode == 'model_writer':
            if descr is None:
                mode_raw = None
            else:
                major = c['version']
                body_items = npyf_items(xo.T if fo_real else xo)       # Fortran order: first index fastest
                mode_raw = bytes(ctx.model([[75, [2, major, 2 if major == 1 else 4, c['pad'], codes(descr), int(fo_real), list(shape), body_items]]])[0])
            if mode_raw is None:
                fp = io.BytesIO()
                np.lib.format.write_array(fp, xo, version=(1, 0), allow_pickle=False)
                mode_raw, major = fp.getvalue(), 1
        else:
            major = 2 if c['version'] == 2 else 1
            fp = io.BytesIO()
            np.lib.format.write_array(fp, xo, version=(major, 0), allow_pickle=False)
            mode_raw = fp.getvalue()
        raw = mode_raw
        if mode == 'truncated':
            raw = raw[:int(c['cut'] * len(raw))]
        _plant(be, kind, store, key, norm, raw)
        readable = mode != 'truncated' and (major in (1, 2) or not s3)
        try:
            g = np.asarray(store.get_chunk(name, sl, dtype))
            err = None
        except Exception as e:
            g, err = None, e
        if descr is not None:
            mo = ctx.model([[75, [3, list(raw)]]])[0][1 if s3 else 0]
            its = npyf_items(xo.T if fo_real else xo)
            mwant = [0, codes(descr), int(fo_real), list(shape), its]
            if readable and mo != mwant:
                ctx.disagree(sig + 'symptom=model_decode', c, None, mo[:4], "model reader does not decode another writer's object", kind='tie')
                return
            if (mo[0] == 0) != (g is not None):
                ctx.disagree(sig + 'symptom=reader_differs_from_model;version=%d' % major, c, repr(err)[:160] if err else 'data', mo[:1],
                             'katdal reads / rejects an object that the model rejects / reads', kind='tie')
                return
        if g is not None and not same(g, x):
            ctx.disagree(sig + 'symptom=wrong_chunk;fortran=%d;version=%d' % (fo_real, major), c, repr(g.ravel()[:3]), None,
                         'chunk decoded from a .npy object differs from its content' if readable else 'a truncated object was returned as data',
                         spec=repr(x.ravel()[:3]))
        elif g is None and readable:
            ctx.disagree(sig + 'symptom=get_raised:%s;fortran=%d;version=%d' % (type(err).__name__, fo_real, major), c, repr(err)[:200], 'chunk',
                         'reading a valid .npy object raised')
        elif g is None and not isinstance(err, ChunkStoreError):
            ctx.disagree(sig + 'symptom=raw_exception:%s' % type(err).__name__, c, repr(err)[:200], 'ChunkStoreError',
                         'an unreadable object escaped get_chunk as a raw exception')
    finally:
        be.done()


# ---------------------------------------------------------------------------------------------------
# (h) arrays written in several parts / to several stores by ONE dask compute call, read by one compute call

MNAMES = {'dict': ['x', 'y'], 'npy': ['x', 'sub/y'], 's3': ['b_k/x_y', 'b_k/z']}
STORESETS = [['dict'], ['npy'], ['s3'], ['npy', 'npy'], ['dict', 'dict'], ['npy', 's3'], ['s3', 'dict'], ['dict', 'npy']]


def multi_parts(big, cuts):
    """[(offset, part_chunks)] of the parts: per axis the chunk list is cut into consecutive groups."""
    axes = []
    for cs, cut in zip(big, cuts):
        groups, k, start = [], 0, 0
        for n in cut:
            g = cs[k:k + n]
            groups.append((start, list(g)))
            start += sum(g)
            k += n
        axes.append(groups)
    return [([g[0] for g in p], [g[1] for g in p]) for p in itertools.product(*axes)]


def gen_multi_cases(ctx, n):
    rng = ctx.rng
    out = []
    for i in range(n):
        nd = rng.choice([0, 1, 1, 2, 2, 2, 3])
        big, cuts = [], []
        for _ in range(nd):
            if rng.random() < 0.65:     # repeated pattern: the parts get identical chunk layouts
                pat = [rng.randint(1, 3) for _ in range(rng.randint(1, 2))]
                reps = rng.randint(1, 3 if nd < 3 else 2)
                big.append(pat * reps)
                cuts.append([len(pat)] * reps)
            else:
                cs = rand_chunks(rng, maxlen=5, allow0=False)
                while len(cs) < 1:
                    cs = rand_chunks(rng, maxlen=5, allow0=False)
                cs = cs[0]
                cut = []
                k = len(cs)
                while k > 0:
                    c = rng.randint(1, k)
                    cut.append(c)
                    k -= c
                big.append(cs)
                cuts.append(cut)
        stores = rng.choice(STORESETS)
        pairs = [(s, m) for s in range(len(stores)) for m in (0, 1)]
        rng.shuffle(pairs)
        pairs = sorted(pairs[:rng.randint(1, min(3, len(pairs)))])
        # data id: combinations may mirror the same source arrays (same dask arrays put twice)
        combos = []
        for s, m in pairs:
            combos.append([s, m, rng.choice([c[2] for c in combos]) if combos and rng.random() < 0.4 else len(combos)])
        index = []
        if nd:      # non-empty selections only (empty ones: finding C07-F3, see index_case)
            for _ in range(20):
                index = rand_index(rng, [sum(c) for c in big])
                if 0 not in np.empty([sum(c) for c in big], dtype=[])[tuple(slice(a, b) for a, b in index)].shape:
                    break
            else:
                index = []
        out.append(dict(dtype=dt_repr(rng.choice(DTYPES)), big=big, cuts=cuts, stores=stores, combos=combos,
                        index=index, errors=rng.choice(['raise', 0]), sched=rng.choice(['synchronous'] * 3 + ['threads'])))
    return out


def run_multi_cases(ctx, be, cases):
    wires, metas = [], []
    for c in cases:
        parts = multi_parts(c['big'], c['cuts'])
        puts, gets, meaning = [], [], []
        for ci, (s, m, did) in enumerate(c['combos']):
            nm = MNAMES[c['stores'][s]][m]
            for pi, (off, pch) in enumerate(parts):
                # labels of the part: base + C-order position inside the PART is not what we want: the source array
                # is a slice of the big array, so the model gets the part as its own array with labels
                # did * 100000 + pi * 1000 + position-in-part and the harness maps them back
                puts.append([s, codes(nm), 7, did * 100 + pi, pch, off, did * 100000 + pi * 1000])
        for ci, (s, m, did) in enumerate(c['combos']):
            nm = MNAMES[c['stores'][s]][m]
            gets.append([s, codes(nm), 7, c['big'], [], []])
            meaning.append(('whole', ci, None))
            for pi, (off, pch) in enumerate(parts):
                # the part at the origin is read without an offset, like the whole array (same name, other chunking)
                gets.append([s, codes(nm), 7, pch, off if any(off) else [], []])
                meaning.append(('part', ci, pi))
            if c['index'] and ci == 0:
                gets.append([s, codes(nm), 7, c['big'], [], [[[] if a is None else [a], [] if b is None else [b]] for a, b in c['index']]])
                meaning.append(('index', ci, None))
        wires.append([72, [len(c['stores']), puts, gets, c['errors'] != 'raise']])
        metas.append((parts, meaning))
    mos = ctx.model(wires)
    for c, (parts, meaning), mo in zip(cases, metas, mos):
        multi_case(ctx, be, c, parts, meaning, mo)
        same_layout = len({repr(p[1]) for p in parts}) < len(parts)
        ctx.note_case(('multi', repr(c)), nontrivial=len(parts) * len(c['combos']) >= 2,
                      sample=dict(op='multi', **c))
        ctx.count('multi:stores=' + '+'.join(c['stores']))
        ctx.count('multi:parts=%s' % ('single' if len(parts) == 1 else 'equal_layout' if same_layout else 'distinct_layout'))
        ctx.count('multi:combos=%d' % len(c['combos']))


def multi_case(ctx, be, c, parts, meaning, mo):
    dtype = np.dtype(dt_of(c['dtype']))
    big = [tuple(x) for x in c['big']]
    shape = tuple(sum(x) for x in big)
    nd = len(shape)
    same_layout = len({repr(p[1]) for p in parts}) < len(parts)
    sig = 'op=multi;nstores=%d;parts=%s;' % (
        len({cb[0] for cb in c['combos']}),
        'single' if len(parts) == 1 else 'equal_layout' if same_layout else 'distinct_layout')
    npos = int(np.prod(shape, dtype=int))
    # labels as the model numbers them: did * 100000 + pi * 1000 + C-order position inside the part
    lab = {}
    for did in sorted({cb[2] for cb in c['combos']}):
        L = np.zeros(shape, np.int64)
        for pi, (off, pch) in enumerate(parts):
            psh = tuple(sum(x) for x in pch)
            sl = tuple(slice(o, o + n) for o, n in zip(off, psh))
            L[sl] = did * 100000 + pi * 1000 + np.arange(int(np.prod(psh, dtype=int))).reshape(psh)
        lab[did] = L
    data = {did: conv(dtype, L) for did, L in lab.items()}
    stores, keyfns = [], []
    for kind in c['stores']:
        if kind == 'dict':
            stores.append(c07stores.RecDict(**{n: np.zeros(shape, dtype) for n in MNAMES['dict']}))
            keyfns.append(None)
        else:
            st, _, keys = be.new(kind, shape, dtype, MNAMES[kind][0])
            st.create_array(MNAMES[kind][1])
            stores.append(st)
            keyfns.append(keys)
    srcs = {}
    puts = []
    for s, m, did in c['combos']:
        nm = MNAMES[c['stores'][s]][m]
        for pi, (off, pch) in enumerate(parts):
            if (did, pi) not in srcs:
                psh = tuple(sum(x) for x in pch)
                sl = tuple(slice(o, o + n) for o, n in zip(off, psh))
                srcs[did, pi] = da.from_array(np.array(sub(data[did], sl), order='C'), chunks=tuple(tuple(x) for x in pch))
            puts.append(stores[s].put_dask_array(nm, srcs[did, pi], tuple(off)))
    try:
        res = dask.compute(*puts, scheduler=c['sched'])
        bad = [r for out in res for r in np.asarray(out, dtype=object).ravel().tolist() if r is not None]
        shapes_ok = all(np.asarray(out, dtype=object).shape == p.numblocks for out, p in zip(res, puts))
    except Exception as e:
        bad, shapes_ok = [e], True
    ctx.traces_validated += 1
    if bad or not shapes_ok:
        ctx.disagree(sig + 'symptom=put_failed:%s' % (type(bad[0]).__name__ if bad else 'result_shape'), c,
                     repr(bad[0])[:200] if bad else 'shape', 0, 'putting the parts in one compute call failed')
        be.done()
        return
    # objects created
    for si, (kind, kf) in enumerate(zip(c['stores'], keyfns)):
        if kf is None:
            continue
        impl_keys = kf()
        mkeys = sorted(destr(k) for k in mo[0][si])
        if kind == 's3':
            nk = ctx.model([[7, [5, codes('/' + k)]] for k in mkeys])
            mkeys = sorted(destr(o[0]) for o in nk)
        if impl_keys != mkeys:
            miss = [k for k in mkeys if k not in impl_keys]
            ctx.disagree(sig + 'symptom=object_keys', c, impl_keys[:8], mkeys[:8],
                         'objects in the store differ from the chunk names of all parts (missing: %r)' % (miss[:4],))
            break
    # reads, again in one compute call
    gets, exps = [], []
    for (what, ci, pi), mres in zip(meaning, mo[1]):
        s, m, did = c['combos'][ci]
        nm = MNAMES[c['stores'][s]][m]
        if what == 'whole':
            gets.append(stores[s].get_dask_array(nm, tuple(big), dtype, errors=c['errors']))
            exps.append(data[did])
        elif what == 'part':
            off, pch = parts[pi]
            psh = tuple(sum(x) for x in pch)
            gets.append(stores[s].get_dask_array(nm, tuple(tuple(x) for x in pch), dtype,
                                                 offset=tuple(off) if any(off) else (), errors=c['errors']))
            exps.append(sub(data[did], tuple(slice(o, o + n) for o, n in zip(off, psh))))
        else:
            index = tuple(slice(a, b) for a, b in c['index'])
            gets.append(stores[s].get_dask_array(nm, tuple(big), dtype, index=index, errors=c['errors']))
            exps.append(sub(data[did], index))
    try:
        outs = [np.asarray(o) for o in dask.compute(*gets, scheduler=c['sched'])]
    except Exception as e:
        outs = e
    be.done()
    if mo[1] != mo[2]:
        ctx.disagree(sig + 'symptom=model_law', c, None, [mo[1], mo[2]], 'model: gets in one compute differ from gets one by one', kind='tie')
    if isinstance(outs, Exception):
        ctx.disagree(sig + 'symptom=get_raised:%s' % type(outs).__name__, c, repr(outs)[:200], 'data',
                     'reading the parts back in one compute call raised')
        return
    for (what, ci, pi), o, e, mres in zip(meaning, outs, exps, mo[1]):
        if not same(o, e):
            ctx.disagree(sig + 'read=%s;symptom=wrong_data' % what, c, o.ravel()[:8].tolist(), None,
                         'data read back (%s of combination %d%s) differ from the data written'
                         % (what, ci, '' if pi is None else ', part %d' % pi), spec=e.ravel()[:8].tolist())
            break
        if 0 in e.shape and what == 'index':
            continue        # empty selections: the model of _prune_chunks is not compared (see index_case)
        if mres[0] != 0 or len(mres[1]) != e.size or \
                not same(conv(dtype, np.array(mres[1], dtype=np.int64).reshape(e.shape)), e):
            ctx.disagree(sig + 'read=%s;symptom=model_differs' % what, c, o.ravel()[:8].tolist(), mres, 'model result differs', kind='tie')
            break


# ---------------------------------------------------------------------------------------------------
# (i) reads that do not match what is stored: another dtype, another chunk grid over the same array, chunks that were
#     never written -- errors=<number> may replace MISSING chunks only, never a chunk that is there but does not fit

DT_PAIRS = [('<i4', '<f4'), ('<i4', '>i4'), ('u1', '?'), ('<f8', '<c8'), ('<u2', '<i2'), ('>f8', '<f8'), ('S3', 'S2')]


def gen_mismatch_cases(ctx, n):
    rng = ctx.rng
    out = []
    for i in range(n):
        kind = ['npy', 's3'][i % 2]
        chunks = rand_chunks(rng, allow0=False)
        while not chunks:
            chunks = rand_chunks(rng, allow0=False)
        variant = rng.choice(['dtype', 'regrid', 'split', 'missing', 'none'])
        dput, dget = rng.choice(DT_PAIRS) if variant == 'dtype' else (rng.choice(['<i4', '>f8', 'u1', '<c8']),) * 2
        cput, cget, part = [list(c) for c in chunks], [list(c) for c in chunks], None
        ax = rng.randrange(len(chunks))
        if variant == 'regrid':
            if len(cget[ax]) < 2:
                variant = 'none'
            else:
                k = rng.randrange(len(cget[ax]) - 1)
                cget[ax][k:k + 2] = [cget[ax][k] + cget[ax][k + 1]]
        elif variant == 'split':
            big = [k for k, v in enumerate(cget[ax]) if v >= 2]
            if not big:
                variant = 'none'
            else:
                k = rng.choice(big)
                a = rng.randint(1, cget[ax][k] - 1)
                cget[ax][k:k + 1] = [a, cget[ax][k] - a]
        elif variant == 'missing':
            if len(cput[ax]) < 2:
                variant = 'none'
            else:
                part = [ax, rng.randint(1, len(cput[ax]) - 1)]      # only the first chunks of this axis are written
                cput[ax] = cput[ax][:part[1]]
        out.append((kind, dict(variant=variant, dput=dput, dget=dget, cput=cput, cget=cget, errors=rng.choice([0, 0, 'raise']))))
    return out


def run_mismatch_cases(ctx, be, cases):
    nm = {'npy': 'x', 's3': 'b_k/x_y'}
    mc = []
    for kind, c in cases:
        mc.append([72, [1, [[0, codes(nm[kind]), 7, 1, c['cput'], [], 0]],
                        [[0, codes(nm[kind]), 7 if c['dput'] == c['dget'] else 8, c['cget'], [], []]], c['errors'] != 'raise']])
    mos = ctx.model(mc)
    for (kind, c), mo in zip(cases, mos):
        mres = mo[2][0]
        dput, dget = np.dtype(c['dput']), np.dtype(c['dget'])
        pshape = tuple(sum(x) for x in c['cput'])
        gshape = tuple(sum(x) for x in c['cget'])
        # the model labels what is written by its own raveling (the written part, for variant 'missing')
        plabels = np.arange(int(np.prod(pshape))).reshape(pshape)
        xput = conv(dput, plabels)
        sig = 'op=mismatch;backend=%s;variant=%s;errors=%s;' % (kind, c['variant'], 'raise' if c['errors'] == 'raise' else 'default')
        store, name, keys = be.new(kind, gshape, dput, nm[kind])
        with dask.config.set(**SYNC):
            try:
                store.put_dask_array(name, da.from_array(xput, chunks=tuple(tuple(x) for x in c['cput']))).compute()
                out = np.asarray(store.get_dask_array(name, tuple(tuple(x) for x in c['cget']), dget, errors=c['errors']).compute())
            except Exception as e:
                out = e
        be.done()
        if mres[0] == 0:
            exp = conv(dget, np.array(mres[1], dtype=np.int64).reshape(gshape))
            if isinstance(out, Exception):
                ctx.disagree(sig + 'symptom=raised:%s' % type(out).__name__, c, repr(out)[:200], mres[1][:8], 'read raised, the model has data')
            elif not same(out, exp):
                ctx.disagree(sig + 'symptom=wrong_data', c, out.ravel()[:8].tolist(), exp.ravel()[:8].tolist(),
                             'data differ from the model (stored elements, default value only where a chunk is missing)')
        elif not isinstance(out, Exception):
            ctx.disagree(sig + 'symptom=data_instead_of_error', c, out.ravel()[:8].tolist(), mres,
                         'a stored chunk that does not fit the request (dtype / shape) was answered with data instead of BadChunk')
        elif c['errors'] != 'raise' and err_code(out) != mres[0]:
            ctx.disagree(sig + 'symptom=error_class', c, repr(out)[:120], mres, 'error class differs from the model', kind='tie')
        ctx.traces_validated += 1
        ctx.note_case(('mm', kind, repr(c)), nontrivial=c['variant'] != 'none', sample=dict(op='mismatch', backend=kind, **c))
        ctx.count('mismatch:' + c['variant'])


# ---------------------------------------------------------------------------------------------------
# (j) naming: several arrays with near-colliding names in ONE store

NM_DTYPES = ['<i4', '>f8', '<c8', '>u2', '<i2', [('a', '<u2'), ('b', '>f4')]]
NM_FAMILIES = [
    ['w_c', 'w-c', 'w_c_', 'w-c-', 'wc', 'w', 'w__c', 'w_-c'],
    ['sdp_l0/vis', 'sdp-l0/vis', 'sdp_l0/vis_2', 'sdp-l0/vis-2', 'sdp_l0', 'sdp-l0', 'sdp_l0/v', 'sdp_l0/vis/x'],
    ['a/b', 'a/b/c', 'a', 'ab', 'a_b', 'a-b', 'a/bc', 'a/b_c', 'a/b-c'],
    ['a_b/c_d', 'a-b/c_d', 'a_b/c-d', 'a-b/c-d', 'a_b/c', 'a-b/c', 'a_b', 'a-b'],
    ['x/00000', 'x/00000_00000', 'x', 'x/0', 'x_0', 'x-0', 'x/00000.npy', 'x.npy'],
    ['flags', 'flags_', 'flag_s', 'flag-s', 'flags/0', 'flags-', 'flags.x', 'flags~'],
    ['1_2/3_4', '1-2/3_4', '1_2/3-4', '1_2_3_4', '1-2-3-4', '1_2', '1-2/3-4'],
    ['Vis', 'vis', 'VIS', 'vis/X', 'vis/x', 'Vis_1', 'vis_1', 'vis-1', 'Vis-1'],
]
NM_SPECIAL = ['w c', 'w%20c', 'w+c', 'w%2Fc', 'w#c', 'w?c', 'w:c', 'w;c', 'w@c', 'w&c=d', 'w%c', 'w%5Fc', 'w~c', 'w,c', "w'c"]
NM_ILLFORMED = [('a//b', 'a/b'), ('a/./b', 'a/b'), ('c/../a/b', 'a/b'), ('./a', 'a'), ('a/b/', 'a/b'), ('a/b/.', 'a/b')]
NM_S3_BARE = ['', '/', '/ignored']
NM_S3_BUCKET = ['/bkt/', '/b_u/', '/b-u/pre_x/', '/bkt/p/q_r/', '/bkt//x/']
NM_BUCKETS = ['b_k', 'bk', 'katdal_demo', 'b-k-0']


def nm_illformed(name):
    comps = name.split('/')
    return any(c in ('', '.', '..') for c in comps)


def gen_naming_cases(ctx, n):
    rng = ctx.rng
    cases = []
    kinds = ['s3', 's3', 'npy', 's3', 'dict', 's3', 'npy', 's3']
    for i in range(n):
        kind = kinds[i % len(kinds)]
        fam = list(rng.choice(NM_FAMILIES))
        if kind == 'npy':        # on a file system "x/00000.npy" is the first chunk FILE of array "x", not a directory
            fam = [x for x in fam if not x.endswith('.npy')]
        r = rng.random()
        if r < 0.25:
            fam += rng.sample(NM_SPECIAL, 4)
        if kind == 's3' and rng.random() < 0.3:
            fam += ['x/complete', 'x', 'complete']
        names = rng.sample(fam, rng.randint(2, min(4, len(fam))))
        if rng.random() < 0.5:       # make sure a pair differing only in '_' / '-' is there when the family has one
            cand = [(a, b) for a in fam for b in fam if a != b and a.replace('_', '-') == b.replace('_', '-')]
            if cand:
                a, b = rng.choice(cand)
                names = [a, b] + [x for x in names if x not in (a, b)][:2]
        ill = False
        if kind == 's3' and rng.random() < 0.06:
            a, b = rng.choice(NM_ILLFORMED)
            names = [a, b] + [x for x in names if x not in (a, b)][:1]
            ill = True
        rng.shuffle(names)
        bp, mode = '', '-'
        if kind == 's3':
            if i % 16 in (1, 5, 11) and not ill or (ill and rng.random() < 0.5):
                bp, mode = rng.choice(NM_S3_BARE), 'name_bucket'
                if rng.random() < 0.25:
                    b1, b2 = rng.choice([('b_k', 'bk'), ('bk', 'b-k-0'), ('katdal_demo', 'bk')])
                    names = [(b1 if k % 2 == 0 else b2) + '/' + x for k, x in enumerate(names)]
                else:
                    b = rng.choice(NM_BUCKETS)
                    names = [b + '/' + x for x in names]
            else:
                bp, mode = rng.choice(NM_S3_BUCKET), 'url_bucket'
        while True:
            chunks = rand_chunks(rng, maxlen=4, allow0=False)
            if int(np.prod([len(c) for c in chunks], dtype=int)) <= 6 and (chunks or rng.random() < 0.3):
                break
        na = len(names)
        writes = [[k, rng.choice(['chunk', 'dask'])] for k in range(na)]
        if rng.random() < 0.3:
            writes.append([rng.randrange(na), 'chunk'])          # an array written twice: the last put wins
        nb = int(np.prod([len(c) for c in chunks], dtype=int))
        rewrite = [rng.randrange(na), rng.randrange(nb)] if rng.random() < 0.4 else None
        marks = [] if kind == 'dict' else [rng.randrange(na) for _ in range(rng.choice([0, 1, 1, 2]))]
        cases.append(dict(backend=kind, bp=bp, mode=mode, names=names, dtype=dt_repr(rng.choice(NM_DTYPES)), chunks=chunks,
                          writes=writes, rewrite=rewrite, marks=marks, sched=rng.choice(['synchronous', 'threads'])))
    return cases


def naming_ops(c):
    """The history of a naming case: (kind, array index, block index, v) in the order the implementation is driven."""
    chunks = tuple(tuple(x) for x in c['chunks'])
    nb = len(block_slices(chunks))
    ops, v = [], 0
    for k, how in c['writes']:
        for b in range(nb):
            ops.append(('put', k, b, v))
            v += 1
    if c['rewrite'] is not None:
        ops.append(('put', c['rewrite'][0], c['rewrite'][1], v))
        v += 1
    for k in c['marks']:
        ops.append(('mark', k, None, None))
    for k in range(len(c['names'])):
        for b in range(nb):
            ops.append(('get', k, b, None))
    if c['backend'] != 'dict':
        for k in range(len(c['names'])):
            ops.append(('complete', k, None, None))
    return ops


def naming_wire(c, mode):
    chunks = tuple(tuple(x) for x in c['chunks'])
    blocks = block_slices(chunks)
    out = []
    for what, k, b, v in naming_ops(c):
        nm = codes(c['names'][k])
        if what == 'put':
            out.append([0, nm, [s for s, _ in blocks[b]], v])
        elif what == 'get':
            out.append([1, nm, [s for s, _ in blocks[b]]])
        elif what == 'mark':
            out.append([2, nm])
        else:
            out.append([3, nm])
    return [74, [2, mode, codes(c['bp']), out]]


def nm_block(dtype, bshape, v):
    n = int(np.prod(bshape, dtype=int))
    return conv(dtype, (np.arange(n) + 64 * v).reshape(bshape))


def run_naming_cases(ctx, be, cases):
    for c in cases:
        if any(not all(ord(ch) < 128 for ch in nm) for nm in c['names']):
            raise ValueError('naming case with non-ASCII names')
    mos = ctx.model([naming_wire(c, 1 if c['backend'] == 's3' else 0) for c in cases])
    verb = ctx.model([naming_wire(c, 0) for c in cases])         # the relative names (keys verbatim)
    spec = s3_spec_paths(ctx, [(c['bp'], destr(k)) for c, mv in zip(cases, verb) if c['backend'] == 's3' for k in mv[2]])
    for c, mo, mv in zip(cases, mos, verb):
        naming_case(ctx, be, c, mo, mv, spec)
        names = c['names']
        near = any(a != b and a.replace('_', '-') == b.replace('_', '-') for a in names for b in names)
        ctx.note_case(('naming', repr(c)), nontrivial=len(names) >= 2,
                      sample=dict(op='naming', **c))
        ctx.count('naming:' + c['backend'] + ('' if c['backend'] != 's3' else ':' + c['mode']))
        if near:
            ctx.count('naming:underscore_dash_pair')
        if any(a != b and (b.startswith(a + '/') or b.startswith(a)) for a in names for b in names):
            ctx.count('naming:prefix_pair')
        if any(nm_illformed(x) for x in names):
            ctx.count('naming:illformed')


def s3_spec_paths(ctx, pairs):
    """{(bp, rel): documented object path} (spec_object_path of wire_74)."""
    by = {}
    for bp, k in sorted(set(pairs)):
        by.setdefault(bp, []).append(k)
    bps = sorted(by)
    out = {}
    for bp, mo in zip(bps, ctx.model([[74, [1, codes(bp), [codes(k) for k in by[bp]]]] for bp in bps])):
        for k, o in zip(by[bp], mo[0]):
            out[(bp, k)] = (destr(o[2]), bool(o[3]) and bool(mo[1])) if o != [-999] else (None, False)
    return out


def naming_case(ctx, be, c, mo, mv, spec):
    """mo = [answers, spec_answers, final_keys, in_model, arrays_wf] of the back-end's key function, mv = the same with
    the keys verbatim."""
    kind, names = c['backend'], c['names']
    dtype = np.dtype(dt_of(c['dtype']))
    chunks = tuple(tuple(x) for x in c['chunks'])
    shape = tuple(sum(x) for x in chunks)
    blocks = block_slices(chunks)
    bshapes = [tuple(e - s for s, e in b) for b in blocks]
    ill = any(nm_illformed(x) for x in names)
    sig = 'op=naming;backend=%s;mode=%s;names=%s;' % (kind, c['mode'], 'illformed' if ill else 'wf')
    ops = naming_ops(c)
    if mo == [-999] or not mo[3]:
        raise ValueError('naming case outside the model: %r' % (c,))
    m_ans, s_ans, m_keys = mo[0], mo[1], sorted(set(destr(k) for k in mo[2]))
    # ---- drive the implementation
    if kind == 'dict':
        store = c07stores.RecDict(**{nm: np.zeros(shape, dtype) for nm in names})
        keys = None
    elif kind == 'npy':
        store, _, keys = be.new('npy', shape, dtype, names[0])
    else:
        store, _, keys = be.new('s3', shape, dtype, names[0], c['bp'])
    impl = []
    nputs = sum(1 for o in ops if o[0] == 'put')
    pos = 0
    cache = {}

    def nm_data(dt, bshape, v):
        if (bshape, v) not in cache:
            cache[(bshape, v)] = nm_block(dt, bshape, v)
        return cache[(bshape, v)]
    written = {}       # block index -> the puts addressed to a block of that shape (candidates when identifying data read back)
    for o in ops:
        if o[0] == 'put':
            written.setdefault(bshapes[o[2]], []).append(o[3])
    try:
        for k, how in c['writes']:
            if kind != 'dict':
                store.create_array(names[k])
            vs = [o[3] for o in ops[pos:pos + len(blocks)]]
            pos += len(blocks)
            if how == 'chunk':
                for b, v in zip(blocks, vs):
                    store.put_chunk(names[k], tuple(slice(s, e) for s, e in b), nm_data(dtype, tuple(e - s for s, e in b), v))
            else:
                full = np.zeros(shape, dtype)
                for b, v in zip(blocks, vs):
                    full[tuple(slice(s, e) for s, e in b)] = nm_data(dtype, tuple(e - s for s, e in b), v)
                with dask.config.set(scheduler=c['sched']):
                    res = store.put_dask_array(names[k], da.from_array(full, chunks=chunks)).compute()
                bad = [r for r in np.asarray(res, dtype=object).ravel().tolist() if r is not None]
                if bad:
                    raise bad[0]
            impl += [0] * len(blocks)
        if c['rewrite'] is not None:
            k, b = c['rewrite']
            store.put_chunk(names[k], tuple(slice(s, e) for s, e in blocks[b]), nm_data(dtype, bshapes[b], ops[pos][3]))
            impl.append(0)
            pos += 1
        for k in c['marks']:
            store.mark_complete(names[k])
            impl.append(0)
            pos += 1
    except Exception as e:
        ctx.disagree(sig + 'symptom=put_failed:%s' % type(e).__name__, c, repr(e)[:200], 'stored',
                     'writing several arrays / markers into one store failed')
        be.done()
        ctx.traces_validated += 1
        return
    raised = None
    for what, k, b, _ in ops[pos:]:
        if what == 'get':
            try:
                ch = store.get_chunk(names[k], tuple(slice(s, e) for s, e in blocks[b]), dtype)
                found = [v for v in written.get(tuple(ch.shape), []) if same(ch, nm_data(dtype, tuple(ch.shape), v))]
                impl.append(found[0] if found else -3)
            except ChunkNotFound:
                impl.append(-1)
            except ChunkStoreError as e:
                impl.append(-2)
                raised = raised or type(e).__name__
            except Exception as e:
                impl.append(-4)
                raised = raised or type(e).__name__
        else:
            try:
                impl.append(int(bool(store.is_complete(names[k]))))
            except Exception as e:
                impl.append(-4)
                raised = raised or type(e).__name__
    # whole arrays as lazy arrays
    lazy = {}
    for k in range(min(2, len(names))):      # (the names are in random order)
        try:
            with dask.config.set(scheduler=c['sched']):
                lazy[k] = np.asarray(store.get_dask_array(names[k], chunks, dtype, errors='raise').compute())
        except Exception as e:
            lazy[k] = e
    impl_keys = keys() if keys is not None else None
    be.done()
    ctx.traces_validated += 1
    # ---- compare: property (the history spec) first, then the tie (the model with the back-end's key function)
    kinds = [o[0] for o in ops]

    def symptom(i, want):
        if kinds[i] == 'complete':
            return 'complete_marker'
        a = impl[i]
        if a == -1:
            return 'chunk_missing'
        if a in (-2, -4):
            return 'get_raised:%s' % raised
        if a == -3:
            return 'unknown_data'
        return 'wrong_data' if want >= 0 else 'data_for_unwritten_chunk'
    shown = dict(impl=impl, names=names)
    if impl != s_ans:
        i = [j for j in range(len(ops)) if impl[j] != s_ans[j]][0]
        what = ('%s of array %r block %s differs from the last put addressed to that (array name, chunk start): got put #%s, '
                'expected put #%s' % (kinds[i], names[ops[i][1]], ops[i][2], impl[i], s_ans[i]))
        if ill and impl == m_ans:
            ctx.disagree('op=naming;backend=%s;names=illformed;symptom=aliased' % kind, c, impl, m_ans, what, spec=s_ans)
        else:
            ctx.disagree(sig + 'symptom=' + symptom(i, s_ans[i]), c, impl, m_ans, what, spec=s_ans)
    elif impl != m_ans:
        ctx.disagree(sig + 'symptom=model_differs', c, impl, m_ans, 'the model of the keyed store answers differently', spec=s_ans,
                     kind='tie')
    else:
        for k in sorted(lazy):
            want = [s_ans[j] for j in range(len(ops)) if kinds[j] == 'get' and ops[j][1] == k]
            if any(v < 0 for v in want):
                continue
            exp = np.zeros(shape, dtype)
            for b, v in zip(blocks, want):
                exp[tuple(slice(s, e) for s, e in b)] = nm_data(dtype, tuple(e - s for s, e in b), v)
            out = lazy[k]
            if isinstance(out, Exception):
                ctx.disagree(sig + 'symptom=lazy_get_raised:%s' % type(out).__name__, c, repr(out)[:200], 'data',
                             'get_dask_array of array %r raised' % names[k])
                break
            if not same(out, exp):
                ctx.disagree(sig + 'symptom=lazy_wrong_data', c, out.ravel()[:8].tolist(), exp.ravel()[:8].tolist(),
                             'get_dask_array of array %r differs from the chunks written to it' % names[k])
                break
    if impl_keys is not None:
        if kind == 's3' and not ill:
            docs = [spec[(c['bp'], destr(k))] for k in mv[2]]
            if all(ok for _, ok in docs):
                want = sorted(set(p for p, _ in docs))
                if impl_keys != want:
                    ctx.disagree(sig + 'symptom=object_keys', c, impl_keys[:8], m_keys[:8],
                                 'objects held by the endpoint differ from the documented "<bucket>/<path>/<idx>.npy" of the '
                                 'chunks written (missing %s, unexpected %s)' % (sorted(set(want) - set(impl_keys))[:3],
                                                                                sorted(set(impl_keys) - set(want))[:3]),
                                 spec=want[:8])
                    return
        if impl_keys != m_keys:
            ctx.disagree(sig + 'symptom=object_keys_vs_model', c, impl_keys[:8], m_keys[:8],
                         'object keys / file names differ from the model (missing %s, unexpected %s)'
                         % (sorted(set(m_keys) - set(impl_keys))[:3], sorted(set(impl_keys) - set(m_keys))[:3]), kind='tie')


# ---------------------------------------------------------------------------------------------------

def run_witness(ctx, be, w):
    kind = w.get('kind')
    if kind == 'index':
        run_index_cases(ctx, be, [(w['backend'], dict(dtype=w['dtype'], chunks=w['chunks'], index=w['index']))])
    elif kind == 'roundtrip':
        run_roundtrips(ctx, be, [(w['backend'], dict(dtype=w['dtype'], chunks=w['chunks'], offp=w['offp'], offg=w['offg'],
                                                    errors=w.get('errors', 'raise')))])
    elif kind == 'generate_chunks':
        run_gc_batch(ctx, [w['case']])
    elif kind == 'multi':
        run_multi_cases(ctx, be, [w['case']])
    elif kind == 'layout':
        run_layout_cases(ctx, be, [(w['backend'], w['case'])])
    elif kind == 'foreign':
        run_foreign_cases(ctx, be, [(w['backend'], w['case'])])
    elif kind == 'mismatch':
        run_mismatch_cases(ctx, be, [(w['backend'], w['case'])])
    elif kind == 'naming':
        run_naming_cases(ctx, be, [w['case']])
    elif kind == 'npyfile':
        run_npyfile_cases(ctx, be, [(w['backend'], w['case'])])


def run(ctx):
    # broken translator / model build: search with the model binary kept from the last good tree
    note = _last_good_model(ctx)
    if note:
        ctx.extra['search_model'] = note
    if not ctx.model_ok and note is None:
        from vh import core
        if not os.path.exists(os.path.join(core.EXTRACT_DIR, 'driver')):
            raise RuntimeError('no model binary: cannot run the correspondence')
    with c07stores.FakeS3() as s3:
        be = Backends(s3)
        try:
            for f in ctx.findings:
                run_witness(ctx, be, f['witness'])
            import time
            stages = ctx.extra.setdefault('stage_seconds', {})

            def stage(name, fn, *a):
                t0 = time.time()
                fn(*a)
                stages[name] = round(stages.get(name, 0) + time.time() - t0, 1)
            stage('names', run_names, ctx, ctx.scale(300, 3000))
            stage('buckets', run_buckets, ctx, ctx.scale(300, 3000))
            stage('generate_chunks', run_gen_chunks, ctx, ctx.scale(3000, 40000), be)
            stage('roundtrips', run_roundtrips, ctx, be, gen_roundtrips(ctx, ctx.scale(480, 6000)))
            stage('index', run_index_cases, ctx, be, gen_index_cases(ctx, ctx.scale(300, 4500)))
            stage('sequences', run_ops, ctx, be, ctx.scale(120, 1500))
            stage('layouts', run_layout_cases, ctx, be, gen_layout_cases(ctx, ctx.scale(400, 4800)))
            stage('foreign', run_foreign_cases, ctx, be, gen_foreign_cases(ctx, ctx.scale(120, 1500)))
            stage('npyfile', run_npyfile_cases, ctx, be, gen_npyfile_cases(ctx, ctx.scale(360, 4500)))
            stage('multi', run_multi_cases, ctx, be, gen_multi_cases(ctx, ctx.scale(300, 3600)))
            stage('mismatch', run_mismatch_cases, ctx, be, gen_mismatch_cases(ctx, ctx.scale(120, 1500)))
            stage('naming', run_naming_cases, ctx, be, gen_naming_cases(ctx, ctx.scale(190, 2600)))
            if ctx.tier == 'thorough':
                run_gc_exhaustive(ctx)
                sample = [[7, [6, 5, z]] for z in (0, 7, 99999, 100000, -1, -12345, 10 ** 17)]
                sample += [[7, [2, codes('x'), [[2, 1], [1, 2]], [3, 100000], [3, 100000], 0]],
                           [7, [3, codes('x'), [[2, 2, 2], [1, 1]], [[[1], [5]], [[], []]], 1]],
                           [7, [4, [10, 7], 13, 2, [0, 1], 0, [[0, 4]], [[3, 3, 3, 1], [2, 2, 2, 1]]]],
                           [73, [[4, 6, 50], 6000, 4, [[-1, 2]], 0, [[[-1, 4], [2, 8]]], [[4], [6], [50]]]],
                           [73, [[10, 7], 13, 2, [[0, 17]], 1, [[[0, 5]]], []]], [73, [[10, 7], 13, 2, [], 1, [], []]],
                           [7, [5, codes('/a_b/c_d/00000_00001.npy')]],
                           [74, [1, codes('/b_u/pre_x/'), [codes('w_c/00000_00001.npy'), codes('a//b/./x y'), codes('/abs/../p%q')]]],
                           [74, [1, codes(''), [codes('b_k/w_c/00000.npy'), codes('b_k')]]],
                           [74, [2, 1, codes('/bkt/'), [[0, codes('w_c'), [0], 1], [0, codes('w-c'), [0], 2], [1, codes('w_c'), [0]],
                                                         [2, codes('w_c')], [3, codes('w-c')], [3, codes('w_c')], [1, codes('a//b'), [5, -1]]]]],
                           [71, [1, [2, 3], 1]], [71, [2, [2, 3, 2], 1]], [71, [2, [], 1]],
                           [75, [1, codes('<i2'), 0, [2, 3], [[k, 0] for k in range(6)]]], [75, [2, 2, 4, 5, codes('>f4'), 1, [2, 1], [[0, 0, 0, 1], [0, 0, 0, 2]]]],
                           [75, [3, list(b'\x93NUMPY\x01\x00\x16\x00' + b"{'descr': '|u1', 'fortran_order': False, 'shape': (2,), }      \n"[:22])]], [75, [4, 2, codes('|S3'), 0, [1000, 0]]],
                           [72, [2, [[0, codes('x'), 7, 1, [[2, 2]], [0], 0], [0, codes('x'), 7, 2, [[2, 2]], [4], 4000],
                                     [1, codes('x'), 7, 1, [[2, 2]], [0], 0]],
                                 [[0, codes('x'), 7, [[2, 2, 2, 2]], [], []], [1, codes('x'), 7, [[2, 2]], [0], []],
                                  [0, codes('x'), 7, [[2, 2, 2, 2]], [], [[[3], [6]]]]], 0]]]
                from vh import core
                with core.BuildLock():      # a clean rebuild of Props/C07.vo leaves other models uncompiled
                    core.make(' '.join(x[:-2] + '.vo' for x in core.coq_sources() if x.startswith(('Base/', 'Gen/', 'Model/'))))
                    core.sh('timeout 600 coqc -Q . KV Extract/Dispatch.v', cwd=core.COQ, timeout=700)
                a = core.run_model_in_coq(sample, 'c07')
                b = ctx.model(sample)
                if a != b:
                    ctx.disagree('op=extraction_crosscheck', dict(sample=sample), b, a, 'extracted model differs from vm_compute', kind='tie')
                ctx.extra['extraction_crosscheck_cases'] = len(sample)
        finally:
            be.close()
    ctx.exhaustive = False


def replay(ctx, doc):
    case = doc.get('case', {})
    sig = doc.get('signature', '')
    note = _last_good_model(ctx)
    if note:
        ctx.extra['search_model'] = note
    with c07stores.FakeS3() as s3:
        be = Backends(s3)
        try:
            op = dict(x.split('=', 1) for x in sig.split(';') if '=' in x).get('op')
            backend = dict(x.split('=', 1) for x in sig.split(';') if '=' in x).get('backend', 'npy')
            if op == 'roundtrip':
                run_roundtrips(ctx, be, [(backend, case)])
            elif op == 'index':
                for k in (['dict'] if 'store=dict' in sig else ['npy', 's3']):
                    run_index_cases(ctx, be, [(k, case)])
            elif op == 'generate_chunks':
                run_gc_batch(ctx, [case])
            elif op == 'multi':
                run_multi_cases(ctx, be, [case])
            elif op == 'layout':
                run_layout_cases(ctx, be, [(backend, case)])
            elif op == 'foreign':
                run_foreign_cases(ctx, be, [(backend, case)])
            elif op == 'mismatch':
                run_mismatch_cases(ctx, be, [(backend, case)])
            elif op == 'npyfile':
                run_npyfile_cases(ctx, be, [(backend, case)])
            elif op == 'naming':
                run_naming_cases(ctx, be, [case])
            elif op == 'normalise_bucket':
                mo = ctx.model([[7, [5, codes(case['path'])]]])[0]
                u = _normalise_bucket_name('http://127.0.0.1:9000' + case['path'])
                if u[len('http://127.0.0.1:9000'):] != destr(mo[0]):
                    ctx.disagree(sig, case, u, destr(mo[0]), 'normalised URL path differs from model')
                ctx.note_case(('bucket', case['path']))
            elif op == 'chunk_id_str':
                z = case['start']
                mo = ctx.model([[7, [6, ChunkStore.NAME_INDEX_WIDTH, z]]])[0]
                impl = ChunkStore.chunk_id_str((slice(z, z + 1),))
                if impl != destr(mo[0]):
                    ctx.disagree(sig, case, impl, destr(mo[0]), 'printed index differs')
                ctx.note_case(('fmt', z))
            else:
                run(ctx)
        finally:
            be.close()
