"""C13 — Applying calibration: composition, invalid-gain handling and invertibility (correspondence + search).

Three streams, all driven by explicit JSON-able configurations (a replay file carries the whole configuration):

direct   katdal.applycal.calc_correction on a SensorCache holding generated `Calibration/Corrections/...` sensors
         (ndarray and CategoricalData forms), then the three numba kernels through dask elemwise exactly as
         VisibilityDataV4._make_corrected does; compared for EQUALITY with the extracted Coq model (tie: block-wise
         evaluation over the same chunking) and the extracted Coq spec (property: pointwise product formula, the
         product's own channelisation).
v4       full data sets (fixtures.v4.build_v4 + a 'cal' stream in telstate) opened with applycal=...; the
         correction sensors katdal derived from the solutions are read back and are the model's given inputs
         (the derivation itself is C14); corrected vis / weights / raw flags under random selections and
         second-stage indexing are compared for equality with model and spec.
invert   v4 data sets whose stored visibilities were corrupted by known complex per-input gains, delays and
         bandpasses, same solutions at every dump: corrected vis within REL_TOL of the clean ones (the one clause of
         the property that says "to within single-precision rounding").
"""
import logging
import math
import warnings
from fractions import Fraction

import numpy as np

RULE = ('direct: 1-4 cal products from 1-2 streams (own channel counts and centre frequencies: equal to / within '
        '1 mHz of / shifted from / coarser or finer than the data channels), per-input per-dump per-channel '
        'corrections that are Gaussian dyadics (unit-group x 2^e with free weights, or small Gaussian integers/halves '
        'with weights matched so that the float32 division is exact), NaN and zero at random positions, ndarray or '
        'categorical sensors, shuffled/duplicated corrprod pairs, random chunkings on all three axes, a second '
        'chunking and a random loaded subset; v4: real positive power-of-two G (with or without channel axis), '
        'B with NaN edges, K zero/NaN solutions through katdal.open-equivalent data sets, shuffled bls_ordering, '
        'random selections; invert: complex gains/delays/bandpasses.  A case is one configuration; non-trivial when '
        'at least one factor is finite and not 1 and (direct, v4) at least one factor is NaN or two products '
        'are combined; distinct by the whole configuration')
ASSUMPTIONS = ['correction values are finite or NaN (infinite corrections are outside the model: inf*0 is NaN in IEEE)',
               'generated gains keep every complex64 product, |factor|^2 and the weight division exact in float32 '
               '(checked by the harness against a float64 evaluation); rounding is not verified',
               'the solutions-to-corrections interpolation (C14) is taken as given: in the v4 stream the correction '
               'sensors are read back from the data set',
               'invert stream tolerance: |corrected - clean| <= 2^-16 * (1 + number of products) * max(|clean|, 1) per component']

warnings.simplefilter('ignore')
logging.disable(logging.CRITICAL)

REL_TOL = 2.0 ** -16
TYPES = ['K', 'B', 'G', 'GPHASE', 'GAMP_PHASE']
UNITS = [(1, 0), (0, 1), (-1, 0), (0, -1), (1, 1), (1, -1), (-1, 1), (-1, -1)]


# --------------------------------------------------------------------------- dyadic helpers
def c_to_py(z):
    """[re, im, k] | None -> complex (exact) or nan."""
    if z is None:
        return complex(np.nan, np.nan)
    return complex(z[0] / 2.0 ** z[2], z[1] / 2.0 ** z[2])


def c_wire(z):
    return [] if z is None else [int(z[0]), int(z[1]), int(z[2])]


def float_to_dy(x):
    """exact float -> (n, k) with x = n / 2^k, k >= 0."""
    fr = Fraction(float(x))
    k = fr.denominator.bit_length() - 1
    return int(fr.numerator), k


def complex_to_wire(z):
    if np.isnan(z.real) or np.isnan(z.imag):
        return []
    if np.isinf(z.real) or np.isinf(z.imag):
        raise ValueError('infinite value is outside the model')
    (a, ka), (b, kb) = float_to_dy(z.real), float_to_dy(z.imag)
    k = max(ka, kb)
    return [a << (k - ka), b << (k - kb), k]


def q_wire(x):
    fr = Fraction(x)
    return [fr.numerator, fr.denominator]


def arr_c_from_model(a, shape):
    """nested [[n,d],[n,d]] | [] -> complex128 array + exactness mask."""
    out = np.empty(shape, np.complex128)
    exact = np.ones(shape, bool)
    it = np.nditer(out, flags=['multi_index'], op_flags=['writeonly'])
    for _ in it:
        i = it.multi_index
        v = a[i[0]][i[1]][i[2]]
        if not v:
            out[i] = complex(np.nan, np.nan)
        else:
            (n1, d1), (n2, d2) = v
            out[i] = complex(n1 / d1, n2 / d2)
            exact[i] = _dy(n1, d1) and _dy(n2, d2)
    return out, exact


def _dy(n, d):
    return d & (d - 1) == 0 and abs(n).bit_length() <= 50


def arr_q_from_model(a, shape):
    out = np.empty(shape, np.float64)
    exact = np.ones(shape, bool)
    for i in np.ndindex(*shape):
        n, d = a[i[0]][i[1]][i[2]]
        out[i] = n / d
        # exact in float32: dyadic with a 24-bit numerator
        exact[i] = d & (d - 1) == 0 and (n == 0 or (abs(n) >> (abs(n) & -abs(n)).bit_length() - 1).bit_length() <= 24)
    return out, exact


# --------------------------------------------------------------------------- python rendering of the SPEC
# (used to pick exact weights, as the fall-back when no model binary exists, and for the invert stream)
def py_factor(cfg):
    """Pointwise factor by the property statement: product over cal products, own channelisation (nearest)."""
    T, F = cfg['T'], len(cfg['data_freqs'])
    fd = [Fraction(*f) for f in cfg['data_freqs']]
    cps = cfg['cps']
    fac = np.ones((T, F, len(cps)), np.complex128)
    for p in cfg['prods']:
        corr = np.array([[[c_to_py(z) for z in g] for g in per_dump] for per_dump in p['corr']], np.complex128)
        own = [Fraction(0)] if p['own'] == 0 else fd if p['own'] == 1 else [Fraction(*f) for f in p['cal_freqs']]
        idx = [min(range(len(own)), key=lambda k: (abs(f - own[k]), k)) for f in fd]
        g = corr[:, :, idx]                       # input, dump, data channel
        for b, (i1, i2) in enumerate(cps):
            fac[:, :, b] *= g[i1] * np.conj(g[i2])
    return fac


def py_spec(cfg, fac=None):
    fac = py_factor(cfg) if fac is None else fac
    vis = np.array([[[c_to_py(z) for z in r] for r in t] for t in cfg['vis']], np.complex128)
    wts = np.array([[[w[0] / 2.0 ** w[1] for w in r] for r in t] for t in cfg['weights']], np.float64)
    fls = np.array(cfg['flags'], np.int64)
    nan = np.isnan(fac)
    sv = np.where(nan, vis, vis * np.where(nan, 1, fac))
    n2 = fac.real ** 2 + fac.imag ** 2
    with np.errstate(all='ignore'):
        sw = np.where(nan | (n2 == 0), 0.0, wts / np.where(nan | (n2 == 0), 1, n2))
    sf = np.where(nan, fls | 128, fls)
    return fac, sv, sw, sf


# --------------------------------------------------------------------------- generators
def compositions(rng, n, maxparts=3):
    if n == 0:
        return []
    k = rng.randint(1, min(maxparts, n))
    cuts = sorted(rng.sample(range(1, n), k - 1)) if k > 1 else []
    return [b - a for a, b in zip([0] + cuts, cuts + [n])]


def gen_freqs(rng, F):
    df = Fraction(rng.choice([1, 2, 4, Fraction(1, 2)]))
    f0 = rng.choice([100, 1000, 4096])
    fr = [Fraction(f0) + df * c for c in range(F)]
    if rng.random() < 0.15:
        fr.reverse()
    return fr, df


def gen_cal_freqs(rng, data, df, mode):
    F = len(data)
    lo, hi = min(data), max(data)
    if mode == 'same':
        return list(data)
    if mode == 'close':            # within 1 mHz (2^-10 Hz) of the data channels: np.allclose(atol=1e-3) holds
        return [f + Fraction(rng.choice([-1, 0, 1]), 1024) for f in data]
    if mode == 'shifted':          # same count, different centre
        s = rng.choice([-3, -2, -1, 1, 2, 3]) * df * rng.choice([1, Fraction(1, 2)])
        return [f + s for f in data]
    if mode == 'barely':           # same count, 2^-9 Hz away: allclose fails
        return [f + Fraction(1, 512) for f in data]
    n = rng.choice([k for k in range(1, F + 3) if k != F] or [F + 1])
    step = (hi - lo + df) / n
    start = lo - df / 2 + step / 2 + rng.choice([0, 0, df, -df])
    out = [start + step * k for k in range(n)]
    if any(f.denominator & (f.denominator - 1) for f in out):     # keep frequencies dyadic (exact in float64)
        out = [Fraction(math.floor(f * 4), 4) for f in out]
    return out


def gen_gain(rng, mode, budget):
    """one correction value [re, im, k]."""
    if mode == 'unit':
        a, b = rng.choice(UNITS)
        e = rng.randint(-2, 2)
        return [a << (e + 2), b << (e + 2), 2]
    while True:
        a, b = rng.randint(-budget, budget), rng.randint(-budget, budget)
        if a * a + b * b <= budget * budget:
            return [a, b, rng.choice([0, 0, 1])]


def gen_direct(rng, tier='quick', force=None):
    force = force or {}
    T = force.get('T', rng.randint(1, 5))
    F = force.get('F', rng.randint(1, 8))
    n_ant = rng.randint(1, 3)
    labels = ['m%03d%s' % (a, p) for a in range(n_ant) for p in 'hv']
    rng.shuffle(labels)
    ninp = len(labels)
    B = rng.randint(1, 10)
    cps = [[rng.randrange(ninp), rng.randrange(ninp)] for _ in range(B)]
    data, df = gen_freqs(rng, F)
    streams = rng.sample(['l1', 'l2'], rng.randint(1, 2))
    modes = force.get('cal_modes', ['same', 'close', 'shifted', 'barely', 'other', 'other', 'other'])
    cal = {s: gen_cal_freqs(rng, data, df, rng.choice(modes)) for s in streams}
    P = force.get('P', rng.choice([1, 1, 2, 2, 3, 4]))
    names = rng.sample([(s, t) for s in streams for t in TYPES], min(P, len(streams) * len(TYPES)))
    P = len(names)
    gmode = rng.choice(['unit', 'gauss'])
    # budget: |g|max^(2P) <= 4096 keeps every float32 operation exact
    budget = {1: 45, 2: 5, 3: 2, 4: 2}[P]
    p_nan = rng.choice([0, 0.02, 0.1, 0.3])
    p_zero = rng.choice([0, 0, 0.03])
    prods = []
    for (s, t) in names:
        kb = t in ('K', 'B')
        if kb:
            own, cn = 1, F
        elif rng.random() < 0.4:
            own, cn = 0, 1
        else:
            own, cn = 2, len(cal[s])
        const_time = rng.random() < 0.4
        nan_input = rng.randrange(ninp) if rng.random() < 0.2 else None
        corr = []
        for i in range(ninp):
            per = []
            for t_ in range(T):
                if const_time and t_ > 0 and rng.random() < 0.7:
                    per.append(per[-1])
                    continue
                g = []
                for _ in range(cn):
                    r = rng.random()
                    if i == nan_input or r < p_nan:
                        g.append(None)
                    elif r < p_nan + p_zero:
                        g.append([0, 0, 0])
                    else:
                        g.append(gen_gain(rng, gmode, budget))
                per.append(g)
            corr.append(per)
        form = rng.choice(['array', 'categorical'] + (['array1d'] if cn == 1 else []))
        prods.append(dict(name=s + '.' + t, stream=s, kb=int(kb), own=own, form=form,
                          cal_freqs=[q_wire(f) for f in cal[s]], corr=corr))
    vis = [[[[rng.randint(-64, 64), rng.randint(-64, 64), rng.choice([0, 1])] if rng.random() > 0.02 else None
             for _ in range(B)] for _ in range(F)] for _ in range(T)]
    flags = [[[rng.randrange(256) for _ in range(B)] for _ in range(F)] for _ in range(T)]
    cfg = dict(route='direct', T=T, labels=labels, cps=cps, data_freqs=[q_wire(f) for f in data], prods=prods,
               chunks=[compositions(rng, T), compositions(rng, F), compositions(rng, B, 2)],
               chunks2=[compositions(rng, T), compositions(rng, F)], gmode=gmode,
               vis=vis, flags=flags)
    # weights: free for unit-group gains, matched (2^j * |factor|^2) for general Gaussian gains
    wts = [[[[rng.randint(1, 64), rng.choice([0, 1, 2])] for _ in range(B)] for _ in range(F)] for _ in range(T)]
    if gmode == 'gauss':
        fac = py_factor(dict(cfg, weights=wts))
        n2 = fac.real ** 2 + fac.imag ** 2
        for i in np.ndindex(T, F, B):
            if np.isfinite(n2[i]) and n2[i] > 0:
                wts[i[0]][i[1]][i[2]] = list(float_to_dy(n2[i] * 2.0 ** rng.randint(-2, 3)))
    cfg['weights'] = wts
    cfg['subset'] = [sorted(rng.sample(range(T), rng.randint(1, T))), sorted(rng.sample(range(F), rng.randint(1, F))),
                     sorted(rng.sample(range(B), rng.randint(1, B)))]
    return cfg


# --------------------------------------------------------------------------- model call
def model_case(cfg):
    prods = [[p['own'], p['kb'], p['cal_freqs'], [[[c_wire(z) for z in g] for g in per] for per in p['corr']]]
             for p in cfg['prods']]
    return [13, [1, cfg['data_freqs'], prods, len(cfg['labels']), cfg['cps'], cfg['chunks'][0], cfg['chunks'][1],
                 [[[c_wire(z) for z in r] for r in t] for t in cfg['vis']],
                 cfg['weights'], cfg['flags']]]


def model_arrays(cfg, mo):
    T, F, B = cfg['T'], len(cfg['data_freqs']), len(cfg['cps'])
    sh = (T, F, B)
    res = dict(wf=bool(mo[0]), maps=[m[0] for m in mo[1]])
    res['corr'], _ = arr_c_from_model(mo[2], sh)
    res['vis'], res['vis_exact'] = arr_c_from_model(mo[3], sh)
    res['weights'], res['w_exact'] = arr_q_from_model(mo[4], sh)
    res['flags'] = np.array(mo[5], np.int64).reshape(sh)
    res['spec_vis'], _ = arr_c_from_model(mo[6], sh)
    res['spec_weights'], _ = arr_q_from_model(mo[7], sh)
    res['spec_flags'] = np.array(mo[8], np.int64).reshape(sh)
    return res


def fallback_arrays(cfg):
    fac, sv, sw, sf = py_spec(cfg)
    return dict(wf=True, maps=[], corr=fac, vis=sv, weights=sw, flags=sf, spec_vis=sv, spec_weights=sw,
                spec_flags=sf, vis_exact=np.ones(sv.shape, bool), w_exact=np.ones(sv.shape, bool), fallback=True)


# --------------------------------------------------------------------------- implementation: direct route
def same_c(a, b):
    """exact equality of complex arrays with NaN == NaN (any NaN component = NaN)."""
    na = np.isnan(a.real) | np.isnan(a.imag)
    nb = np.isnan(b.real) | np.isnan(b.imag)
    return (na & nb) | (~na & ~nb & (a == b))


def run_direct_impl(cfg):
    import dask.array as da
    from katdal.applycal import (apply_flags_correction, apply_vis_correction, apply_weights_correction,
                                 calc_correction)
    from katdal.categorical import CategoricalData, ComparableArrayWrapper
    from katdal.sensordata import SensorCache
    T, F, B = cfg['T'], len(cfg['data_freqs']), len(cfg['cps'])
    cache = SensorCache({}, 100.0 + 2.0 * np.arange(T), 2.0)
    for p in cfg['prods']:
        s, t = p['name'].split('.')
        for lab, per in zip(cfg['labels'], p['corr']):
            arr = np.array([[c_to_py(z) for z in g] for g in per], np.complex64)       # (T, cn)
            if p['form'] == 'array1d':
                sensor = arr[:, 0].copy()
            elif p['form'] == 'categorical':
                ev = [0] + [k for k in range(1, T) if per[k] != per[k - 1]]
                sensor = CategoricalData([ComparableArrayWrapper(arr[k].copy()) for k in ev], ev + [T])
            else:
                sensor = arr
            cache['Calibration/Corrections/%s/%s/%s' % (s, t, lab)] = sensor
    corrprods = [(cfg['labels'][a], cfg['labels'][b]) for a, b in cfg['cps']]
    data_freqs = np.array([float(Fraction(*f)) for f in cfg['data_freqs']])
    cal_freqs = {p['stream']: np.array([float(Fraction(*f)) for f in p['cal_freqs']]) for p in cfg['prods']}
    vis = np.array([[[c_to_py(z) for z in r] for r in t] for t in cfg['vis']], np.complex64)
    wts = np.array([[[w[0] / 2.0 ** w[1] for w in r] for r in t] for t in cfg['weights']], np.float32)
    fls = np.array(cfg['flags'], np.uint8)
    out = {}
    for key, chunks in (('main', cfg['chunks']), ('second', cfg['chunks2'] + [[B]])):
        chunks = tuple(tuple(c) for c in chunks)
        final, corr = calc_correction(chunks, cache, corrprods, [p['name'] for p in cfg['prods']], data_freqs,
                                      cal_freqs)
        assert final == [p['name'] for p in cfg['prods']], final
        res = {}
        for nm, kern, arr in (('vis', apply_vis_correction, vis), ('weights', apply_weights_correction, wts),
                              ('flags', apply_flags_correction, fls)):
            darr = da.from_array(arr, chunks=chunks)
            res[nm] = da.core.elemwise(kern, darr, corr, dtype=arr.dtype)
        if key == 'main':
            out['corr'] = corr.compute(scheduler='synchronous')
            for nm in res:
                out[nm] = res[nm].compute(scheduler='synchronous')
        else:
            ts, cs, bs = cfg['subset']
            for nm in res:
                out['sub_' + nm] = res[nm][ts][:, cs][:, :, bs].compute(scheduler='synchronous')
    return out


def features(cfg, m):
    kinds = {0: 'broadcast', 1: 'direct', 2: 'nearest'}
    maps = sorted({kinds[k] for k in m.get('maps', [])})
    cause = 'other'
    for p, k in zip(cfg['prods'], m.get('maps', [])):
        if p['own'] == 1 and k == 2:
            cause = 'kb_corrections_on_data_channels_mapped_by_cal_stream_freqs'
    return maps, cause


def compare(ctx, cfg, impl, m, route):
    """impl: dict corr/vis/weights/flags arrays for the full (or selected) grid; m: model arrays on the same grid."""
    maps, cause = features(cfg, m)
    ok = True
    case = cfg
    for obs, cmpf in (('vis', same_c), ('weights', None), ('flags', None), ('corr', same_c)):
        if obs not in impl:
            continue
        a = impl[obs]
        for side, key, kind in (('model', obs, 'tie'), ('spec', 'spec_' + obs, 'property')):
            if key not in m or (m.get('fallback') and side == 'model'):
                continue
            b = m[key]
            if a.shape != b.shape:
                ctx.disagree('route=%s;obs=%s;symptom=shape' % (route, obs), case, list(a.shape), list(b.shape),
                             'shape of corrected %s differs' % obs, kind=kind)
                ok = False
                continue
            if cmpf is not None:
                eq = cmpf(a.astype(np.complex128), b)
                if obs == 'vis':
                    eq |= ~m['vis_exact']
            elif obs == 'weights':
                eq = (a.astype(np.float64) == b) | ~m['w_exact']
            else:
                eq = a.astype(np.int64) == b
            if not eq.all():
                at = tuple(int(x) for x in np.argwhere(~eq)[0])
                sym = 'nan_mismatch' if (cmpf is not None and (np.isnan(a[at]) != np.isnan(b[at]))) else 'wrong_value'
                sig = 'route=%s;obs=%s;vs=%s;symptom=%s;cause=%s' % (route, obs, side, sym,
                                                                    cause if side == 'spec' else 'tie')
                ctx.disagree(sig, case, dict(at=at, value=str(a[at])), dict(at=at, value=str(b[at])),
                             'corrected %s differs from the %s at %s (maps %s)' % (obs, side, at, maps),
                             spec=str(m['spec_' + obs][at]) if 'spec_' + obs in m else None, kind=kind)
                ok = False
    return ok


def nontrivial(cfg, m):
    fac = m['corr']
    nan = np.isnan(fac)
    fin = ~nan & (fac != 1)
    return bool(fin.any() and (nan.any() or len(cfg['prods']) > 1))


def run_direct(ctx, cfg, mo):
    m = model_arrays(cfg, mo) if mo is not None else fallback_arrays(cfg)
    try:
        impl = run_direct_impl(cfg)
    except Exception as e:
        if m['wf']:
            ctx.disagree('route=direct;symptom=raises;exc=%s' % type(e).__name__, cfg, repr(e)[:300], 'a result',
                         'calc_correction / kernels raised on a well-formed configuration')
        return
    if not m['wf']:
        return
    compare(ctx, cfg, impl, m, 'direct')
    # chunk independence / loaded subset on the implementation itself
    ts, cs, bs = cfg['subset']
    ix = np.ix_(ts, cs, bs)
    for nm in ('vis', 'weights', 'flags'):
        a, b = impl['sub_' + nm], impl[nm][ix]
        eq = same_c(a, b) if nm == 'vis' else a == b
        if a.shape != b.shape or not np.all(eq):
            ctx.disagree('route=direct;obs=%s;symptom=chunking_or_subset_dependent' % nm, cfg, str(a.tolist())[:200],
                         str(b.tolist())[:200], 'second chunking + loaded subset differs from the full result')
    ctx.traces_validated += 1
    ctx.note_case(cfg_key(cfg), nontrivial=nontrivial(cfg, m),
                  sample=dict(route='direct', T=cfg['T'], F=len(cfg['data_freqs']), B=len(cfg['cps']),
                              products=[p['name'] for p in cfg['prods']], maps=m.get('maps'),
                              chunks=cfg['chunks'], nan_factors=int(np.isnan(m['corr']).sum())))
    ctx.count('route=direct')
    ctx.count('products=%d' % len(cfg['prods']))
    for k in m.get('maps', []):
        ctx.count('map=%s' % {0: 'broadcast', 1: 'direct', 2: 'nearest'}[k])
    ctx.count('nan_factor=%s' % bool(np.isnan(m['corr']).any()))
    ctx.count('zero_factor=%s' % bool((m['corr'] == 0).any()))


def cfg_key(cfg):
    import hashlib
    import json
    return hashlib.md5(json.dumps(cfg, sort_keys=True, default=str).encode()).hexdigest()


# --------------------------------------------------------------------------- v4 route
def _pow2(e):
    return [2.0 ** e, 0.0]


def gen_v4(rng, tier='quick'):
    """Exact stream: real positive power-of-two solutions (constant in time per input, NaN events / inputs /
    band edges), so every derived correction is an exact power of two, 1 or NaN."""
    n_ant = rng.randint(2, 3)
    ants = ['m%03d' % a for a in range(n_ant)]
    T, F = rng.randint(3, 7), rng.randint(3, 8)
    chan_w = 1048576.0
    cf = 1284e6
    mode = rng.choice(['same', 'shifted', 'other'])
    n_cal = F if mode != 'other' else rng.choice([k for k in range(2, F + 3) if k != F])
    shift = 0 if mode == 'same' else rng.choice([-2, -1, 1, 2])
    cal_bw = F * chan_w if mode != 'other' else F * chan_w * rng.choice([1, 1, 2])
    antlist = list(ants)
    rng.shuffle(antlist)
    pols = rng.choice([['v', 'h'], ['h', 'v']])
    types = rng.sample(['G', 'B', 'K'], rng.randint(1, 3))
    products = {}
    nan_input = (rng.randrange(2), rng.randrange(n_ant)) if rng.random() < 0.4 else None
    for t in types:
        exps = [[rng.randint(-3, 3) for _ in range(n_ant)] for _ in range(2)]
        cexp = [rng.randint(-1, 1) for _ in range(n_cal)]      # constant in time: interpolation stays exact
        g_with_chans = rng.random() < 0.4
        events = []
        for dump in sorted(rng.sample(range(-1, T), rng.randint(1, min(3, T + 1)))):
            if t == 'K':
                arr = [[(None if rng.random() < 0.2 else 0.0) for _ in range(n_ant)] for _ in range(2)]
            elif t == 'G' and not g_with_chans:
                arr = [[None if ((p, a) == nan_input or rng.random() < 0.1) else _pow2(exps[p][a])
                        for a in range(n_ant)] for p in range(2)]
            else:
                # B (and G with a channel axis): constant per input, NaN at band edges or whole inputs
                lo, hi = rng.randint(0, 1), n_cal - rng.randint(0, 1)
                if t == 'G':
                    arr = [[[None if (p, a) == nan_input else _pow2(exps[p][a] + cexp[k])
                             for a in range(n_ant)] for p in range(2)] for k in range(n_cal)]
                else:
                    arr = [[[None if ((p, a) == nan_input or not lo <= k < hi) else _pow2(exps[p][a])
                             for a in range(n_ant)] for p in range(2)] for k in range(n_cal)]
            events.append([dump, arr])
        products[t] = events
    cal = dict(antlist=antlist, pol_ordering=pols, center_freq=cf + shift * chan_w, bandwidth=cal_bw, n_chans=n_cal,
               products=products)
    applycal = ['l1.' + t for t in types]
    rng.shuffle(applycal)
    sel = {}
    if rng.random() < 0.7:
        a = rng.randrange(T)
        sel['dumps'] = [a, rng.randint(a + 1, T)]
    if rng.random() < 0.7:
        a = rng.randrange(F)
        sel['channels'] = [a, rng.randint(a + 1, F)]
    r = rng.random()
    if r < 0.3:
        sel['ants'] = rng.sample(ants, rng.randint(1, n_ant))
    elif r < 0.5:
        sel['pol'] = rng.choice(['hh', 'vv', 'hv', 'vh', 'h', 'v'])
    elif r < 0.6:
        sel['corrprods'] = rng.choice(['auto', 'cross'])
    return dict(route='v4', T=T, F=F, ants=ants, chan_w=chan_w, cf=cf, cal=cal, applycal=applycal, select=sel,
                seed=rng.randrange(10 ** 6), shuffle_bls=rng.random() < 0.5,
                chunks=[compositions(rng, T), compositions(rng, F)],
                index=[rng.choice([None, 1, 2]), rng.choice([None, 1, 2])])


def c13cal_shape(a):
    from fixtures import c13cal
    return c13cal._shape(a, 2)


def gen_invert(rng, tier='quick'):
    n_ant = rng.randint(2, 3)
    ants = ['m%03d' % a for a in range(n_ant)]
    T, F = rng.randint(2, 4), rng.randint(3, 8)
    chan_w = 1048576.0
    antlist = list(ants)
    rng.shuffle(antlist)
    pols = rng.choice([['v', 'h'], ['h', 'v']])
    types = rng.sample(['G', 'B', 'K'], rng.randint(1, 3))

    def cval():
        m, ph = rng.uniform(0.5, 2.0), rng.uniform(-math.pi, math.pi)
        return [m * math.cos(ph), m * math.sin(ph)]
    products = {}
    for t in types:
        if t == 'K':
            arr = [[rng.uniform(-2e-9, 2e-9) for _ in range(n_ant)] for _ in range(2)]
        elif t == 'G':
            arr = [[cval() for _ in range(n_ant)] for _ in range(2)]
        else:
            arr = [[[cval() for _ in range(n_ant)] for _ in range(2)] for _ in range(F)]
        products[t] = [[d, arr] for d in sorted(rng.sample(range(-1, T), rng.randint(1, 2)))]
    cal = dict(antlist=antlist, pol_ordering=pols, center_freq=1284e6, bandwidth=F * chan_w, n_chans=F,
               products=products)
    applycal = ['l1.' + t for t in types]
    rng.shuffle(applycal)
    return dict(route='invert', T=T, F=F, ants=ants, chan_w=chan_w, cf=1284e6, cal=cal, applycal=applycal,
                seed=rng.randrange(10 ** 6), shuffle_bls=rng.random() < 0.5,
                chunks=[compositions(rng, T), compositions(rng, F)])


def _build(vcfg, arrays=None):
    from fixtures import c13cal, v4
    T, F, ants = vcfg['T'], vcfg['F'], vcfg['ants']
    bls = v4.bls_ordering_for(ants)
    if vcfg.get('shuffle_bls'):
        import random
        random.Random(vcfg['seed']).shuffle(bls)
    ch = (tuple(vcfg['chunks'][0]), tuple(vcfg['chunks'][1]), (len(bls),))
    x = v4.build_v4(T=T, F=F, ants=ants, seed=vcfg['seed'], bandwidth=F * vcfg['chan_w'], center_freq=vcfg['cf'],
                    bls_ordering=bls, arrays=arrays, chunks={'correlator_data': ch},
                    telstate_hook=c13cal.cal_hook(vcfg['cal']), archived_override=['sdp_l0', 'cal'],
                    open_kwargs=dict(applycal=list(vcfg['applycal'])), tmp=v4.scratch_dir('c13'))
    return x, bls


def _read_corrections(d, ptype, inputs, T):
    out = []
    for inp in inputs:
        s = d.sensor.get('Calibration/Corrections/l1/%s/%s' % (ptype, inp))
        out.append([np.atleast_1d(np.asarray(s[t])).astype(np.complex64) for t in range(T)])
    return out


def run_v4(ctx, vcfg):
    from fixtures import c13cal, v4
    if vcfg['route'] == 'invert':
        return run_invert(ctx, vcfg)
    x = None
    try:
        try:
            x, bls = _build(vcfg)
            d = x.d
            raw = v4.reopen(x)
            T, F = vcfg['T'], vcfg['F']
            inputs = sorted({i for cp in bls for i in cp})
            prods = []
            for name in d.applycal_products:
                ptype = name.split('.')[1]
                corr = _read_corrections(d, ptype, inputs, T)
                cn = max(len(g) for per in corr for g in per)
                prods.append(dict(name=name, stream='l1', kb=int(ptype in 'KB'),
                                  own=1 if ptype in 'KB' else (0 if cn == 1 else 2), form='v4',
                                  cal_freqs=[q_wire(f) for f in c13cal.cal_channel_freqs(vcfg['cal'])],
                                  corr=[[[complex_to_wire(z) or None for z in g] for g in per] for per in corr]))
            if list(d.applycal_products) != list(vcfg['applycal']):
                ctx.disagree('route=v4;symptom=products_dropped', vcfg, list(d.applycal_products), vcfg['applycal'],
                             'applycal products differ from the requested ones')
            vis0, w0, f0 = raw.vis[:], raw.weights[:], raw.raw_flags[:]
            cfg = dict(route='direct', T=T, labels=inputs, cps=[[inputs.index(a), inputs.index(b)] for a, b in bls],
                       data_freqs=[q_wire(float(f)) for f in raw.channel_freqs], prods=prods,
                       chunks=[vcfg['chunks'][0], vcfg['chunks'][1], [len(bls)]],
                       vis=[[[complex_to_wire(z) or None for z in r] for r in t] for t in vis0],
                       weights=[[[list(float_to_dy(w)) for w in r] for r in t] for t in w0],
                       flags=f0.astype(int).tolist())
            sel = dict(vcfg.get('select', {}))
            kw = {}
            if 'dumps' in sel:
                kw['dumps'] = slice(*sel['dumps'])
            if 'channels' in sel:
                kw['channels'] = slice(*sel['channels'])
            for k in ('ants', 'pol', 'corrprods'):
                if k in sel:
                    kw[k] = sel[k]
            d.select(**kw)
            ix = np.ix_(d.dumps, d.channels, np.nonzero(d._corrprod_keep)[0])
            s1, s2 = [slice(None) if s is None else slice(None, None, s) for s in vcfg.get('index', [None, None])]
            impl = dict(vis=d.vis[s1, s2], weights=d.weights[s1, s2], flags=d.raw_flags[s1, s2])
            boolflags = d.flags[s1, s2]
        except Exception as e:
            ctx.disagree('route=v4;symptom=raises;exc=%s' % type(e).__name__, vcfg, repr(e)[:300], 'a result',
                         'opening / reading a data set with applycal raised')
            return
        mo = ctx.model([model_case(cfg)])[0] if ctx.model_ok else None
        m = model_arrays(cfg, mo) if mo is not None else fallback_arrays(cfg)
        msel = dict(m)
        for k in ('vis', 'weights', 'flags', 'spec_vis', 'spec_weights', 'spec_flags', 'vis_exact', 'w_exact', 'corr'):
            msel[k] = m[k][ix][s1, s2]
        report = dict(vcfg, derived=dict(maps=m.get('maps'), products=[p['name'] for p in prods]))
        compare(ctx, report if False else cfg_with(vcfg, cfg), impl, msel, 'v4')
        if not np.array_equal(boolflags, impl['flags'] != 0):
            ctx.disagree('route=v4;obs=boolflags', vcfg, None, None, 'flags differ from raw_flags != 0')
        ctx.traces_validated += 1
        ctx.note_case(cfg_key(vcfg), nontrivial=nontrivial(cfg, m),
                      sample=dict(route='v4', applycal=vcfg['applycal'], select=vcfg.get('select'), maps=m.get('maps'),
                                  cal_n_chans=vcfg['cal']['n_chans'], F=F, nan_factors=int(np.isnan(m['corr']).sum())))
        ctx.count('route=v4')
        for k in m.get('maps', []):
            ctx.count('v4map=%s' % {0: 'broadcast', 1: 'direct', 2: 'nearest'}[k])
        ctx.count('v4_nan_factor=%s' % bool(np.isnan(m['corr']).any()))
    finally:
        if x is not None:
            v4.cleanup(x)


class cfg_with(dict):
    """the replayable case is the v4 configuration; feature extraction needs the derived direct configuration."""
    def __init__(self, vcfg, cfg):
        super().__init__(vcfg)
        self._cfg = cfg

    def __getitem__(self, k):
        return self._cfg[k] if k == 'prods' else super().__getitem__(k)


def run_invert(ctx, vcfg):
    from fixtures import c13cal, v4
    T, F, ants = vcfg['T'], vcfg['F'], vcfg['ants']
    bls = v4.bls_ordering_for(ants)
    if vcfg.get('shuffle_bls'):
        import random
        random.Random(vcfg['seed']).shuffle(bls)
    B = len(bls)
    rs = np.random.RandomState(vcfg['seed'])
    clean = (rs.randint(-64, 64, size=(T, F, B)) + 1j * rs.randint(-64, 64, size=(T, F, B))).astype(np.complex128)
    cal = vcfg['cal']
    freqs = c13cal.cal_channel_freqs(cal)          # same channelisation as the data in this stream
    gain = {}
    for a_i, ant in enumerate(cal['antlist']):
        for p_i, pol in enumerate(cal['pol_ordering']):
            g = np.ones(F, np.complex128)
            for t, events in cal['products'].items():
                arr = events[0][1]
                if t == 'K':
                    g = g * np.exp(2j * np.pi * arr[p_i][a_i] * freqs)
                elif t == 'G':
                    g = g * complex(*arr[p_i][a_i])
                else:
                    g = g * np.array([complex(*arr[k][p_i][a_i]) for k in range(F)])
            gain[ant + pol] = g
    corrupt = clean.copy()
    for b, (i1, i2) in enumerate(bls):
        corrupt[:, :, b] *= (gain[i1] * np.conj(gain[i2]))[np.newaxis, :]
    x = None
    try:
        try:
            x, _ = _build(vcfg, arrays={'correlator_data': corrupt.astype(np.complex64)})
            got = x.d.vis[:].astype(np.complex128)
            prods_ok = list(x.d.applycal_products) == list(vcfg['applycal'])
        except Exception as e:
            ctx.disagree('route=invert;symptom=raises;exc=%s' % type(e).__name__, vcfg, repr(e)[:300], 'a result',
                         'opening / reading a data set with applycal raised')
            return
        tol = REL_TOL * np.maximum(np.abs(clean), 1.0) * (1 + len(vcfg['applycal']))
        err = np.maximum(np.abs(got.real - clean.real), np.abs(got.imag - clean.imag))
        bad = ~(err <= tol)
        if bad.any() or not prods_ok:
            at = tuple(int(v) for v in np.argwhere(bad)[0]) if bad.any() else None
            ctx.disagree('route=invert;symptom=not_restored', vcfg,
                         dict(at=at, value=str(got[at]) if at else None, products=list(x.d.applycal_products)),
                         dict(at=at, value=str(clean[at]) if at else None),
                         'data corrupted by known gains are not restored within %g relative' % REL_TOL)
        ctx.traces_validated += 1
        ctx.note_case(cfg_key(vcfg), nontrivial=True,
                      sample=dict(route='invert', applycal=vcfg['applycal'], max_rel_err=float((err / np.maximum(np.abs(clean), 1)).max())))
        ctx.count('route=invert')
        ctx.extra['invert_max_rel_err'] = max(ctx.extra.get('invert_max_rel_err', 0.0),
                                              float((err / np.maximum(np.abs(clean), 1)).max()))
    finally:
        if x is not None:
            v4.cleanup(x)


def run_case(ctx, cfg):
    if cfg.get('route') == 'direct':
        mo = ctx.model([model_case(cfg)])[0] if ctx.model_ok else None
        if mo == [-999]:
            ctx.disagree('route=direct;symptom=model_rejects_case', cfg, None, mo, 'wire format error', kind='tie')
            return
        run_direct(ctx, cfg, mo)
    else:
        run_v4(ctx, cfg)


def run(ctx):
    import random
    for f in ctx.findings:
        if f.get('witness'):
            run_case(ctx, f['witness'])
    n = ctx.scale(300, 5000)
    cfgs = [gen_direct(random.Random(ctx.rng.getrandbits(48)), ctx.tier) for _ in range(n)]
    mouts = ctx.model([model_case(c) for c in cfgs]) if ctx.model_ok else [None] * n
    for cfg, mo in zip(cfgs, mouts):
        if mo == [-999]:
            ctx.disagree('route=direct;symptom=model_rejects_case', cfg, None, mo, 'wire format error', kind='tie')
            continue
        run_direct(ctx, cfg, mo)
    for _ in range(ctx.scale(30, 400)):
        run_v4(ctx, gen_v4(random.Random(ctx.rng.getrandbits(48)), ctx.tier))
    for _ in range(ctx.scale(10, 100)):
        run_v4(ctx, gen_invert(random.Random(ctx.rng.getrandbits(48)), ctx.tier))
    # numpy's reciprocal of zero is NaN (the model's Cinv): probed on every run
    z = np.reciprocal(np.array([0, 2, 1j, 1 + 1j], np.complex64))
    mz = ctx.model([[13, [2, [0, 0, 0]]], [13, [2, [2, 0, 0]]], [13, [2, [0, 1, 0]]], [13, [2, [1, 1, 0]]]]) \
        if ctx.model_ok else None
    if mz is not None:
        got = [[] if np.isnan(v) else [q_wire(Fraction(float(v.real))), q_wire(Fraction(float(v.imag)))] for v in z]
        if got != mz:
            ctx.disagree('route=recip;symptom=reciprocal_differs', dict(route='recip'), got, mz,
                         'np.reciprocal(complex64) differs from the model Cinv', kind='tie')
    ctx.exhaustive = False


def replay(ctx, doc):
    run_case(ctx, doc.get('case', {}))
