"""C13 — Applying calibration: composition, invalid-gain handling and invertibility (correspondence + search).

Four streams (v4 and invert also reopen the same store with preselect=... and compare with the fully opened data set), all driven by explicit JSON-able configurations (a replay file carries the whole configuration):

direct   katdal.applycal.calc_correction on a SensorCache holding generated `Calibration/Corrections/...` sensors
         (ndarray and CategoricalData forms), then the three numba kernels through dask elemwise exactly as
         VisibilityDataV4._make_corrected does; compared for EQUALITY with the extracted Coq model (tie: block-wise
         evaluation over the same chunking) and the extracted Coq spec (property: pointwise product formula, the
         product's own channelisation).
v4       full data sets (fixtures.v4.build_v4 + a 'cal' stream in telstate, B optionally a multi-part "split cal"
         product whose parts have solutions at different times) opened with applycal=...; the correction sensors
         katdal derived from the solutions are read back and are the model's inputs (tie); the corrections the
         SOLUTIONS call for are derived independently by the harness (expected_corrections) and are the spec's
         inputs (property, end to end: a missing solution must leave vis as stored, weight 0, postproc); corrected
         vis / weights / raw flags under random selections and second-stage indexing are compared for equality.
         The same store reopened with preselect={'channels','dumps'} must equal the fully opened data set on the
         loaded dumps/channels and the spec on the loaded subset.
sol      cal SOLUTIONS (zero / NaN / inf / numbers, varying in time, per target) through katdal's own
         calc_gain_correction / calc_bandpass_correction / calc_delay_correction, the resulting correction sensors
         through calc_correction and the kernels; compared with the spec on the corrections the solutions call for
         (harness derivation cross-checked against Model/ApplycalSol.v, wire 131).
invert   v4 data sets whose stored visibilities were corrupted by known complex per-input gains, delays and
         bandpasses, same solutions at every dump: corrected vis within REL_TOL of the clean ones (the one clause of
         the property that says "to within single-precision rounding").
"""
import logging
import math
import warnings
from fractions import Fraction

import numpy as np

RULE = ('direct: 1-4 cal products from 1-2 streams (own channel counts and centre frequencies: equal to / within '
        '1 mHz of / shifted from / coarser or finer than the data channels), per-input per-dump per-channel '
        'corrections that are Gaussian dyadics (unit-group x 2^e with free weights, or small Gaussian integers/halves '
        'with weights matched so that the float32 division is exact), NaN and zero at random positions, ndarray or '
        'categorical sensors, shuffled/duplicated corrprod pairs, random chunkings on all three axes, a second '
        'chunking and a random loaded subset; in half of the cases the REQUEST also names products without correction '
        'sensors (for all inputs or for some of the inputs in use) before / between / after the present ones and '
        'repeated names, lenient (skip_missing_products) or strict; every direct case makes THREE calc_correction '
        'calls (main chunking, second chunking, data chunked [1, B-1] / [2, 1, B-3] on the baseline axis) whose '
        'corrections names (vs the model for the token, 32 hex digits, pairwise different), chunks and results are '
        'compared, all nine corrected arrays also computed in ONE dask graph; kernels: the three apply_*_correction '
        'kernels called directly on the corrections of the case with NaN as nan+nanj / nan+0j / 0+nanj / nan+1j / '
        '1+nanj; '
        'sol: solutions (zero / NaN / inf / powers of two; constant, varying in time, a zero at one solution time, '
        'dead inputs and channels, holes, all invalid, none at all; with or without channel axis; 1-3 targets) '
        'through calc_gain_correction / calc_bandpass_correction / calc_delay_correction, calc_correction and the '
        'kernels; v4: real positive power-of-two G / GPHASE / GAMP_PHASE (with or without channel axis, 1-3 targets), '
        'B (one value per input and solution time, NaN band edges / inputs / single solutions; single or split '
        'into 2-3 parts whose solution times are random subsets of a common set, parts absent altogether), '
        'K zero/NaN/inf solutions, zero solutions (dead input, dead cal channel, a zero at one solution time; forced '
        'in every sixth case), infinite solutions, an optional l2 self-cal stream with its own channelisation / '
        'antenna order (30%; possibly lacking an antenna), through katdal.open-equivalent data sets, shuffled '
        'bls_ordering, random selections; the request is strict, lenient (all / default / a stream / bare types with '
        'types lacking solutions before present ones / mixed / repeated; forced in two of six cases) or strict naming '
        'a missing product; the corrections every input must get are derived from the SOLUTIONS by the harness and '
        'the spec is evaluated on those over the products the REQUEST calls for; every sixth case has a multi-part B '
        'with a part lacking a solution another part has, every sixth is reopened with preselect on channels '
        '(+dumps), 60% of the rest with preselect (channels [a,b), dumps [a,b) or both), and compared with the fully '
        'opened one on the same dumps/channels; every v4 case with an applied product opens two more views of the '
        'store (one product fewer; without the first dump) and computes the corrected arrays of all views in one '
        'dask graph vs alone (flags only between views with the same preselection); invert: complex gains/delays/bandpasses, 75% also reopened with '
        'preselect.  A case is one configuration; non-trivial when at least one factor is finite and not 1 and '
        '(direct, v4) at least one factor is NaN or two products are combined; distinct by the whole configuration')
ASSUMPTIONS = ['correction values are finite or NaN (infinite corrections are outside the model: inf*0 is NaN in IEEE); '
               'infinite SOLUTIONS are inside (invalid)',
               'generated gains keep every complex64 product, |factor|^2 and the weight division exact in float32 '
               '(checked by the harness against a float64 evaluation); rounding is not verified',
               'v4 / sol streams: the spec (property) runs on corrections derived by the harness from the solutions '
               '(exact part of the calculators: at a solution, beyond the ends, between equal solutions, NaN / inf / '
               'zero structure; cross-checked against Model/ApplycalSol.v on every case); where the solutions only '
               'determine "a non-zero number" (strictly between two different solutions) katdal\'s value must be a '
               'finite non-zero number and the values of vis / weights it touches are not compared (flags are); '
               'general interpolation in time/frequency is C14',
               'the target of every dump (per-target interpolation of the self-cal products) is read from the data '
               'set opened without applycal (with the same preselect): katdal aligns target changes with scan starts',
               'the expansion of a request into <stream>.<type> names is the documented one (C14 verifies '
               '_normalise_cal_products); a product is available when its stream has solutions for it and a solution '
               'index for every antenna',
               'a preselected data set is generated only when every K/B product has a solution before the end of the '
               'loaded dumps (otherwise katdal has no sensor value and raises)',
               'invert stream tolerance: |corrected - clean| <= 2^-16 * (1 + number of products) * max(|clean|, 1) per component']

warnings.simplefilter('ignore')
logging.disable(logging.CRITICAL)

REL_TOL = 2.0 ** -16
TYPES = ['K', 'B', 'G', 'GPHASE', 'GAMP_PHASE']
UNITS = [(1, 0), (0, 1), (-1, 0), (0, -1), (1, 1), (1, -1), (-1, 1), (-1, -1)]


# --------------------------------------------------------------------------- dyadic helpers
def c_to_py(z):
    """[re, im, k] | None -> complex (exact) or nan."""
    if z is None:
        return complex(np.nan, np.nan)
    return complex(z[0] / 2.0 ** z[2], z[1] / 2.0 ** z[2])


def c_wire(z):
    return [] if z is None else [int(z[0]), int(z[1]), int(z[2])]


def float_to_dy(x):
    """exact float -> (n, k) with x = n / 2^k, k >= 0."""
    fr = Fraction(float(x))
    k = fr.denominator.bit_length() - 1
    return int(fr.numerator), k


def complex_to_wire(z):
    if np.isnan(z.real) or np.isnan(z.imag):
        return []
    if np.isinf(z.real) or np.isinf(z.imag):
        raise ValueError('infinite value is outside the model')
    (a, ka), (b, kb) = float_to_dy(z.real), float_to_dy(z.imag)
    k = max(ka, kb)
    return [a << (k - ka), b << (k - kb), k]


def q_wire(x):
    fr = Fraction(x)
    return [fr.numerator, fr.denominator]


def arr_c_from_model(a, shape):
    """nested [[n,d],[n,d]] | [] -> complex128 array + exactness mask."""
    out = np.empty(shape, np.complex128)
    exact = np.ones(shape, bool)
    it = np.nditer(out, flags=['multi_index'], op_flags=['writeonly'])
    for _ in it:
        i = it.multi_index
        v = a[i[0]][i[1]][i[2]]
        if not v:
            out[i] = complex(np.nan, np.nan)
        else:
            (n1, d1), (n2, d2) = v
            out[i] = complex(n1 / d1, n2 / d2)
            exact[i] = _dy(n1, d1) and _dy(n2, d2)
    return out, exact


def _dy(n, d):
    return d & (d - 1) == 0 and abs(n).bit_length() <= 50


def arr_q_from_model(a, shape):
    out = np.empty(shape, np.float64)
    exact = np.ones(shape, bool)
    for i in np.ndindex(*shape):
        n, d = a[i[0]][i[1]][i[2]]
        out[i] = n / d
        # exact in float32: dyadic with a 24-bit numerator
        exact[i] = d & (d - 1) == 0 and (n == 0 or (abs(n) >> (abs(n) & -abs(n)).bit_length() - 1).bit_length() <= 24)
    return out, exact


# --------------------------------------------------------------------------- SOLUTIONS -> corrections (harness mirror)
# A solution leaf is None (NaN: missing / flagged), 'inf' (an infinite value: invalid) or [re, im] (a number, zero
# included); K delays are None / 'inf' / a float.  This is the harness-side rendering of the exact part of
# calc_gain_correction / calc_bandpass_correction / calc_delay_correction (cross-checked against the Coq model
# Model/ApplycalSol.v, wire 131, for every case): complex_interp is exact at a node, beyond the ends and between
# equal values; strictly between two different values the result is only known to be a non-zero number (INEXACT).
INEXACT = 'x'
GAIN_TYPES = ('G', 'GPHASE', 'GAMP_PHASE')
NANC = complex(np.nan, np.nan)


def leaf_c(v):
    if v is None:
        return NANC
    if isinstance(v, str):
        return complex(np.inf, 0.0)
    return complex(v[0], v[1])


def leaf_wire(v):
    if v is None:
        return []
    if isinstance(v, str):
        return [0]
    return complex_to_wire(np.complex64(complex(v[0], v[1])))


def _fin(z):
    return np.isfinite(z.real) and np.isfinite(z.imag)


def py_cinterp(nodes, x, edges_invalid):
    """nodes: [(x, finite complex)] with increasing x -> complex | NaN | INEXACT."""
    if not nodes:
        return NANC
    if x < nodes[0][0]:
        return NANC if edges_invalid else nodes[0][1]
    for (x0, v0), (x1, v1) in zip(nodes, nodes[1:]):
        if x < x1:
            return v0 if (x == x0 or v0 == v1) else INEXACT
    return NANC if (edges_invalid and x > nodes[-1][0]) else nodes[-1][1]


def py_recip(v):
    if isinstance(v, str):
        return INEXACT
    if np.isnan(v) or v == 0:
        return NANC
    return complex(np.reciprocal(np.complex64(v)))


def py_gain(evs, T, targets=None):
    """evs: [(relative dump, [leaf per channel])] as seen by the data set, in time order -> [T][n_chans] entries."""
    nch = len(evs[0][1]) if evs else 1
    out = []
    for d in range(T):
        row = []
        for c in range(nch):
            nodes = [(e, leaf_c(v[c])) for e, v in evs
                     if _fin(leaf_c(v[c])) and (targets is None or targets[e] == targets[d])]
            row.append(py_recip(py_cinterp(nodes, d, False)))
        out.append(row)
    return out


def py_bandpass(cal_freqs, col, data_freqs):
    nodes = [(float(f), leaf_c(v)) for f, v in zip(cal_freqs, col) if _fin(leaf_c(v))]
    return [py_recip(py_cinterp(nodes, float(f), True)) for f in data_freqs]


def py_delay(v, data_freqs):
    if v is None or v == 0:
        return [complex(1.0, 0.0)] * len(data_freqs)
    if isinstance(v, str):
        return [NANC] * len(data_freqs)
    return [INEXACT] * len(data_freqs)


def entries_to_arrays(entries):
    """list of entries -> (complex64 values with 1 at INEXACT positions, INEXACT mask)."""
    mask = np.array([isinstance(v, str) for v in entries], bool)
    vals = np.array([1.0 if isinstance(v, str) else v for v in entries], np.complex64)
    return vals, mask


def wire_entries(entries):
    """the same list as wire 131 prints it: [] NaN | [[n,d],[n,d]] exact | [1] a non-zero number."""
    out = []
    for v in entries:
        if isinstance(v, str):
            out.append([1])
        elif np.isnan(v):
            out.append([])
        else:
            out.append([q_wire(Fraction(float(v.real))), q_wire(Fraction(float(v.imag)))])
    return out


# --------------------------------------------------------------------------- which products a request selects
# the documented expansion (katdal.open docstring / DataSet.applycal): 'all' = every cal stream, 'default' =
# l1.K, l1.B, l1.G, l2.GPHASE, a stream = its five product types, a bare type = that type in every stream,
# <stream>.<type> = itself; lenient (products without solutions are skipped) iff 'all' / 'default' / any bare name
DOC_TYPES = ['K', 'B', 'G', 'GPHASE', 'GAMP_PHASE']
DOC_DEFAULT = ['l1.K', 'l1.B', 'l1.G', 'l2.GPHASE']


def expand_request(request, streams):
    """-> (list of <stream>.<type>, lenient)"""
    if isinstance(request, str):
        if request == '':
            items = []
        elif request == 'all':
            items = list(streams)
        elif request == 'default':
            items = list(DOC_DEFAULT)
        else:
            items = [x.strip() for x in request.split(',')]
    else:
        items = list(request)
    lenient = request in ('all', 'default') or any('.' not in x for x in items)
    out = []
    for x in items:
        if '.' in x:
            out.append(x)
        elif x in streams:
            out += [x + '.' + t for t in DOC_TYPES]
        elif x in DOC_TYPES:
            out += [s + '.' + x for s in streams]
        else:
            raise ValueError(x)
    return out, lenient


def select_expected(names, lenient, available):
    """the products that must be applied: the requested ones that have corrections for every input, once, in the
    order of first mention; None = KeyError (strict request naming a product without solutions)."""
    out = []
    for n in names:
        if n in available:
            if n not in out:
                out.append(n)
        elif not lenient:
            return None
    return out


def check_selection_model(ctx, case, names, lenient, usable, tag):
    """Model/ApplycalSol.v on the same request (wire 131 op 4): -> (what the MODEL of the loop selects, or None when
    it raises / no model; names).  The harness-side expectation is cross-checked against the model's SPEC
    (spec_selected) - a tie of the harness derivation.  usable: {name: [has a sensor for input i]}"""
    if not ctx.model_ok:
        return False, None
    ids = {}
    for n in names:
        ids.setdefault(n, len(ids) + 1)
    back = {v: k for k, v in ids.items()}
    mo = ctx.model([[131, [4, int(lenient), [[ids[n], [int(b) for b in usable[n]]] for n in names]]]])[0]
    mine = select_expected(names, lenient, {n for n in names if all(usable[n])})
    if mo == [-999]:
        return False, None
    if not mo:
        if mine is not None and not lenient and all(all(usable[n]) for n in names):
            ctx.disagree('route=%s;symptom=harness_selection_differs_from_model' % tag, case, mine, mo,
                         'model raises on a strict request whose products are all usable', kind='tie')
        return True, None
    if mine is not None and mo[1] != [ids[n] for n in mine]:
        ctx.disagree('route=%s;symptom=harness_selection_differs_from_model' % tag, case, mine,
                     [back[i] for i in mo[1]], 'products to be selected: harness derivation differs from '
                     'Model/ApplycalSol.v spec_selected (requested %s)' % names, kind='tie')
    return True, [back[i] for i in mo[0]]

# --------------------------------------------------------------------------- python rendering of the SPEC
# (used to pick exact weights, as the fall-back when no model binary exists, and for the invert stream)
def py_factor(cfg):
    """Pointwise factor by the property statement: product over cal products, own channelisation (nearest)."""
    T, F = cfg['T'], len(cfg['data_freqs'])
    fd = [Fraction(*f) for f in cfg['data_freqs']]
    cps = cfg['cps']
    fac = np.ones((T, F, len(cps)), np.complex128)
    for p in cfg['prods']:
        corr = np.array([[[c_to_py(z) for z in g] for g in per_dump] for per_dump in p['corr']], np.complex128)
        own = [Fraction(0)] if p['own'] == 0 else fd if p['own'] == 1 else [Fraction(*f) for f in p['cal_freqs']]
        idx = [min(range(len(own)), key=lambda k: (abs(f - own[k]), k)) for f in fd]
        g = corr[:, :, idx]                       # input, dump, data channel
        for b, (i1, i2) in enumerate(cps):
            fac[:, :, b] *= g[i1] * np.conj(g[i2])
    return fac


def py_spec(cfg, fac=None):
    fac = py_factor(cfg) if fac is None else fac
    vis = np.array([[[c_to_py(z) for z in r] for r in t] for t in cfg['vis']], np.complex128)
    wts = np.array([[[w[0] / 2.0 ** w[1] for w in r] for r in t] for t in cfg['weights']], np.float64)
    fls = np.array(cfg['flags'], np.int64)
    nan = np.isnan(fac)
    sv = np.where(nan, vis, vis * np.where(nan, 1, fac))
    n2 = fac.real ** 2 + fac.imag ** 2
    with np.errstate(all='ignore'):
        sw = np.where(nan | (n2 == 0), 0.0, wts / np.where(nan | (n2 == 0), 1, n2))
    sf = np.where(nan, fls | 128, fls)
    return fac, sv, sw, sf


# --------------------------------------------------------------------------- generators
def compositions(rng, n, maxparts=3):
    if n == 0:
        return []
    k = rng.randint(1, min(maxparts, n))
    cuts = sorted(rng.sample(range(1, n), k - 1)) if k > 1 else []
    return [b - a for a, b in zip([0] + cuts, cuts + [n])]


def gen_freqs(rng, F):
    df = Fraction(rng.choice([1, 2, 4, Fraction(1, 2)]))
    f0 = rng.choice([100, 1000, 4096])
    fr = [Fraction(f0) + df * c for c in range(F)]
    if rng.random() < 0.15:
        fr.reverse()
    return fr, df


def gen_cal_freqs(rng, data, df, mode):
    F = len(data)
    lo, hi = min(data), max(data)
    if mode == 'same':
        return list(data)
    if mode == 'close':            # within 1 mHz (2^-10 Hz) of the data channels: np.allclose(atol=1e-3) holds
        return [f + Fraction(rng.choice([-1, 0, 1]), 1024) for f in data]
    if mode == 'shifted':          # same count, different centre
        s = rng.choice([-3, -2, -1, 1, 2, 3]) * df * rng.choice([1, Fraction(1, 2)])
        return [f + s for f in data]
    if mode == 'barely':           # same count, 2^-9 Hz away: allclose fails
        return [f + Fraction(1, 512) for f in data]
    n = rng.choice([k for k in range(1, F + 3) if k != F] or [F + 1])
    step = (hi - lo + df) / n
    start = lo - df / 2 + step / 2 + rng.choice([0, 0, df, -df])
    out = [start + step * k for k in range(n)]
    if any(f.denominator & (f.denominator - 1) for f in out):     # keep frequencies dyadic (exact in float64)
        out = [Fraction(math.floor(f * 4), 4) for f in out]
    return out


def gen_gain(rng, mode, budget):
    """one correction value [re, im, k]."""
    if mode == 'unit':
        a, b = rng.choice(UNITS)
        e = rng.randint(-2, 2)
        return [a << (e + 2), b << (e + 2), 2]
    while True:
        a, b = rng.randint(-budget, budget), rng.randint(-budget, budget)
        if a * a + b * b <= budget * budget:
            return [a, b, rng.choice([0, 0, 1])]


def gen_direct(rng, tier='quick', force=None):
    force = force or {}
    T = force.get('T', rng.randint(1, 5))
    F = force.get('F', rng.randint(1, 8))
    n_ant = rng.randint(1, 3)
    labels = ['m%03d%s' % (a, p) for a in range(n_ant) for p in 'hv']
    rng.shuffle(labels)
    ninp = len(labels)
    B = rng.randint(1, 10)
    cps = [[rng.randrange(ninp), rng.randrange(ninp)] for _ in range(B)]
    data, df = gen_freqs(rng, F)
    streams = rng.sample(['l1', 'l2'], rng.randint(1, 2))
    modes = force.get('cal_modes', ['same', 'close', 'shifted', 'barely', 'other', 'other', 'other'])
    cal = {s: gen_cal_freqs(rng, data, df, rng.choice(modes)) for s in streams}
    P = force.get('P', rng.choice([1, 1, 2, 2, 3, 4]))
    names = rng.sample([(s, t) for s in streams for t in TYPES], min(P, len(streams) * len(TYPES)))
    P = len(names)
    gmode = rng.choice(['unit', 'gauss'])
    # budget: |g|max^(2P) <= 4096 keeps every float32 operation exact
    budget = {1: 45, 2: 5, 3: 2, 4: 2}[P]
    p_nan = rng.choice([0, 0.02, 0.1, 0.3])
    p_zero = rng.choice([0, 0, 0.03])
    prods = []
    for (s, t) in names:
        kb = t in ('K', 'B')
        if kb:
            own, cn = 1, F
        elif rng.random() < 0.4:
            own, cn = 0, 1
        else:
            own, cn = 2, len(cal[s])
        const_time = rng.random() < 0.4
        nan_input = rng.randrange(ninp) if rng.random() < 0.2 else None
        corr = []
        for i in range(ninp):
            per = []
            for t_ in range(T):
                if const_time and t_ > 0 and rng.random() < 0.7:
                    per.append(per[-1])
                    continue
                g = []
                for _ in range(cn):
                    r = rng.random()
                    if i == nan_input or r < p_nan:
                        g.append(None)
                    elif r < p_nan + p_zero:
                        g.append([0, 0, 0])
                    else:
                        g.append(gen_gain(rng, gmode, budget))
                per.append(g)
            corr.append(per)
        form = rng.choice(['array', 'categorical'] + (['array1d'] if cn == 1 else []))
        prods.append(dict(name=s + '.' + t, stream=s, kb=int(kb), own=own, form=form,
                          cal_freqs=[q_wire(f) for f in cal[s]], corr=corr))
    vis = [[[[rng.randint(-64, 64), rng.randint(-64, 64), rng.choice([0, 1])] if rng.random() > 0.02 else None
             for _ in range(B)] for _ in range(F)] for _ in range(T)]
    flags = [[[rng.randrange(256) for _ in range(B)] for _ in range(F)] for _ in range(T)]
    cfg = dict(route='direct', T=T, labels=labels, cps=cps, data_freqs=[q_wire(f) for f in data], prods=prods,
               chunks=[compositions(rng, T), compositions(rng, F), compositions(rng, B, 2)],
               chunks2=[compositions(rng, T), compositions(rng, F)], gmode=gmode,
               vis=vis, flags=flags)
    # weights: free for unit-group gains, matched (2^j * |factor|^2) for general Gaussian gains
    wts = [[[[rng.randint(1, 64), rng.choice([0, 1, 2])] for _ in range(B)] for _ in range(F)] for _ in range(T)]
    if gmode == 'gauss':
        fac = py_factor(dict(cfg, weights=wts))
        n2 = fac.real ** 2 + fac.imag ** 2
        for i in np.ndindex(T, F, B):
            if np.isfinite(n2[i]) and n2[i] > 0:
                wts[i[0]][i[1]][i[2]] = list(float_to_dy(n2[i] * 2.0 ** rng.randint(-2, 3)))
    cfg['weights'] = wts
    cfg['subset'] = [sorted(rng.sample(range(T), rng.randint(1, T))), sorted(rng.sample(range(F), rng.randint(1, F))),
                     sorted(rng.sample(range(B), rng.randint(1, B)))]
    # the REQUEST handed to calc_correction: the products above plus, in half of the cases, products WITHOUT
    # correction sensors (for every input, or only for some) at random positions, and repeated names;
    # lenient (skip_missing_products=True) or strict (a product lacking a sensor is a KeyError)
    req = [dict(name=p['name'], has=[1] * ninp) for p in prods]
    skip = int(rng.random() < 0.3)
    if rng.random() < 0.5:
        used = {p['name'] for p in prods}
        unused = [(s, t) for s in streams for t in TYPES if s + '.' + t not in used]
        for (s_, t_) in rng.sample(unused, min(len(unused), rng.randint(1, 3))):
            has = [0] * ninp if rng.random() < 0.5 else [int(rng.random() < 0.6) for _ in range(ninp)]
            used = sorted({i for cp in cps for i in cp})
            if all(has[i] for i in used):
                has[rng.choice(used)] = 0          # only the inputs occurring in the corrprods are looked up
            req.insert(rng.randint(0, len(req)), dict(name=s_ + '.' + t_, has=has))
        if rng.random() < 0.3:
            req.insert(rng.randint(0, len(req)), dict(rng.choice(req)))
        skip = int(rng.random() < 0.85)
    exp = select_expected([r['name'] for r in req], True, {r['name'] for r in req if all(r['has'])})
    prods.sort(key=lambda p: exp.index(p['name']))
    cfg['request'] = req
    cfg['skip'] = skip
    return cfg


def direct_request(cfg):
    """-> (requested names, lenient, {name: [has a sensor for input i]})"""
    req = cfg.get('request') or [dict(name=p['name'], has=[1] * len(cfg['labels'])) for p in cfg['prods']]
    # calc_correction only looks up the inputs that occur in the corrprods
    used = sorted({i for cp in cfg['cps'] for i in cp})
    return ([r['name'] for r in req], bool(cfg.get('skip', 0)),
            {r['name']: [r['has'][i] for i in used] for r in req})


# --------------------------------------------------------------------------- model call
def model_case(cfg, only=None):
    prods = [[p['own'], p['kb'], p['cal_freqs'], [[[c_wire(z) for z in g] for g in per] for per in p['corr']]]
             for p in cfg['prods'] if only is None or p['name'] in only]
    return [13, [1, cfg['data_freqs'], prods, len(cfg['labels']), cfg['cps'], cfg['chunks'][0], cfg['chunks'][1],
                 [[[c_wire(z) for z in r] for r in t] for t in cfg['vis']],
                 cfg['weights'], cfg['flags']]]


def model_arrays(cfg, mo):
    T, F, B = cfg['T'], len(cfg['data_freqs']), len(cfg['cps'])
    sh = (T, F, B)
    res = dict(wf=bool(mo[0]), maps=[m[0] for m in mo[1]])
    res['corr'], _ = arr_c_from_model(mo[2], sh)
    res['vis'], res['vis_exact'] = arr_c_from_model(mo[3], sh)
    res['weights'], res['w_exact'] = arr_q_from_model(mo[4], sh)
    res['flags'] = np.array(mo[5], np.int64).reshape(sh)
    res['spec_vis'], _ = arr_c_from_model(mo[6], sh)
    res['spec_weights'], _ = arr_q_from_model(mo[7], sh)
    res['spec_flags'] = np.array(mo[8], np.int64).reshape(sh)
    return res


def fallback_arrays(cfg):
    fac, sv, sw, sf = py_spec(cfg)
    return dict(wf=True, maps=[], corr=fac, vis=sv, weights=sw, flags=sf, spec_vis=sv, spec_weights=sw,
                spec_flags=sf, vis_exact=np.ones(sv.shape, bool), w_exact=np.ones(sv.shape, bool), fallback=True)


# --------------------------------------------------------------------------- implementation: direct route
def same_c(a, b):
    """exact equality of complex arrays with NaN == NaN (any NaN component = NaN)."""
    na = np.isnan(a.real) | np.isnan(a.imag)
    nb = np.isnan(b.real) | np.isnan(b.imag)
    return (na & nb) | (~na & ~nb & (a == b))


def run_direct_impl(cfg, fill=None):
    import dask.array as da
    from katdal.applycal import (apply_flags_correction, apply_vis_correction, apply_weights_correction,
                                 calc_correction)
    from katdal.categorical import CategoricalData, ComparableArrayWrapper
    from katdal.sensordata import SensorCache
    T, F, B = cfg['T'], len(cfg['data_freqs']), len(cfg['cps'])
    cache = SensorCache({}, 100.0 + 2.0 * np.arange(T), 2.0)
    names, skip, usable = direct_request(cfg)
    has_all = {r['name']: r['has'] for r in cfg.get('request') or []}
    for n in names:
        # a product that is not applicable: correction sensors exist for some of the inputs only (or for none)
        if not all(usable[n]):
            for lab, h in zip(cfg['labels'], has_all[n]):
                if h:
                    cache['Calibration/Corrections/%s/%s/%s' % (tuple(n.split('.')) + (lab,))] = \
                        np.ones((T, 1), np.complex64)
    if fill is not None:
        fill(cache)                    # sol route: the correction sensors come from katdal's own calculators
    for p in ([] if fill is not None else cfg['prods']):
        s, t = p['name'].split('.')
        for lab, per in zip(cfg['labels'], p['corr']):
            arr = np.array([[c_to_py(z) for z in g] for g in per], np.complex64)       # (T, cn)
            # "not a number" = ANY component NaN (np.isnan of a complex): a third each nan+nanj, nan+0j, 0+nanj
            nanpos = np.argwhere(np.isnan(arr))
            for q, (a_, b_) in enumerate(nanpos):
                arr[a_, b_] = [complex(np.nan, np.nan), complex(np.nan, 0.0), complex(0.0, np.nan)][q % 3]
            if p['form'] == 'array1d':
                sensor = arr[:, 0].copy()
            elif p['form'] == 'categorical':
                ev = [0] + [k for k in range(1, T) if per[k] != per[k - 1]]
                sensor = CategoricalData([ComparableArrayWrapper(arr[k].copy()) for k in ev], ev + [T])
            else:
                sensor = arr
            cache['Calibration/Corrections/%s/%s/%s' % (s, t, lab)] = sensor
    corrprods = [(cfg['labels'][a], cfg['labels'][b]) for a, b in cfg['cps']]
    data_freqs = np.array([float(Fraction(*f)) for f in cfg['data_freqs']])
    cal_freqs = {p['stream']: np.array([float(Fraction(*f)) for f in p['cal_freqs']]) for p in cfg['prods']}
    for n in names:
        cal_freqs.setdefault(n.split('.')[0], data_freqs)
    vis = np.array([[[c_to_py(z) for z in r] for r in t] for t in cfg['vis']], np.complex64)
    wts = np.array([[[w[0] / 2.0 ** w[1] for w in r] for r in t] for t in cfg['weights']], np.float32)
    fls = np.array(cfg['flags'], np.uint8)
    out = {'names': [], 'joint': []}
    bsplit = [list(c) for c in cfg['chunks'][:2]] + [bl_split(B)]
    for key, chunks in (('main', cfg['chunks']), ('second', cfg['chunks2'] + [[B]]), ('blsplit', bsplit)):
        chunks = tuple(tuple(c) for c in chunks)
        final, corr = calc_correction(chunks, cache, corrprods, list(names), data_freqs, cal_freqs,
                                      **(dict(skip_missing_products=True) if skip else {}))
        out['final'] = list(final)
        if corr is not None:
            out['names'].append((key, corr.name, [list(c) for c in chunks], [list(c) for c in corr.chunks]))
        res = {}
        for nm, kern, arr in (('vis', apply_vis_correction, vis), ('weights', apply_weights_correction, wts),
                              ('flags', apply_flags_correction, fls)):
            darr = da.from_array(arr, chunks=chunks)
            # no product applicable: VisibilityDataV4 serves the stored data
            res[nm] = da.core.elemwise(kern, darr, corr, dtype=arr.dtype) if corr is not None else darr
        if corr is None:
            corr = da.ones((T, F, B), chunks=chunks, dtype=np.complex64)
        out['joint'].append((key, res))
        if key == 'main':
            out['corr'] = corr.compute(scheduler='synchronous')
            for nm in res:
                out[nm] = res[nm].compute(scheduler='synchronous')
        elif key == 'second':
            ts, cs, bs = cfg['subset']
            for nm in res:
                out['sub_' + nm] = res[nm][ts][:, cs][:, :, bs].compute(scheduler='synchronous')
        else:
            for nm in res:
                out['bl_' + nm] = res[nm].compute(scheduler='synchronous')
    # the arrays of the three calls evaluated in ONE dask graph (what dask.compute(a, b) / a store of several
    # arrays does): dask merges tasks with equal keys, so every call must have named its corrections differently
    try:
        flat = [(key, nm, res[nm]) for key, res in out['joint'] for nm in ('vis', 'weights', 'flags')]
        vals = da.compute(*[a for _, _, a in flat], scheduler='synchronous')
        out['joint'] = {(key, nm): v for (key, nm, _), v in zip(flat, vals)}
    except Exception as e:
        out['joint'] = e
    return out


def bl_split(B):
    """a chunking of the baseline axis of the DATA that is not a single chunk (when there are 2+ corrprods)"""
    return [B] if B < 2 else [1, B - 1] if B < 4 else [2, 1, B - 3]


def codes(text):
    return [ord(ch) for ch in text]


def check_names(ctx, case, route, named, sig_extra=''):
    """named: [(tag, name of the corrections array, products applied)] of the calc_correction calls of one case.
    (1) tie: the name is the model's (Model/ApplycalName.v, wire 132 op 1) for the token it ends in;
    (2) property over the history: no two calls share a name."""
    seen = {}
    for tag, name, final in named:
        tok = name.rsplit('-', 1)[1] if '-' in name else ''
        if ctx.model_ok:
            mo = ctx.model([[132, [1, codes(tok), [codes(n) for n in final]]]])[0]
            want = ''.join(chr(c) for c in mo[0]) if mo and mo != [-999] else None
            if mo == [-999] and ctx.searching:
                ctx.count('wire_132_not_in_driver_while_searching')     # the spec-side comparisons below still run
            elif want != name:
                ctx.disagree('route=%s;obs=corrections_name;vs=model;symptom=differs' % route + sig_extra, case, name,
                             want, 'dask name of the corrections array differs from the model', kind='tie')
        if tok and not (len(tok) == 32 and all(ch in '0123456789abcdef' for ch in tok)):
            ctx.disagree('route=%s;obs=corrections_name;symptom=token_not_uuid_hex' % route + sig_extra, case, name,
                         None, 'the per-call token is not 32 hex digits')
        if name in seen:
            ctx.disagree('route=%s;obs=corrections_name;symptom=shared_by_two_calls' % route + sig_extra, case,
                         dict(name=name, calls=[seen[name], tag]), 'one name per calc_correction call',
                         'two calc_correction calls (%s, %s) gave their corrections arrays the same dask name: '
                         'computed in one graph they are one array' % (seen[name], tag))
        seen[name] = tag
        ctx.count('corrections_name_token=%s' % bool(tok))


def run_kernels(ctx, cfg, impl, m):
    from katdal.applycal import apply_flags_correction, apply_vis_correction, apply_weights_correction
    corr = np.array(impl['corr'], np.complex64)
    forms = [complex(np.nan, np.nan), complex(np.nan, 0.0), complex(0.0, np.nan), complex(np.nan, 1.0),
             complex(1.0, np.nan)]
    nanpos = np.argwhere(np.isnan(corr))
    for q, ix in enumerate(nanpos):
        corr[tuple(ix)] = forms[q % len(forms)]
    vis = np.array([[[c_to_py(z) for z in r] for r in t] for t in cfg['vis']], np.complex64)
    wts = np.array([[[w[0] / 2.0 ** w[1] for w in r] for r in t] for t in cfg['weights']], np.float32)
    fls = np.array(cfg['flags'], np.uint8)
    try:
        got = dict(vis=apply_vis_correction(vis, corr), weights=apply_weights_correction(wts, corr),
                   flags=apply_flags_correction(fls, corr))
    except Exception as e:
        ctx.disagree('route=kernels;symptom=raises;exc=%s' % type(e).__name__, cfg, repr(e)[:300], 'a result',
                     'apply_*_correction(data, correction) raised')
        return
    compare(ctx, cfg, got, m, 'kernels')
    if not np.array_equal(fls, np.array(cfg['flags'], np.uint8)):
        ctx.disagree('route=kernels;obs=flags;symptom=input_modified', cfg, None, None,
                     'apply_flags_correction modified its input array')
    ctx.count('kernels_nan_forms=%d' % min(len(nanpos), len(forms)))
    ctx.traces_validated += 1


def features(cfg, m):
    kinds = {0: 'broadcast', 1: 'direct', 2: 'nearest'}
    maps = sorted({kinds[k] for k in m.get('maps', [])})
    cause = 'other'
    for p, k in zip(cfg['prods'], m.get('maps', [])):
        if p['own'] == 1 and k == 2:
            cause = 'kb_corrections_on_data_channels_mapped_by_cal_stream_freqs'
    return maps, cause


def compare(ctx, cfg, impl, m, route, sides=('model', 'spec'), spec_name='spec', tag=''):
    """impl: dict corr/vis/weights/flags arrays for the full (or selected) grid; m: model arrays on the same grid.
    spec_name / tag: how the spec side is called in the signature and an extra shape suffix (v4 stream: the spec
    is evaluated on corrections derived from the SOLUTIONS by the harness, not on those katdal derived)."""
    maps, cause = features(cfg, m)
    ok = True
    case = cfg
    for obs, cmpf in (('vis', same_c), ('weights', None), ('flags', None), ('corr', same_c)):
        if obs not in impl:
            continue
        a = impl[obs]
        for side, key, kind in (('model', obs, 'tie'), ('spec', 'spec_' + obs, 'property')):
            if side not in sides or key not in m or (m.get('fallback') and side == 'model'):
                continue
            b = m[key]
            if a.shape != b.shape:
                ctx.disagree('route=%s;obs=%s;symptom=shape' % (route, obs), case, list(a.shape), list(b.shape),
                             'shape of corrected %s differs' % obs, kind=kind)
                ok = False
                continue
            if cmpf is not None:
                eq = cmpf(a.astype(np.complex128), b)
                if obs == 'vis':
                    eq |= ~m['vis_exact']
            elif obs == 'weights':
                eq = (a.astype(np.float64) == b) | ~m['w_exact']
            else:
                eq = a.astype(np.int64) == b
            if not eq.all():
                at = tuple(int(x) for x in np.argwhere(~eq)[0])
                sym = 'nan_mismatch' if (cmpf is not None and (np.isnan(a[at]) != np.isnan(b[at]))) else 'wrong_value'
                if side == 'spec' and tag and obs != 'corr' and np.isnan(m['corr'][at]):
                    sym = 'not_left_as_invalid_where_solution_missing'
                sig = 'route=%s;obs=%s;vs=%s;symptom=%s;cause=%s' % (route, obs, spec_name if side == 'spec' else side,
                                                                    sym, (cause if side == 'spec' else 'tie')) + tag
                ctx.disagree(sig, case, dict(at=at, value=str(a[at])), dict(at=at, value=str(b[at])),
                             'corrected %s differs from the %s at %s (maps %s)' % (obs, side, at, maps),
                             spec=str(m['spec_' + obs][at]) if 'spec_' + obs in m else None, kind=kind)
                ok = False
    return ok


def nontrivial(cfg, m):
    fac = m['corr']
    nan = np.isnan(fac)
    fin = ~nan & (fac != 1)
    return bool(fin.any() and (nan.any() or len(cfg['prods']) > 1))


def run_direct(ctx, cfg, mo):
    m = model_arrays(cfg, mo) if mo is not None else fallback_arrays(cfg)
    names, skip, usable = direct_request(cfg)
    want = select_expected(names, skip, {n for n in names if all(usable[n])})
    has_model, msel = check_selection_model(ctx, cfg, names, skip, usable, 'direct')
    shape = 'lenient=%d;missing=%s' % (skip, 'none' if all(all(usable[n]) for n in names) else
                                       ('last' if all(all(usable[n]) for n in names[:len(want or names)]) else 'before_present'))
    try:
        impl = run_direct_impl(cfg)
    except Exception as e:
        if want is None and isinstance(e, KeyError):
            ctx.traces_validated += 1
            ctx.count('route=direct;strict_request_missing_product=KeyError')
            return
        if m['wf']:
            ctx.disagree('route=direct;symptom=raises;exc=%s;%s' % (type(e).__name__, shape), cfg, repr(e)[:300],
                         'a result', 'calc_correction / kernels raised on a well-formed configuration')
        return
    if not m['wf']:
        return
    if want is None:
        ctx.disagree('route=direct;obs=products;symptom=strict_request_did_not_raise', cfg, impl['final'], 'KeyError',
                     'calc_correction(skip_missing_products=False) returned although a requested product lacks a '
                     'correction sensor')
        return
    if impl['final'] != want:
        ctx.disagree('route=direct;obs=products;vs=spec;symptom=%s;%s'
                     % ('products_dropped' if set(impl['final']) < set(want) else 'wrong_products', shape), cfg,
                     impl['final'], want, 'calc_correction applies %s, the request %s with usable products %s calls '
                     'for %s' % (impl['final'], names, sorted(n for n in names if all(usable[n])), want))
    if has_model and msel is not None and impl['final'] != msel:
        ctx.disagree('route=direct;obs=products;vs=model;symptom=wrong_products;%s' % shape, cfg, impl['final'], msel,
                     'products applied differ from the model of the loop', kind='tie')
    if has_model and msel is not None and msel != want and mo is not None:
        # the (faithful) model of the loop selects other products than the spec: tie on those, property on the spec's
        mt = model_arrays(cfg, ctx.model([model_case(cfg, only=set(msel))])[0])
        compare(ctx, cfg, impl, mt, 'direct', sides=('model',))
        compare(ctx, cfg, impl, m, 'direct', sides=('spec',))
    else:
        compare(ctx, cfg, impl, m, 'direct')
    # chunk independence / loaded subset on the implementation itself
    ts, cs, bs = cfg['subset']
    ix = np.ix_(ts, cs, bs)
    for nm in ('vis', 'weights', 'flags'):
        a, b = impl['sub_' + nm], impl[nm][ix]
        eq = same_c(a, b) if nm == 'vis' else a == b
        if a.shape != b.shape or not np.all(eq):
            ctx.disagree('route=direct;obs=%s;symptom=chunking_or_subset_dependent' % nm, cfg, str(a.tolist())[:200],
                         str(b.tolist())[:200], 'second chunking + loaded subset differs from the full result')
    # the three kernels called directly (public entry points apply_*_correction(data, correction)) on katdal's own
    # corrections array in which "not a number" takes all forms np.isnan accepts: nan+nanj, nan+0j, 0+nanj, nan+1j,
    # 1+nanj (through calc_correction only nan+nanj reaches them, as a product with NaN has both components NaN)
    run_kernels(ctx, cfg, impl, m)
    for nm in ('vis', 'weights', 'flags'):
        a, b = impl['bl_' + nm], impl[nm]
        if a.shape != b.shape or not np.all(same_c(a, b) if nm == 'vis' else a == b):
            ctx.disagree('route=direct;obs=%s;symptom=baseline_chunking_dependent' % nm, cfg, str(a.tolist())[:200],
                         str(b.tolist())[:200], 'data chunked on the baseline axis gives another result')
    for key, name, dchunks, cchunks in impl['names']:
        if ctx.model_ok:
            mo = ctx.model([[132, [2] + dchunks]])[0]
            if mo == [-999] and ctx.searching:
                ctx.count('wire_132_not_in_driver_while_searching')
            elif mo != cchunks:
                ctx.disagree('route=direct;obs=corrections_chunks;vs=model;symptom=differs', cfg, cchunks, mo,
                             'chunks of the corrections array differ from the model', kind='tie')
        if cchunks[:2] != dchunks[:2] or len(cchunks[2]) != 1 or sum(cchunks[2]) != sum(dchunks[2]):
            ctx.disagree('route=direct;obs=corrections_chunks;vs=spec;symptom=differs', cfg, cchunks, dchunks,
                         'corrections array not chunked like the data in time and frequency / not one chunk of the '
                         'same extent on the baseline axis')
        ctx.count('direct_data_baseline_chunks=%d' % len(dchunks[2]))
    check_names(ctx, cfg, 'direct', [(key, name, impl['final']) for key, name, _, _ in impl['names']])
    if isinstance(impl['joint'], Exception):
        ctx.disagree('route=direct;obs=joint_compute;symptom=raises;exc=%s' % type(impl['joint']).__name__, cfg,
                     repr(impl['joint'])[:300], 'a result',
                     'the corrected arrays of three calc_correction calls computed in one dask graph raised')
    else:
        single = {('main', nm): impl[nm] for nm in ('vis', 'weights', 'flags')}
        single.update({('blsplit', nm): impl['bl_' + nm] for nm in ('vis', 'weights', 'flags')})
        for (key, nm), b in single.items():
            a = impl['joint'][(key, nm)]
            if a.shape != b.shape or not np.all(same_c(a, b) if nm == 'vis' else a == b):
                ctx.disagree('route=direct;obs=joint_compute;arr=%s;symptom=differs_from_separate_compute' % nm, cfg,
                             str(a.tolist())[:200], str(b.tolist())[:200],
                             'corrected %s of call %s computed in one dask graph with the other calls differs from '
                             'computing it alone' % (nm, key))
                break
    ctx.traces_validated += 1
    ctx.note_case(cfg_key(cfg), nontrivial=nontrivial(cfg, m),
                  sample=dict(route='direct', T=cfg['T'], F=len(cfg['data_freqs']), B=len(cfg['cps']),
                              products=[p['name'] for p in cfg['prods']], maps=m.get('maps'),
                              chunks=cfg['chunks'], nan_factors=int(np.isnan(m['corr']).sum())))
    ctx.count('route=direct')
    ctx.count('products=%d' % len(cfg['prods']))
    ctx.count('direct_request:' + shape)
    for k in m.get('maps', []):
        ctx.count('map=%s' % {0: 'broadcast', 1: 'direct', 2: 'nearest'}[k])
    ctx.count('nan_factor=%s' % bool(np.isnan(m['corr']).any()))
    ctx.count('zero_factor=%s' % bool((m['corr'] == 0).any()))


# --------------------------------------------------------------------------- sol route: calculators -> kernels
def gen_sol(rng, tier='quick'):
    """Solutions (zero / NaN / inf / numbers, varying in time, with or without a channel axis, per target) through
    katdal's own calc_gain_correction / calc_bandpass_correction / calc_delay_correction, the resulting correction
    sensors through calc_correction and the three kernels."""
    T = rng.randint(2, 6)
    F = rng.randint(1, 6)
    n_ant = rng.randint(1, 2)
    labels = ['m%03d%s' % (a, p) for a in range(n_ant) for p in 'hv']
    rng.shuffle(labels)
    ninp = len(labels)
    B = rng.randint(1, 6)
    cps = [[rng.randrange(ninp), rng.randrange(ninp)] for _ in range(B)]
    data, df = gen_freqs(rng, F)
    data.sort()
    mode = rng.choice(['same', 'same', 'shifted', 'other'])
    if mode == 'same':
        cal = list(data)
    elif mode == 'shifted':
        sh = rng.choice([-2, -1, 1, 2]) * df
        cal = [f + sh for f in data]
    else:
        cal = sorted(gen_cal_freqs(rng, data, df, 'other'))
        if len(set(cal)) != len(cal):
            cal = list(data)                   # np.interp needs strictly increasing abscissae
    targets = None
    if rng.random() < 0.6:
        targets = [0]
        for _ in range(T - 1):
            targets.append(targets[-1] if rng.random() < 0.6 else rng.choice([k for k in range(3) if k != targets[-1]]))
    types = rng.sample(TYPES, rng.randint(1, 3))
    prods = []

    def leaf(e):
        return [2.0 ** e, 0.0]

    def bad():
        return 'inf' if rng.random() < 0.3 else None
    for t in types:
        hold = t in ('K', 'B')
        n_ev = rng.randint(1, min(3, T))
        evs = sorted(rng.sample(range(T), n_ev))
        if hold:
            evs[0] = 0
        elif rng.random() < 0.08:
            evs = []           # a gain product without any solution inside the data: only the placeholder
        nch = 1 if (t not in GAIN_TYPES and t != 'B') else (len(cal) if (t == 'B' or rng.random() < 0.3) else 1)
        per_input = []
        for _ in range(ninp):
            e0 = rng.randint(-2, 2)
            style = rng.choice(['const', 'const', 'dead', 'varying', 'zero_once', 'zero_once', 'all_invalid', 'holes'])
            zero_at = rng.choice(evs) if evs else None
            dead_ch = rng.randrange(nch) if rng.random() < 0.3 else None
            vals = []
            for d in evs:
                if t == 'K':
                    vals.append(bad() if rng.random() < 0.25 else 0.0)
                    continue
                vec = []
                for c in range(nch):
                    if style == 'all_invalid' or (style == 'holes' and rng.random() < 0.4):
                        vec.append(bad())
                    elif style == 'dead' or (style == 'zero_once' and d == zero_at) or c == dead_ch:
                        vec.append([0.0, 0.0])
                    elif style == 'varying':
                        vec.append(leaf(e0 + rng.randint(-1, 1)))
                    else:
                        vec.append(leaf(e0))
                if t == 'B' and nch > 2 and rng.random() < 0.5:
                    vec[0] = bad()                                  # band edges
                    if rng.random() < 0.5:
                        vec[-1] = bad()
                vals.append(vec)
            per_input.append(vals)
        prods.append(dict(name='l1.' + t, type=t, dumps=evs, values=per_input))
    vis = [[[[rng.randint(-64, 64), rng.randint(-64, 64), rng.choice([0, 1])] if rng.random() > 0.02 else None
             for _ in range(B)] for _ in range(F)] for _ in range(T)]
    flags = [[[rng.randrange(256) for _ in range(B)] for _ in range(F)] for _ in range(T)]
    wts = [[[[rng.randint(1, 64), rng.choice([0, 1, 2])] for _ in range(B)] for _ in range(F)] for _ in range(T)]
    return dict(route='sol', T=T, labels=labels, cps=cps, data_freqs=[q_wire(f) for f in data],
                cal_freqs=[q_wire(f) for f in cal], targets=targets, products=prods,
                chunks=[compositions(rng, T), compositions(rng, F), [B]], chunks2=[compositions(rng, T), compositions(rng, F)],
                vis=vis, flags=flags, weights=wts,
                subset=[sorted(rng.sample(range(T), rng.randint(1, T))), sorted(rng.sample(range(F), rng.randint(1, F))),
                        sorted(rng.sample(range(B), rng.randint(1, B)))])


def _sol_fill(cfg, got):
    """-> fill(cache): run katdal's correction calculators on the solution sensors and register the results."""
    from katdal import applycal
    from katdal.categorical import CategoricalData, ComparableArrayWrapper
    T = cfg['T']
    data_freqs = np.array([float(Fraction(*f)) for f in cfg['data_freqs']])
    cal_freqs = np.array([float(Fraction(*f)) for f in cfg['cal_freqs']])
    tsens = None
    if cfg['targets'] is not None:
        tg = cfg['targets']
        ev = [0] + [k for k in range(1, T) if tg[k] != tg[k - 1]]
        tsens = CategoricalData([tg[k] for k in ev], ev + [T])

    def fill(cache):
        for p in cfg['products']:
            t = p['type']
            got[t] = []
            for lab, vals in zip(cfg['labels'], p['values']):
                values, events = [], list(p['dumps'])
                for v in vals:
                    if t == 'K':
                        arr = np.array([[np.nan if v is None else (np.inf if isinstance(v, str) else v)]], np.float64)
                    else:
                        col = np.array([leaf_c(x) for x in v], np.complex64)
                        arr = col.reshape(len(v), 1, 1) if (t == 'B' or len(v) > 1) else col.reshape(1, 1)
                    values.append(ComparableArrayWrapper(arr))
                if not events or events[0] != 0:
                    # what the sensor cache serves before the first gain solution
                    values.insert(0, applycal.INVALID_GAIN)
                    events.insert(0, 0)
                sensor = CategoricalData(values, events + [T])
                if t == 'K':
                    corr = applycal.calc_delay_correction(sensor, (0, 0), data_freqs)
                elif t == 'B':
                    corr = applycal.calc_bandpass_correction(sensor, (0, 0), data_freqs, cal_freqs)
                elif t == 'G':
                    corr = applycal.calc_gain_correction(sensor, (0, 0))
                else:
                    corr = applycal.calc_gain_correction(sensor, (0, 0), tsens)
                cache['Calibration/Corrections/l1/%s/%s' % (t, lab)] = corr
                got[t].append([np.atleast_1d(np.asarray(corr[d])).astype(np.complex64) for d in range(T)])
    return fill


def run_sol(ctx, cfg):
    T, F, B = cfg['T'], len(cfg['data_freqs']), len(cfg['cps'])
    data_freqs = np.array([float(Fraction(*f)) for f in cfg['data_freqs']])
    cal_freqs = np.array([float(Fraction(*f)) for f in cfg['cal_freqs']])
    names = [p['name'] for p in cfg['products']]
    # what the solutions call for
    want, wmask, cases, mine = {}, {}, [], []
    for p in cfg['products']:
        per_input, per_mask = [], []
        for vals in p['values']:
            rows = derive_input(p['type'], list(zip(p['dumps'], vals)), T, data_freqs, cal_freqs, cfg['targets'],
                                cases, mine)
            arrs = [entries_to_arrays(r) for r in rows]
            per_input.append([a[0] for a in arrs])
            per_mask.append([a[1] for a in arrs])
        want[p['type']], wmask[p['type']] = per_input, per_mask
    if ctx.model_ok:
        for k, mo in enumerate(ctx.model(cases)):
            if mo != mine[k]:
                ctx.disagree('route=sol;symptom=harness_corrections_differ_from_model', cfg, mine[k], mo,
                             'corrections derived from the solutions: harness derivation differs from '
                             'Model/ApplycalSol.v (wire 131 op %d)' % cases[k][1][0], kind='tie')
                return
    dcfg = dict(cfg, route='direct', prods=[dict(name=n, stream='l1', cal_freqs=cfg['cal_freqs']) for n in names])
    got = {}
    try:
        impl = run_direct_impl(dcfg, fill=_sol_fill(cfg, got))
    except Exception as e:
        ctx.disagree('route=sol;symptom=raises;exc=%s' % type(e).__name__, cfg, repr(e)[:300], 'a result',
                     'correction calculators / calc_correction / kernels raised')
        return
    kinds = set()
    for p in cfg['products']:
        t = p['type']
        bad = _same_corrections(got[t], want[t], wmask[t])
        if bad is not None:
            ctx.disagree('route=sol;obs=corrections_from_solutions;type=%s;symptom=%s' % (t, bad[2]), cfg,
                         dict(input=cfg['labels'][bad[0]], dump=bad[1], value=str(got[t][bad[0]][bad[1]])),
                         dict(value=str(want[t][bad[0]][bad[1]])),
                         'correction of %s for %s at dump %d differs from what the solutions call for'
                         % (t, cfg['labels'][bad[0]], bad[1]))
        for vals in p['values']:
            for v in vals:
                for x in (v if isinstance(v, list) and v and isinstance(v[0], (list, str, type(None))) else [v]):
                    kinds.add('zero' if x in ([0.0, 0.0],) else 'inf' if isinstance(x, str) else
                              'nan' if x is None else 'number')
    base = dict(cfg, route='direct', prods=[])
    scfg, ms = _spec_on(ctx, base, want, wmask, got, names, cal_freqs)
    compare(ctx, cfg_with(cfg, scfg), impl, ms, 'sol', sides=('spec',), spec_name='spec_from_solutions', tag=';sol')
    ts, cs, bs = cfg['subset']
    ix = np.ix_(ts, cs, bs)
    for nm in ('vis', 'weights', 'flags'):
        a, b = impl['sub_' + nm], impl[nm][ix]
        eq = same_c(a, b) if nm == 'vis' else a == b
        if a.shape != b.shape or not np.all(eq):
            ctx.disagree('route=sol;obs=%s;symptom=chunking_or_subset_dependent' % nm, cfg, str(a.tolist())[:200],
                         str(b.tolist())[:200], 'second chunking + loaded subset differs from the full result')
    ctx.traces_validated += 1
    ctx.note_case(cfg_key(cfg), nontrivial=bool(np.isnan(ms['corr']).any() and (~np.isnan(ms['corr'])).any()),
                  sample=dict(route='sol', T=T, F=F, products=names, targets=cfg['targets'],
                              nan_factors=int(np.isnan(ms['corr']).sum()), inexact=ms.get('tainted', 0)))
    ctx.count('route=sol')
    for k in sorted(kinds):
        ctx.count('sol_solution_kind=' + k)
    ctx.count('sol_nan_factor=%s' % bool(np.isnan(ms['corr']).any()))
    ctx.count('sol_inexact_factor=%s' % bool(ms.get('tainted')))
    ctx.count('sol_targets=%s' % ('none' if cfg['targets'] is None else len(set(cfg['targets']))))


def cfg_key(cfg):
    import hashlib
    import json
    return hashlib.md5(json.dumps(cfg, sort_keys=True, default=str).encode()).hexdigest()


# --------------------------------------------------------------------------- v4 route
def _pow2(e):
    return [2.0 ** e, 0.0]


def gen_request(rng, avail, streams, force=None):
    """how the user asks for calibration: strict (fully qualified names of products that exist), lenient ('all',
    'default', a stream, bare product types - products without solutions listed before / between / after the
    present ones, repeated names, qualified names mixed in), or strict naming a product without solutions.
    avail: the <stream>.<type> names that have solutions (in a fixed order)."""
    missing = [s_ + '.' + t for s_ in streams for t in DOC_TYPES if s_ + '.' + t not in avail]
    kind = force or rng.choice(['strict'] * 6 + ['group'] * 3 + ['types'] * 7 + ['mixed'] * 2 + ['strict_missing'])
    if force is None and rng.random() < 0.04:
        return rng.choice(['', []]), 'none'                 # no calibration asked for: the stored data
    if kind == 'strict_missing' and not missing:
        kind = 'types'
    if kind in ('strict', 'mixed') and not avail:
        kind = 'types'
    if kind == 'strict':
        req = list(avail)
        rng.shuffle(req)
    elif kind == 'group':
        return rng.choice(['all', 'default'] + list(streams)), kind
    elif kind == 'types':
        req = rng.sample(DOC_TYPES, rng.randint(1, 5))
        mt = sorted({n.split('.')[1] for n in missing})
        at = sorted({n.split('.')[1] for n in avail})
        if mt and at and rng.random() < 0.6:
            # a type without solutions (in some stream) listed BEFORE one that has them
            m, a = rng.choice(mt), rng.choice(at)
            if m != a:
                req = [x for x in req if x not in (m, a)]
                k = rng.randint(0, len(req))
                req.insert(k, m)
                req.insert(rng.randint(k + 1, len(req)), a)
        if rng.random() < 0.2:
            req.insert(rng.randint(0, len(req)), rng.choice(req))
    elif kind == 'mixed':
        req = rng.sample(DOC_TYPES, rng.randint(1, 3)) + rng.sample(avail, rng.randint(1, len(avail)))
        if rng.random() < 0.3:
            req.append(rng.choice(list(streams)))
        if rng.random() < 0.2:
            req.append('l1.X')                               # a qualified name of an unknown type: no solutions
        rng.shuffle(req)
    else:
        req = list(avail) + [rng.choice(missing)]
        rng.shuffle(req)
    return (','.join(req) if rng.random() < 0.5 else req), kind


def gen_l2(rng, T, F, ants, chan_w, cf, p_zero):
    """A self-cal stream with its OWN channelisation (1 .. F+2 channels, own centre and bandwidth), antenna and
    polarisation order: gain-type products only, constant in time per input, with NaN / inf / zero solutions."""
    n_ant = len(ants)
    n_cal = rng.choice([1, 2, 3, F, F + 1, F + 2])
    antlist = list(ants)
    rng.shuffle(antlist)
    if n_ant > 2 and rng.random() < 0.12:
        antlist = antlist[:-1]             # an antenna without self-cal solutions: no product of the stream is usable
    products = {}
    for t in rng.sample(['GPHASE', 'GPHASE', 'GAMP_PHASE', 'G'], rng.randint(1, 2)):
        if t in products:
            continue
        exps = [[rng.randint(-2, 2) for _ in range(n_ant)] for _ in range(2)]
        cexp = [rng.randint(-1, 1) for _ in range(n_cal)]
        with_chans = n_cal > 1 and rng.random() < 0.6
        pa = [(p, a) for p in range(2) for a in range(len(antlist))]
        dead = rng.choice(pa) if rng.random() < p_zero * 0.5 else None
        nan_in = rng.choice(pa) if rng.random() < 0.2 else None
        events = []
        for dump in sorted(rng.sample(range(-1, T), rng.randint(1, min(3, T + 1)))):
            def val(p, a, k):
                if (p, a) == nan_in or rng.random() < 0.05:
                    return 'inf' if rng.random() < 0.3 else None
                return [0.0, 0.0] if (p, a) == dead else _pow2(exps[p][a] + (cexp[k] if with_chans else 0))
            if with_chans:
                arr = [[[val(p, a, k) for a in range(len(antlist))] for p in range(2)] for k in range(n_cal)]
            else:
                arr = [[val(p, a, 0) for a in range(len(antlist))] for p in range(2)]
            events.append([dump, arr])
        products[t] = events
    return dict(antlist=antlist, pol_ordering=rng.choice([['v', 'h'], ['h', 'v']]),
                center_freq=cf + rng.choice([-1, 0, 0, 1]) * chan_w * rng.choice([1, 0.5]),
                bandwidth=F * chan_w * rng.choice([1, 1, 2]), n_chans=n_cal, products=products)


def gen_v4(rng, tier='quick', force=None):
    """Exact stream: real positive power-of-two solutions (gain types constant in time per input; B constant over
    the band per input and solution time; NaN / infinite events / inputs / band edges; ZERO solutions: dead inputs,
    dead channels, a zero at one solution time; K zero, NaN or infinite), so that every correction is an exact power
    of two, 1 or NaN (or, at marked positions, only known to be a non-zero number) and can be derived from the
    SOLUTIONS by the harness (expected_corrections).  B may be a multi-part ("split cal") product whose parts have
    solutions at different times; the data set may be opened with preselect={'channels': ..., 'dumps': ...}; the
    request may be lenient and name products without solutions anywhere in the list."""
    force = force or {}
    n_ant = rng.randint(2, 3)
    ants = ['m%03d' % a for a in range(n_ant)]
    types = rng.sample(['G', 'B', 'K'], rng.randint(1, 3))
    for t in ('GPHASE', 'GAMP_PHASE'):
        if rng.random() < 0.25:
            types.append(t)
    if force.get('parts') and 'B' not in types:
        types.append('B')
    if force.get('request') in ('types', 'group') and len(types) == 5:
        types.remove(rng.choice(['B', 'K', 'GPHASE']))          # something must be missing
    n_parts = 1
    if 'B' in types and (force.get('parts') or rng.random() < 0.5):
        n_parts = rng.choice([2, 2, 3])
    T = rng.randint(3, 7)
    mode = rng.choice(['same', 'shifted', 'other'])
    if n_parts > 1 and mode != 'other':
        F = n_parts * rng.randint(1 if n_parts == 3 else 2, 8 // n_parts)
    else:
        F = rng.randint(3, 8)
    chan_w = 1048576.0
    cf = 1284e6
    if mode != 'other':
        n_cal = F
    elif n_parts > 1:
        n_cal = rng.choice([k for k in range(n_parts, F + 4, n_parts) if k != F])
    else:
        n_cal = rng.choice([k for k in range(2, F + 3) if k != F])
    shift = 0 if mode == 'same' else rng.choice([-2, -1, 1, 2])
    cal_bw = F * chan_w if mode != 'other' else F * chan_w * rng.choice([1, 1, 2])
    antlist = list(ants)
    rng.shuffle(antlist)
    pols = rng.choice([['v', 'h'], ['h', 'v']])
    products = {}
    parts = {}
    nan_input = (rng.randrange(2), rng.randrange(n_ant)) if rng.random() < 0.4 else None
    # zero solutions (force 'zero': in every product that can carry one)
    p_zero = 1.0 if force.get('zero') else rng.choice([0, 0, 0.5, 1.0])
    first_hold = []                       # first solution dump of every product held from its first solution on
    for t in types:
        exps = [[rng.randint(-3, 3) for _ in range(n_ant)] for _ in range(2)]
        cexp = [rng.randint(-1, 1) for _ in range(n_cal)]      # constant in time: interpolation stays exact
        g_with_chans = rng.random() < 0.4
        n_ev = rng.randint(2 if (t == 'B' and n_parts > 1) else 1, min(4 if t == 'B' else 3, T + 1))
        evs = sorted(rng.sample(range(-1, T), n_ev))
        if t in GAIN_TYPES and rng.random() < 0.08:
            evs = [T]          # the only solution comes after the last dump: the data set sees no solution at all
        # a dead input (every solution exactly zero), a dead cal channel of one input, a zero at ONE solution time
        inputs_pa = [(p, a) for p in range(2) for a in range(n_ant)]
        dead_input = rng.choice(inputs_pa) if rng.random() < p_zero * 0.6 else None
        dead_chan = (rng.choice(inputs_pa), rng.randrange(n_cal)) if rng.random() < p_zero * 0.6 else None
        zero_once = (rng.choice(inputs_pa), rng.choice(evs)) if rng.random() < p_zero * 0.3 else None
        if force.get('zero') and dead_input is None and dead_chan is None:
            dead_input = rng.choice(inputs_pa)
        events = []
        for dump in evs:
            def bad():
                return 'inf' if rng.random() < 0.3 else None
            if t == 'K':
                arr = [[(bad() if rng.random() < 0.2 else 0.0) for _ in range(n_ant)] for _ in range(2)]
            elif t in GAIN_TYPES and not g_with_chans:
                arr = [[bad() if ((p, a) == nan_input or rng.random() < 0.1) else
                        ([0.0, 0.0] if ((p, a) == dead_input or zero_once == ((p, a), dump)) else _pow2(exps[p][a]))
                        for a in range(n_ant)] for p in range(2)]
            elif t in GAIN_TYPES:
                arr = [[[bad() if (p, a) == nan_input else
                         ([0.0, 0.0] if ((p, a) == dead_input or dead_chan == ((p, a), k)) else
                          _pow2(exps[p][a] + cexp[k]))
                         for a in range(n_ant)] for p in range(2)] for k in range(n_cal)]
            else:
                # B: one value per input and SOLUTION TIME over the whole band (every part), NaN at band edges,
                # whole inputs, or one input at one solution time; zero for a dead input / dead channels
                lo, hi = rng.randint(0, 1), n_cal - rng.randint(0, 1)
                delta = rng.randint(-1, 1)
                dead = {(p, a) for p in range(2) for a in range(n_ant) if rng.random() < 0.08}
                arr = [[[bad() if ((p, a) == nan_input or (p, a) in dead or not lo <= k < hi) else
                         ([0.0, 0.0] if ((p, a) == dead_input or dead_chan == ((p, a), k)) else
                          _pow2(exps[p][a] + delta)) for a in range(n_ant)] for p in range(2)] for k in range(n_cal)]
            events.append([dump, arr])
        if t == 'B' and n_parts > 1:
            per = n_cal // n_parts
            keeps = []
            for q in range(n_parts):
                if rng.random() < 0.1:
                    keeps.append([])                                   # this part has no sensor at all
                else:
                    keeps.append([e for e in evs if rng.random() < 0.65])
            if not any(keeps):
                keeps[rng.randrange(n_parts)] = list(evs)
            if rng.random() < 0.75:
                # make sure some part (mostly one at a band edge: an interior gap is interpolated over) lacks a
                # solution at a time at which another part has one, and has a LATER one
                q = rng.choice([0, n_parts - 1, rng.randrange(n_parts)])
                j = rng.randrange(len(evs) - 1)
                keeps[q] = sorted((set(keeps[q]) - {evs[j]}) | {rng.choice(evs[j + 1:])})
                o = rng.choice([k for k in range(n_parts) if k != q])
                keeps[o] = sorted(set(keeps[o]) | {evs[j]})
            for q, keep in enumerate(keeps):
                if keep:
                    products['B%d' % q] = [[e, arr[q * per:(q + 1) * per]] for e, arr in events if e in keep]
            parts['B'] = n_parts
            first_hold.append(min(e for keep in keeps for e in keep))
        else:
            products[t] = events
            if t not in GAIN_TYPES:
                first_hold.append(evs[0])
    cal = dict(antlist=antlist, pol_ordering=pols, center_freq=cf + shift * chan_w, bandwidth=cal_bw, n_chans=n_cal,
               products=products)
    if parts:
        cal['parts'] = parts
    out_streams = {'l1': cal}
    if force.get('l2') or rng.random() < 0.3:
        out_streams['l2'] = gen_l2(rng, T, F, ants, chan_w, cf, p_zero)
    probe = dict(cal=cal, ants=ants, **({'cal2': out_streams['l2']} if 'l2' in out_streams else {}))
    avail = sorted(available_products(probe), key=lambda nm: (nm.split('.')[0], DOC_TYPES.index(nm.split('.')[1])))
    applycal, req_kind = gen_request(rng, avail, list(out_streams), force.get('request'))
    # one to three targets (self-cal type gains are interpolated per target)
    tg = [[0, 0]]
    for d in sorted(rng.sample(range(1, T), rng.choice([0, 1, 1, 2]) if T > 2 else 0)):
        tg.append([d, rng.choice([k for k in range(3) if k != tg[-1][1]])])
    # every new target starts with a slew and a track (katdal aligns target changes with the scan starts)
    acts = []
    for k, (d, _) in enumerate(tg):
        acts.append([d, 'slew'])
        if d + 1 < (tg[k + 1][0] if k + 1 < len(tg) else T):
            acts.append([d + 1, 'track'])
    sel = {}
    if rng.random() < 0.7:
        a = rng.randrange(T)
        sel['dumps'] = [a, rng.randint(a + 1, T)]
    if rng.random() < 0.7:
        a = rng.randrange(F)
        sel['channels'] = [a, rng.randint(a + 1, F)]
    r = rng.random()
    if r < 0.3:
        sel['ants'] = rng.sample(ants, rng.randint(1, n_ant))
    elif r < 0.5:
        sel['pol'] = rng.choice(['hh', 'vv', 'hv', 'vh', 'h', 'v'])
    elif r < 0.6:
        sel['corrprods'] = rng.choice(['auto', 'cross'])
    # the same data set opened with preselect=...: a K/B product needs a solution before the end of the loaded
    # dumps (otherwise katdal has no value for the sensor at all and raises: outside the property)
    pre = {}
    if force.get('pre') or rng.random() < 0.6:
        which = force.get('pre') or rng.choice(['channels', 'channels', 'dumps', 'both'])
        if which in ('channels', 'both'):
            a = rng.randrange(F)
            pre['channels'] = [a, rng.randint(a + 1, F)]
        if which in ('dumps', 'both'):
            a = rng.randrange(T)
            b = rng.randint(a + 1, T)
            if all(e < b for e in first_hold):
                pre['dumps'] = [a, b]
    return dict(route='v4', T=T, F=F, ants=ants, chan_w=chan_w, cf=cf, cal=cal,
                **({'cal2': out_streams['l2']} if 'l2' in out_streams else {}),
                applycal=applycal, request=req_kind, targets=tg, acts=acts, select=sel,
                preselect=pre, seed=rng.randrange(10 ** 6), shuffle_bls=rng.random() < 0.5,
                chunks=[compositions(rng, T), compositions(rng, F)],
                index=[rng.choice([None, 1, 2]), rng.choice([None, 1, 2])])


def streams_of(vcfg):
    """{'l1': the cal stream} plus {'l2': the self-cal stream} when the data set has one."""
    out = {'l1': vcfg['cal']}
    if vcfg.get('cal2'):
        out['l2'] = vcfg['cal2']
    return out


def available_products(vcfg):
    """the <stream>.<type> products that have solutions in telstate AND a solution index for every antenna of the
    data set (a stream whose antlist lacks an antenna has no correction for its inputs: none of its products
    is usable)."""
    out = set()
    for stream, cal in streams_of(vcfg).items():
        if not set(vcfg['ants']) <= set(cal['antlist']):
            continue
        for key in cal['products']:
            t = key.rstrip('0123456789') if key.rstrip('0123456789') in cal.get('parts', {}) else key
            out.add(stream + '.' + t)
    return out


def expected_products(vcfg):
    """-> (expanded request, lenient, the products that must be applied | None for KeyError)"""
    names, lenient = expand_request(vcfg['applycal'], list(streams_of(vcfg)))
    return names, lenient, select_expected(names, lenient, available_products(vcfg))


# --------------------------------------------------------------------------- corrections expected from the SOLUTIONS
# Harness-side rendering of the clause "wherever the factor is not a number, as results from missing, zero or invalid
# solutions": which correction each input must get at each dump and data channel, derived from the cal solutions put
# into telstate (NOT read back from katdal).  Exact for the class gen_v4 generates:
#   K  delays 0 / NaN                          -> correction 1 (an invalid delay is replaced by zero)
#   G  one value per input, constant in time   -> 1/value at every dump if the input has a valid solution among
#                                                 the solutions seen by the data set, else NaN
#   B  one value per input and solution time   -> the solution in force at the dump = the last one at or before it
#      (parts: a part contributes to the solution of time t only if it has a solution AT t, else its channels are
#      missing); 1/value on the data channels within the frequency span of its valid cal channels, NaN outside
def _kept_events(events, dumps):
    """solutions seen by a data set holding dumps [a, b): -> {relative dump: value}; solutions before the first dump
    collapse onto dump 0 (the last one wins, a solution inside dump 0 wins over those), later ones are dropped."""
    a, b = dumps
    out = {}
    for e, v in sorted(events, key=lambda ev: ev[0]):
        if e < b:
            out[max(e - a, 0)] = v
    return out


def _in_force(kept, t, hold_back):
    keys = sorted(kept)
    le = [k for k in keys if k <= t]
    if le:
        return kept[le[-1]]
    return kept[keys[0]] if (hold_back and keys) else None


def stitched_events(cal, t):
    """solutions of product type t over the cal stream's channels, multi-part products stitched by solution time."""
    n_parts = cal.get('parts', {}).get(t)
    if not n_parts:
        return [[e, arr] for e, arr in cal['products'].get(t, [])]
    per = cal['n_chans'] // n_parts
    part = [dict((e, arr) for e, arr in cal['products'].get('%s%d' % (t, q), [])) for q in range(n_parts)]
    times = sorted({e for p in part for e in p})
    n_pol, n_ant = len(cal['pol_ordering']), len(cal['antlist'])
    missing = [[[None] * n_ant for _ in range(n_pol)] for _ in range(per)]
    return [[e, [row for p in part for row in p.get(e, missing)]] for e in times]


def derive_input(t, evs, n, data_freqs, cal_freqs, targets, cases, mine):
    """The corrections ONE input must get from product type t over n dumps: -> [dump] -> list of entries.
    evs: the solutions the data set sees, in time order, as (relative dump, payload): gain types [leaf per channel]
    (interpolated in time, per target for the self-cal types), B [leaf per cal channel] and K a delay leaf (the
    solution in force = the last one at or before the dump, the first one before that).
    cases / mine: the same derivation as wire 131 calls and the harness's answer in wire form (cross-check)."""
    fw = [q_wire(Fraction(float(f))) for f in data_freqs]
    if t in GAIN_TYPES:
        tg = None if (t == 'G' or targets is None) else list(targets)
        rows = py_gain(evs, n, tg)
        cases.append([131, [1, n, [] if tg is None else [int(x) + 1 for x in tg],
                            [[q_wire(e), [leaf_wire(x) for x in v]] for e, v in evs]]])
        mine.append([wire_entries(r) for r in rows])
        return rows
    cw = [q_wire(Fraction(float(f))) for f in cal_freqs]
    rows, segs = [], {}
    for d in range(n):
        le = [k for k, (e, _) in enumerate(evs) if e <= d]
        k = le[-1] if le else 0
        if k not in segs:
            v = evs[k][1]
            if t == 'K':
                segs[k] = py_delay(v, data_freqs)
                cases.append([131, [3, leaf_wire(v if (v is None or isinstance(v, str)) else [v, 0.0]), fw]])
            else:
                segs[k] = py_bandpass(cal_freqs, v, data_freqs)
                cases.append([131, [2, cw, fw, [leaf_wire(x) for x in v]]])
            mine.append(wire_entries(segs[k]))
        rows.append(segs[k])
    return rows


def expected_corrections(vcfg, inputs, data_freqs, dumps, names=None, targets=None, ctx=None):
    """-> ({product: [input][dump] -> complex64 vector}, {product: [input][dump] -> bool vector}): the corrections the
    SOLUTIONS call for and the positions at which only "a non-zero number" is known (there the vector holds 1).
    targets: target index per loaded dump (self-cal type gains are interpolated per target).  With ctx the
    derivation is cross-checked against Model/ApplycalSol.v (wire 131) for every input."""
    from fixtures import c13cal
    n = dumps[1] - dumps[0]
    names = expected_products(vcfg)[2] if names is None else names
    out, masks, cases, mine = {}, {}, [], []
    for name in names or []:
        stream, t = name.split('.')
        cal = streams_of(vcfg)[stream]
        cal_freqs = c13cal.cal_channel_freqs(cal)
        index = {ant + pol: (p_i, a_i) for p_i, pol in enumerate(cal['pol_ordering'])
                 for a_i, ant in enumerate(cal['antlist'])}
        kept = sorted(_kept_events(stitched_events(cal, t), dumps).items())
        per_input, per_mask = [], []
        for inp in inputs:
            p_i, a_i = index[inp]
            if t in GAIN_TYPES:
                evs = [(e, [v[p_i][a_i]] if _shape_of(v) == 2 else [row[p_i][a_i] for row in v]) for e, v in kept]
            elif t == 'K':
                evs = [(e, v[p_i][a_i]) for e, v in kept]
            else:
                evs = [(e, [v[k][p_i][a_i] for k in range(len(v))]) for e, v in kept]
            rows = derive_input(t, evs, n, data_freqs, cal_freqs, targets, cases, mine)
            arrs = [entries_to_arrays(r) for r in rows]
            per_input.append([a[0] for a in arrs])
            per_mask.append([a[1] for a in arrs])
        out[name] = per_input
        masks[name] = per_mask
    if ctx is not None and ctx.model_ok and cases:
        for k, mo in enumerate(ctx.model(cases)):
            if mo != mine[k]:
                ctx.disagree('route=v4;symptom=harness_corrections_differ_from_model', vcfg, mine[k], mo,
                             'corrections derived from the solutions: harness derivation differs from '
                             'Model/ApplycalSol.v (wire 131 op %d)' % cases[k][1][0], kind='tie')
                break
    return out, masks


def check_harness_spec(ctx, vcfg, dumps_list, names=None):
    """The two pieces of the harness-side derivation that have a Coq counterpart are cross-checked against it:
    the stitched solution list of a multi-part product (Model/CalInterp.v `stitch`, the model proved under C14)
    and the solutions seen by a data set holding dumps [a, b) (Model/Applycal.v `seen`)."""
    if not ctx.model_ok:
        return
    for name in (expected_products(vcfg)[2] or []) if names is None else names:
        stream, t = name.split('.')
        cal = streams_of(vcfg)[stream]
        st = stitched_events(cal, t)
        for a, b in dumps_list:
            mo = ctx.model([[13, [3, a, b, [[e, k] for k, (e, _) in enumerate(st)]]]])[0]
            mine = sorted(_kept_events([[e, k] for k, (e, _) in enumerate(st)], (a, b)).items())
            if mo != [list(kv) for kv in mine]:
                ctx.disagree('route=v4;symptom=harness_seen_differs_from_model', vcfg, mine, mo,
                             'solutions seen by dumps [%d, %d): harness derivation differs from Model/Applycal.v seen'
                             % (a, b), kind='tie')
            if t not in GAIN_TYPES and st:
                # the solution in force at every loaded dump (Model/ApplycalSol.v in_force o seen)
                ids = [[e, k] for k, (e, _) in enumerate(st)]
                mos = ctx.model([[131, [5, a, b, d, ids]] for d in range(b - a)])
                kept = _kept_events(ids, (a, b))
                mine_f = [([_in_force(kept, d, True)] if kept else []) for d in range(b - a)]
                if mos != mine_f:
                    ctx.disagree('route=v4;symptom=harness_in_force_differs_from_model', vcfg, mine_f, mos,
                                 'solution in force at the dumps of [%d, %d): harness derivation differs from '
                                 'Model/ApplycalSol.v in_force' % (a, b), kind='tie')
        n_parts = cal.get('parts', {}).get(t)
        if not n_parts:
            continue
        n_pol, n_ant = len(cal['pol_ordering']), len(cal['antlist'])
        cases = []
        for p_i in range(n_pol):
            for a_i in range(n_ant):
                def opv(v):
                    return [] if (v is None or isinstance(v, str)) else [[q_wire(Fraction(v[0])), [0, 1]]]
                parts = [[[q_wire(e), [opv(row[p_i][a_i]) for row in arr]]
                          for e, arr in cal['products'].get('%s%d' % (t, q), [])] for q in range(n_parts)]
                cases.append([14, [6, parts]])
        outs = ctx.model(cases)
        k = 0
        for p_i in range(n_pol):
            for a_i in range(n_ant):
                mine = [[q_wire(e), [opv(row[p_i][a_i]) for row in arr]] for e, arr in st]
                mo = outs[k][0] if outs[k] else None
                k += 1
                if mo != mine:
                    ctx.disagree('route=v4;symptom=harness_stitch_differs_from_model', vcfg, mine, mo,
                                 'stitched multi-part solutions: harness derivation differs from Model/CalInterp.v '
                                 'stitch', kind='tie')
                    return


def _shape_of(arr):
    """2 for a (pol, ant) solution array, 3 for (chan, pol, ant); leaves are None or [re, im]."""
    from fixtures import c13cal
    return len(c13cal._shape(arr, 2))


def c13cal_shape(a):
    from fixtures import c13cal
    return c13cal._shape(a, 2)


def gen_invert(rng, tier='quick'):
    n_ant = rng.randint(2, 3)
    ants = ['m%03d' % a for a in range(n_ant)]
    T, F = rng.randint(2, 4), rng.randint(3, 8)
    chan_w = 1048576.0
    antlist = list(ants)
    rng.shuffle(antlist)
    pols = rng.choice([['v', 'h'], ['h', 'v']])
    types = rng.sample(['G', 'B', 'K'], rng.randint(1, 3))

    def cval():
        m, ph = rng.uniform(0.5, 2.0), rng.uniform(-math.pi, math.pi)
        return [m * math.cos(ph), m * math.sin(ph)]
    products = {}
    for t in types:
        if t == 'K':
            arr = [[rng.uniform(-2e-9, 2e-9) for _ in range(n_ant)] for _ in range(2)]
        elif t == 'G':
            arr = [[cval() for _ in range(n_ant)] for _ in range(2)]
        else:
            arr = [[[cval() for _ in range(n_ant)] for _ in range(2)] for _ in range(F)]
        products[t] = [[d, arr] for d in sorted(rng.sample(range(-1, T), rng.randint(1, 2)))]
    cal = dict(antlist=antlist, pol_ordering=pols, center_freq=1284e6, bandwidth=F * chan_w, n_chans=F,
               products=products)
    applycal = ['l1.' + t for t in types]
    rng.shuffle(applycal)
    out = dict(route='invert', T=T, F=F, ants=ants, chan_w=chan_w, cf=1284e6, cal=cal, applycal=applycal,
               seed=rng.randrange(10 ** 6), shuffle_bls=rng.random() < 0.5,
               chunks=[compositions(rng, T), compositions(rng, F)])
    # the same store opened with preselect: the loaded part must be restored as well (every product keeps a
    # solution before the end of the loaded dumps, so that the same solutions apply)
    pre = {}
    if rng.random() < 0.7:
        a = rng.randrange(F)
        pre['channels'] = [a, rng.randint(a + 1, F)]
    if rng.random() < 0.3:
        a = rng.randrange(T)
        b = rng.randint(a + 1, T)
        if all(ev[0][0] < b for ev in products.values()):
            pre['dumps'] = [a, b]
    out['preselect'] = pre
    return out


def _build(vcfg, arrays=None):
    from fixtures import c13cal, v4
    T, F, ants = vcfg['T'], vcfg['F'], vcfg['ants']
    bls = v4.bls_ordering_for(ants)
    if vcfg.get('shuffle_bls'):
        import random
        random.Random(vcfg['seed']).shuffle(bls)
    ch = (tuple(vcfg['chunks'][0]), tuple(vcfg['chunks'][1]), (len(bls),))
    tgs = [v4.TARGET_A, v4.TARGET_B, v4.TARGET_C]
    kw = dict(targets=tuple((d, tgs[k]) for d, k in vcfg['targets'])) if vcfg.get('targets') else {}
    if vcfg.get('acts'):
        kw['acts'] = tuple((d, a) for d, a in vcfg['acts'])
    applycal = vcfg['applycal'] if isinstance(vcfg['applycal'], str) else list(vcfg['applycal'])
    x = v4.build_v4(**kw, T=T, F=F, ants=ants, seed=vcfg['seed'], bandwidth=F * vcfg['chan_w'], center_freq=vcfg['cf'],
                    bls_ordering=bls, arrays=arrays, chunks={'correlator_data': ch},
                    telstate_hook=(c13cal.hooks(c13cal.cal_hook(vcfg['cal']), c13cal.l2_hook(vcfg['cal2']))
                                   if vcfg.get('cal2') else c13cal.cal_hook(vcfg['cal'])),
                    archived_override=['sdp_l0', 'cal'] + ([c13cal.L2_IMAGE_STREAM] if vcfg.get('cal2') else []),
                    construct=False, tmp=v4.scratch_dir('c13'))
    try:
        x.d = _open_public(x, applycal=applycal)
    except Exception:
        v4.cleanup(x)
        raise
    return x, bls


def _open_public(x, **kw):
    """The public entry point named by the property: katdal.open(<capture block>/<cbid>_<stream>.rdb, applycal=...,
    preselect=...).  The telstate of the fixture is written next to its npy chunk store (once per case)."""
    import os
    import katdal
    from katsdptelstate.rdb_writer import RDBWriter
    rdb = os.path.join(x.tmp, x.cbid, '%s_%s.rdb' % (x.cbid, x.stream))
    if not os.path.exists(rdb):
        ts = x.telstate
        ts['capture_block_id'] = x.cbid
        ts['stream_name'] = x.stream
        os.makedirs(os.path.dirname(rdb), exist_ok=True)
        with RDBWriter(rdb) as writer:
            writer.save(ts)
    return katdal.open(rdb, **kw)


def _read_corrections(d, name, inputs, T):
    out = []
    for inp in inputs:
        s = d.sensor.get('Calibration/Corrections/%s/%s/%s' % (tuple(name.split('.')) + (inp,)))
        out.append([np.atleast_1d(np.asarray(s[t])).astype(np.complex64) for t in range(T)])
    return out


def _prods_from(corrs, names, cal_freqs):
    """per-type correction vectors ([input][dump] -> 1-D complex64) -> the products of a direct configuration."""
    prods = []
    for name in names:
        stream, ptype = name.split('.')
        corr = corrs[name] if name in corrs else corrs[ptype]
        cn = max(len(g) for per in corr for g in per)
        cf = cal_freqs[stream] if isinstance(cal_freqs, dict) else cal_freqs
        prods.append(dict(name=name, stream=stream, kb=int(ptype in 'KB'),
                          own=1 if ptype in 'KB' else (0 if cn == 1 else 2), form='v4',
                          cal_freqs=[q_wire(f) for f in cf],
                          corr=[[[complex_to_wire(z) or None for z in g] for g in per] for per in corr]))
    return prods


def _direct_cfg(inputs, bls, freqs, prods, chunks, vis0, w0, f0):
    return dict(route='direct', T=int(vis0.shape[0]), labels=inputs,
                cps=[[inputs.index(a), inputs.index(b)] for a, b in bls],
                data_freqs=[q_wire(float(f)) for f in freqs], prods=prods,
                chunks=[chunks[0], chunks[1], [len(bls)]],
                vis=[[[complex_to_wire(z) or None for z in r] for r in t] for t in vis0],
                weights=[[[list(float_to_dy(w)) for w in r] for r in t] for t in w0],
                flags=f0.astype(int).tolist())


def _model(ctx, cfg):
    mo = ctx.model([model_case(cfg)])[0] if ctx.model_ok else None
    return model_arrays(cfg, mo) if (mo is not None and mo != [-999]) else fallback_arrays(cfg)


def _restrict(m, ix, extra=()):
    out = dict(m)
    for k in ('vis', 'weights', 'flags', 'spec_vis', 'spec_weights', 'spec_flags', 'vis_exact', 'w_exact', 'corr'):
        out[k] = m[k][ix]
        for e in extra:
            out[k] = out[k][e]
    return out


def _same_corrections(a, b, bmask=None):
    """[input][dump] -> vectors: equal shapes and values (NaN == NaN)?  -> None or (input, dump, what).
    bmask: positions of b at which only "a non-zero number" is expected."""
    for i, (pa, pb) in enumerate(zip(a, b)):
        for t, (ga, gb) in enumerate(zip(pa, pb)):
            ga, gb = np.atleast_1d(ga), np.atleast_1d(gb)
            if ga.shape != gb.shape:
                return i, t, 'shape'
            eq = same_c(ga.astype(np.complex128), gb.astype(np.complex128))
            if bmask is not None:
                mk = np.atleast_1d(bmask[i][t])
                ok = np.isfinite(ga.real) & np.isfinite(ga.imag) & (ga != 0)
                if (mk & ~ok).any():
                    return i, t, ('invalid_where_solution_present' if np.isnan(ga[mk & ~ok][0])
                                  else 'zero_or_infinite_correction')
                eq = eq | mk
            if not eq.all():
                c = int(np.argwhere(~eq)[0][0])
                if np.isnan(gb[c]) and not np.isnan(ga[c]):
                    return i, t, ('zero_correction_where_solution_zero' if ga[c] == 0
                                  else 'finite_where_solution_missing')
                if np.isnan(ga[c]):
                    return i, t, 'invalid_where_solution_present'
                return i, t, 'wrong_value'
    return None


def _same_shapes(a, b):
    return len(a) == len(b) and all(len(pa) == len(pb) and all(np.atleast_1d(x).shape == np.atleast_1d(y).shape
                                                               for x, y in zip(pa, pb)) for pa, pb in zip(a, b))


def _fill_inexact(want, masks, read):
    """the spec needs a number at the positions where the solutions only say "a non-zero number": katdal's own."""
    out = {}
    for t, per_input in want.items():
        out[t] = []
        for i, per in enumerate(per_input):
            row = []
            for d, g in enumerate(per):
                mk = masks[t][i][d]
                if mk.any() and t in read and np.atleast_1d(read[t][i][d]).shape == g.shape:
                    g = np.where(mk, np.atleast_1d(read[t][i][d]), g)
                row.append(g)
            out[t].append(row)
    return out


def _spec_on(ctx, cfg, want, masks, read, names, cal_freqs):
    """model arrays of the SPEC evaluated on the corrections the solutions call for; positions whose factor depends
    on a correction that is only known to be a non-zero number are excluded from the value comparison (their
    flags are still compared: the factor is a number there)."""
    filled = _fill_inexact(want, masks, read)
    scfg = dict(cfg, prods=_prods_from(filled, names, cal_freqs))
    ms = _model(ctx, scfg)
    if any(mk.any() for t in masks for per in masks[t] for mk in per):
        nanned = {t: [[np.where(masks[t][i][d], np.complex64(NANC), g) for d, g in enumerate(per)]
                      for i, per in enumerate(per_input)] for t, per_input in filled.items()}
        mt = _model(ctx, dict(cfg, prods=_prods_from(nanned, names, cal_freqs)))
        tainted = np.isnan(mt['corr']) & ~np.isnan(ms['corr'])
        ms['vis_exact'] = ms['vis_exact'] & ~tainted
        ms['w_exact'] = ms['w_exact'] & ~tainted
        ms['tainted'] = int(tainted.sum())
    return scfg, ms


def run_v4(ctx, vcfg):
    from fixtures import c13cal, v4
    if vcfg['route'] == 'invert':
        return run_invert(ctx, vcfg)
    x = None
    cal = vcfg['cal']
    n_parts = max([1] + list(cal.get('parts', {}).values()))
    pre = dict(vcfg.get('preselect') or {})
    shape_tag = ';parts=%d' % n_parts
    req_names, lenient, want_names = expected_products(vcfg)
    avail = available_products(vcfg)
    req_kind = vcfg.get('request', 'strict')
    # where do the requested products without solutions stand?
    miss = [k for k, nm in enumerate(req_names) if nm not in avail]
    have = [k for k, nm in enumerate(req_names) if nm in avail]
    req_tag = 'request=%s;missing=%s' % (req_kind, 'none' if not miss else
                                         ('before_present' if have and min(miss) < max(have) else 'last'))
    try:
        try:
            try:
                x, bls = _build(vcfg)
            except KeyError as e:
                if want_names is None:
                    ctx.traces_validated += 1
                    ctx.count('v4_strict_request_missing_product=KeyError')
                    return
                raise e
            if want_names is None:
                ctx.disagree('route=v4;obs=products;symptom=strict_request_did_not_raise', vcfg,
                             list(x.d.applycal_products), 'KeyError',
                             'a fully qualified request naming a product without solutions was accepted')
                return
            d = x.d
            raw = _open_public(x)
            T, F = vcfg['T'], vcfg['F']
            inputs = sorted({i for cp in bls for i in cp})
            cal_freqs = {st: c13cal.cal_channel_freqs(c) for st, c in streams_of(vcfg).items()}
            got_names = list(d.applycal_products)
            read = {name: _read_corrections(d, name, inputs, T) for name in got_names}
            prods = _prods_from(read, got_names, cal_freqs)
            vis0, w0, f0 = raw.vis[:], raw.weights[:], raw.raw_flags[:]
            freqs = np.array(raw.channel_freqs)
            targets = [int(v) for v in raw.sensor['Observation/target_index']]
            cfg = _direct_cfg(inputs, bls, freqs, prods, vcfg['chunks'], vis0, w0, f0)
            full = dict(vis=d.vis[:], weights=d.weights[:], flags=d.raw_flags[:])
            sel = dict(vcfg.get('select', {}))
            kw = {}
            if 'dumps' in sel:
                kw['dumps'] = slice(*sel['dumps'])
            if 'channels' in sel:
                kw['channels'] = slice(*sel['channels'])
            for k in ('ants', 'pol', 'corrprods'):
                if k in sel:
                    kw[k] = sel[k]
            d.select(**kw)
            ix = np.ix_(d.dumps, d.channels, np.nonzero(d._corrprod_keep)[0])
            s1, s2 = [slice(None) if s is None else slice(None, None, s) for s in vcfg.get('index', [None, None])]
            impl = dict(vis=d.vis[s1, s2], weights=d.weights[s1, s2], flags=d.raw_flags[s1, s2])
            boolflags = d.flags[s1, s2]
        except Exception as e:
            ctx.disagree('route=v4;symptom=raises;exc=%s' % type(e).__name__ + shape_tag, vcfg, repr(e)[:300],
                         'a result', 'opening / reading a data set with applycal raised')
            return
        # the products katdal selected against the documented expansion of the request
        usable = {nm: [int(nm in avail)] * len(inputs) for nm in req_names}
        has_model, msel = check_selection_model(ctx, vcfg, req_names, lenient, usable, 'v4')
        if got_names != want_names:
            ctx.disagree('route=v4;obs=products;symptom=%s;%s'
                         % ('products_dropped' if set(got_names) < set(want_names) else 'wrong_products', req_tag),
                         vcfg, got_names, want_names,
                         'applycal=%r expands to %s of which %s have solutions: %s must be applied, katdal applies %s'
                         % (vcfg['applycal'], req_names, sorted(avail), want_names, got_names))
        if has_model and msel is not None and got_names != msel:
            ctx.disagree('route=v4;obs=products;vs=model;symptom=wrong_products;%s' % req_tag, vcfg, got_names, msel,
                         'applycal_products differ from the model of the loop over the requested products',
                         kind='tie')
        want, wmask = expected_corrections(vcfg, inputs, freqs, (0, T), want_names, targets, ctx)
        # (a) tie: calc_correction + kernels + selection on the corrections katdal derived for the products it selected
        # (positions whose factor involves a correction the solutions only determine as "a non-zero number" carry
        # non-dyadic values: excluded from the value comparison, flags are compared)
        m = _model(ctx, cfg)
        rmask = {t: wmask[t] for t in read if t in wmask and _same_shapes(read[t], wmask[t])}
        if any(mk.any() for t in rmask for per in rmask[t] for mk in per):
            nanned = {t: ([[np.where(rmask[t][i][d_], np.complex64(NANC), g) for d_, g in enumerate(per)]
                           for i, per in enumerate(read[t])] if t in rmask else read[t]) for t in read}
            mt = _model(ctx, dict(cfg, prods=_prods_from(nanned, got_names, cal_freqs)))
            tainted = np.isnan(mt['corr']) & ~np.isnan(m['corr'])
            m['vis_exact'] = m['vis_exact'] & ~tainted
            m['w_exact'] = m['w_exact'] & ~tainted
        case = cfg_with(vcfg, cfg)
        compare(ctx, case, impl, _restrict(m, ix, [(s1, s2)]), 'v4', sides=('model',))
        if not np.array_equal(boolflags, impl['flags'] != 0):
            ctx.disagree('route=v4;obs=boolflags', vcfg, None, None, 'flags differ from raw_flags != 0')
        # (b) property, end to end: the spec evaluated on the corrections the SOLUTIONS call for, over the products
        # the REQUEST calls for
        check_harness_spec(ctx, vcfg, [(0, T)] + ([tuple(pre['dumps'])] if 'dumps' in pre else []), want_names)
        for pname in want:
            if pname not in read:
                continue
            bad = _same_corrections(read[pname], want[pname], wmask[pname])
            if bad is not None:
                ptype = pname.split('.')[1] + (';stream=l2' if pname.startswith('l2.') else '')
                ctx.disagree('route=v4;obs=corrections_from_solutions;type=%s;symptom=%s' % (ptype, bad[2]) + shape_tag,
                             vcfg, dict(input=inputs[bad[0]], dump=bad[1], value=str(read[pname][bad[0]][bad[1]])),
                             dict(value=str(want[pname][bad[0]][bad[1]])),
                             'correction of %s for %s at dump %d differs from what the solutions call for'
                             % (pname, inputs[bad[0]], bad[1]))
        scfg, ms = _spec_on(ctx, cfg, want, wmask, read, want_names, cal_freqs)
        compare(ctx, cfg_with(vcfg, scfg), impl, _restrict(ms, ix, [(s1, s2)]), 'v4', sides=('spec',),
                spec_name='spec_from_solutions', tag=shape_tag + (';' + req_tag if got_names != want_names else ''))
        # (d) several views of one store in one dask graph
        if got_names:
            joint_views_v4(ctx, vcfg, x, got_names)
        # (c) the result does not depend on which subset is LOADED: the same store opened with preselect
        if pre:
            run_preselected(ctx, vcfg, x, inputs, bls, cal_freqs, freqs, (vis0, w0, f0), full, (want, wmask),
                            shape_tag, want_names, targets)
        ctx.traces_validated += 1
        ctx.note_case(cfg_key(vcfg), nontrivial=nontrivial(cfg, ms),
                      sample=dict(route='v4', applycal=vcfg['applycal'], applied=got_names, select=vcfg.get('select'),
                                  maps=m.get('maps'),
                                  cal_n_chans=cal['n_chans'], F=F, parts=n_parts, preselect=pre,
                                  nan_factors=int(np.isnan(ms['corr']).sum())))
        ctx.count('route=v4')
        ctx.count('v4_' + req_tag)
        ctx.count('v4_products_applied=%d' % len(got_names))
        ctx.count('v4_streams=%s' % '+'.join(streams_of(vcfg)))
        ctx.count('v4_parts=%d' % n_parts)
        ctx.count('v4_targets=%d' % len(set(targets)))
        leaves = [leaf for key, evs in cal['products'].items() if key != 'K' for _, arr in evs
                  for leaf in c13cal._flat(arr, 2)]
        zero = any(leaf == [0.0, 0.0] for leaf in leaves)
        inf = any(leaf == 'inf' for leaf in leaves) or any(
            v == 'inf' for _, arr in cal['products'].get('K', []) for row in arr for v in row)
        ctx.count('v4_zero_solution=%s' % zero)
        ctx.count('v4_infinite_solution=%s' % inf)
        ctx.count('v4_inexact_factors=%s' % bool(ms.get('tainted')))
        if n_parts > 1:
            times = [sorted(e for e, _ in cal['products'].get('B%d' % q, [])) for q in range(n_parts)]
            ctx.count('v4_parts_in_lock_step=%s' % all(t == times[0] for t in times))
        ctx.count('v4_preselect=%s' % ('+'.join(sorted(pre)) or 'none'))
        for k in m.get('maps', []):
            ctx.count('v4map=%s' % {0: 'broadcast', 1: 'direct', 2: 'nearest'}[k])
        ctx.count('v4_nan_factor=%s' % bool(np.isnan(ms['corr']).any()))
    finally:
        if x is not None:
            v4.cleanup(x)


def _corr_names(d):
    """names of the corrections arrays in the dask graph of a data set's corrected visibilities"""
    g = d.vis.dataset.__dask_graph__()
    layers = getattr(g, 'layers', None)
    keys = list(layers) if layers is not None else [k[0] if isinstance(k, tuple) else k for k in g]
    return sorted({k for k in keys if isinstance(k, str) and k.startswith('corrections')})


def check_joint_views(ctx, vcfg, route, views):
    """views: [(tag, data set)] opened from ONE store with applycal (other products / other preselection).  Their
    corrected arrays computed in one dask graph must equal those computed alone, and no two views may share the
    name of a corrections array (dask merges tasks with equal names)."""
    import dask.array as da
    tags = '+'.join(t for t, _ in views)
    named = []
    for tag, d in views:
        for name in _corr_names(d):
            named.append((tag, name, list(d.applycal_products)))
    check_names(ctx, vcfg, route, named, ';views=' + tags)
    # flags of views with DIFFERENT preselections are left out: ChunkStoreVisFlagsWeights names its data-lost layer
    # '<prefix>/flags_raw' whatever the preselection (vis_flags_weights.py, outside this property's code; reported),
    # so they collide in one graph with or without applycal.  Flags of views with the same preselection, and vis /
    # weights of all views, are compared.
    arrays = [(tag, nm, getattr(d, nm).dataset) for tag, d in views for nm in ('vis', 'weights', 'flags')
              if nm != 'flags' or tag in ('full', 'fewer_products')]
    if any(tag not in ('full', 'fewer_products') for tag, _ in views):
        ctx.count('joint_flags_left_out_for_other_preselection(flags_raw_name)')
    alone = [a.compute(scheduler='synchronous') for _, _, a in arrays]
    try:
        joint = da.compute(*[a for _, _, a in arrays], scheduler='synchronous')
    except Exception as e:
        ctx.disagree('route=%s;obs=joint_compute;views=%s;symptom=raises;exc=%s' % (route, tags, type(e).__name__),
                     vcfg, repr(e)[:300], 'a result', 'corrected arrays of two views computed in one dask graph raised')
        return
    for (tag, nm, _), a, b in zip(arrays, joint, alone):
        if a.shape != b.shape or not np.all(same_c(a, b) if nm == 'vis' else a == b):
            at = tuple(int(v) for v in np.argwhere(~(same_c(a, b) if nm == 'vis' else a == b))[0]) \
                if a.shape == b.shape else None
            ctx.disagree('route=%s;obs=joint_compute;views=%s;arr=%s;symptom=differs_from_separate_compute'
                         % (route, tags, nm), vcfg, dict(view=tag, at=at, value=str(a[at]) if at else list(a.shape)),
                         dict(view=tag, at=at, value=str(b[at]) if at else list(b.shape)),
                         '%s of view %s computed in one dask graph with the other view(s) differs from computing it '
                         'alone' % (nm, tag))
            break
    ctx.count('joint_views=' + tags)
    ctx.traces_validated += 1


def joint_views_v4(ctx, vcfg, x, got_names):
    """the fully opened data set + the same store with fewer products / without its first dump"""
    views = [('full', x.d)]
    T = vcfg['T']
    if len(got_names) >= 2:
        try:
            views.append(('fewer_products', _open_public(x, applycal=list(got_names[:-1]))))
        except Exception:
            ctx.count('joint_view_not_opened=fewer_products')
    if T >= 2:
        try:
            views.append(('dumps_from_1', _open_public(x, applycal=list(got_names), preselect=dict(dumps=slice(1, T)))))
        except Exception:
            ctx.count('joint_view_not_opened=dumps_from_1')     # e.g. a K / B product without a solution it can see
    if len(views) > 1:
        check_joint_views(ctx, vcfg, 'v4', views)


def run_preselected(ctx, vcfg, x, inputs, bls, cal_freqs, freqs, stored, full, want_full, shape_tag, want_names,
                    targets):
    """Open the same store with preselect (channels and/or dumps) + applycal and compare (1) with the fully opened
    data set restricted to the same dumps and channels (the property: independent of the loaded subset) and
    (2) with the spec on the corrections the solutions call for on the loaded subset."""
    from fixtures import v4
    pre = vcfg['preselect']
    T, F = vcfg['T'], vcfg['F']
    t0, t1 = pre.get('dumps', [0, T])
    c0, c1 = pre.get('channels', [0, F])
    pk = {k: slice(*v) for k, v in pre.items()}
    what = '+'.join(sorted(pre))
    applycal = vcfg['applycal'] if isinstance(vcfg['applycal'], str) else list(vcfg['applycal'])
    try:
        # the target of every loaded dump as THIS data set sees it (katdal aligns target changes with scan starts,
        # which may differ when only some dumps are loaded: an input of this property, not its subject)
        targets_p = [int(v) for v in _open_public(x, preselect=pk).sensor['Observation/target_index']]
        same_targets = [targets_p.index(v) for v in targets_p] == [targets[t0:t1].index(v) for v in targets[t0:t1]]
        dp = _open_public(x, preselect=pk, applycal=applycal)
        got = dict(vis=dp.vis[:], weights=dp.weights[:], flags=dp.raw_flags[:])
        products = list(dp.applycal_products)
        read = {name: _read_corrections(dp, name, inputs, t1 - t0) for name in products}
    except Exception as e:
        ctx.disagree('route=v4pre;pre=%s;symptom=raises;exc=%s' % (what, type(e).__name__) + shape_tag, vcfg,
                     repr(e)[:300], 'a result', 'opening / reading a preselected data set with applycal raised')
        return
    if products != want_names:
        ctx.disagree('route=v4pre;pre=%s;symptom=products_dropped' % what, vcfg, products, want_names,
                     'applycal products of the preselected data set differ from those the request calls for')
    # corrections the solutions call for when only dumps [t0, t1) are loaded; they differ from those of the whole
    # data set only for time-interpolated gains whose solutions fall outside the loaded dumps (known finding C13-F3)
    want, wmask = expected_corrections(vcfg, inputs, freqs[c0:c1], (t0, t1), want_names, targets_p, ctx)
    wf, wfm = want_full
    gain_cause = False
    for pname in want:
        ptype = pname.split('.')[1]
        on_data = ptype not in GAIN_TYPES
        cut = [[(g[c0:c1] if on_data else g) for g in per[t0:t1]] for per in wf[pname]]
        cutm = [[(g[c0:c1] if on_data else g) for g in per[t0:t1]] for per in wfm[pname]]
        same_mask = all(np.array_equal(a, b) for pa, pb in zip(wmask[pname], cutm) for a, b in zip(pa, pb)) \
            if [len(p) for p in wmask[pname]] == [len(p) for p in cutm] else False
        if _same_corrections(want[pname], cut) is not None or not same_mask:
            gain_cause = gain_cause or ptype in GAIN_TYPES
        # a gain interpolated strictly between two different solutions: the fraction depends on where the solutions
        # outside the loaded dumps collapse to (the same finding)
        if ptype in GAIN_TYPES and 'dumps' in pre and any(mk.any() for per in wmask[pname] + cutm for mk in per):
            gain_cause = True
    selfcal = any(n.split('.')[1] in ('GPHASE', 'GAMP_PHASE') for n in want_names)
    if not same_targets:
        ctx.count('v4pre_targets_realigned_by_preselect')
    for nm in ('vis', 'weights', 'flags'):
        if selfcal and not same_targets:
            break                  # per-target gains on differently partitioned dumps: not comparable dump by dump
        a, b = got[nm], full[nm][t0:t1, c0:c1]
        eq = (a.shape == b.shape) and np.all(same_c(a, b) if nm == 'vis' else a == b)
        if not eq:
            at = tuple(int(v) for v in np.argwhere(~(same_c(a, b) if nm == 'vis' else a == b))[0]) \
                if a.shape == b.shape else None
            sig = 'route=v4pre;pre=%s;obs=%s;symptom=differs_from_fully_opened;cause=other' % (what, nm) + shape_tag
            if gain_cause:
                # one signature for the known finding C13-F3, whatever observable shows it first
                sig = 'route=v4pre;symptom=differs_from_fully_opened;cause=gain_solutions_outside_loaded_dumps'
            ctx.disagree(sig, vcfg,
                         dict(at=at, value=str(a[at]) if at else list(a.shape)),
                         dict(at=at, value=str(b[at]) if at else list(b.shape)),
                         'data set opened with preselect=%s differs from the same dumps/channels of the fully opened '
                         'one in %s' % (pre, nm))
            if gain_cause:
                break
    vis0, w0, f0 = [a[t0:t1, c0:c1] for a in stored]
    pcfg0 = _direct_cfg(inputs, bls, freqs[c0:c1], [], [[t1 - t0], [c1 - c0]], vis0, w0, f0)
    pcfg, mp = _spec_on(ctx, pcfg0, want, wmask, read, want_names, cal_freqs)
    compare(ctx, cfg_with(vcfg, pcfg), got, mp, 'v4pre', sides=('spec',), spec_name='spec_from_solutions',
            tag=';pre=%s' % what + shape_tag)
    ctx.traces_validated += 1


class cfg_with(dict):
    """the replayable case is the v4 configuration; feature extraction needs the derived direct configuration."""
    def __init__(self, vcfg, cfg):
        super().__init__(vcfg)
        self._cfg = cfg

    def __getitem__(self, k):
        return self._cfg[k] if k == 'prods' else super().__getitem__(k)


def run_invert(ctx, vcfg):
    from fixtures import c13cal, v4
    T, F, ants = vcfg['T'], vcfg['F'], vcfg['ants']
    bls = v4.bls_ordering_for(ants)
    if vcfg.get('shuffle_bls'):
        import random
        random.Random(vcfg['seed']).shuffle(bls)
    B = len(bls)
    rs = np.random.RandomState(vcfg['seed'])
    clean = (rs.randint(-64, 64, size=(T, F, B)) + 1j * rs.randint(-64, 64, size=(T, F, B))).astype(np.complex128)
    cal = vcfg['cal']
    freqs = c13cal.cal_channel_freqs(cal)          # same channelisation as the data in this stream
    gain = {}
    for a_i, ant in enumerate(cal['antlist']):
        for p_i, pol in enumerate(cal['pol_ordering']):
            g = np.ones(F, np.complex128)
            for t, events in cal['products'].items():
                arr = events[0][1]
                if t == 'K':
                    g = g * np.exp(2j * np.pi * arr[p_i][a_i] * freqs)
                elif t == 'G':
                    g = g * complex(*arr[p_i][a_i])
                else:
                    g = g * np.array([complex(*arr[k][p_i][a_i]) for k in range(F)])
            gain[ant + pol] = g
    corrupt = clean.copy()
    for b, (i1, i2) in enumerate(bls):
        corrupt[:, :, b] *= (gain[i1] * np.conj(gain[i2]))[np.newaxis, :]
    x = None
    try:
        try:
            x, _ = _build(vcfg, arrays={'correlator_data': corrupt.astype(np.complex64)})
            got = x.d.vis[:].astype(np.complex128)
            prods_ok = list(x.d.applycal_products) == list(vcfg['applycal'])
        except Exception as e:
            ctx.disagree('route=invert;symptom=raises;exc=%s' % type(e).__name__, vcfg, repr(e)[:300], 'a result',
                         'opening / reading a data set with applycal raised')
            return
        tol = REL_TOL * np.maximum(np.abs(clean), 1.0) * (1 + len(vcfg['applycal']))
        err = np.maximum(np.abs(got.real - clean.real), np.abs(got.imag - clean.imag))
        bad = ~(err <= tol)
        if bad.any() or not prods_ok:
            at = tuple(int(v) for v in np.argwhere(bad)[0]) if bad.any() else None
            ctx.disagree('route=invert;symptom=not_restored', vcfg,
                         dict(at=at, value=str(got[at]) if at else None, products=list(x.d.applycal_products)),
                         dict(at=at, value=str(clean[at]) if at else None),
                         'data corrupted by known gains are not restored within %g relative' % REL_TOL)
        # the stated bound of C13_restored_within_rounding: |got - clean| <= ((1 + eps)^n - 1) * |clean| with
        # eps = 2^-22 per rounded complex64 operation and n = 4 * #products + 3 rounding steps (reciprocal and running
        # product per input and product, g1 * conj(g2), data * c, the stored value).  Recorded in the evidence; the
        # pass / fail tolerance above is the wider one (the solutions in telstate are themselves rounded).
        n_steps = 4 * len(vcfg['applycal']) + 3
        bound = float((1 + Fraction(1, 2 ** 22)) ** n_steps - 1)
        ctx.count('invert_within_theorem_bound(eps=2^-22,n=4P+3)=%s'
                  % bool(np.all(np.abs(got - clean) <= bound * np.abs(clean))))
        pre = vcfg.get('preselect') or {}
        if pre:
            t0, t1 = pre.get('dumps', [0, T])
            c0, c1 = pre.get('channels', [0, F])
            pk = {k: slice(*v) for k, v in pre.items()}
            what = '+'.join(sorted(pre))
            try:
                dp = _open_public(x, preselect=pk, applycal=list(vcfg['applycal']))
                gotp = dp.vis[:].astype(np.complex128)
                prods_ok = list(dp.applycal_products) == list(vcfg['applycal'])
            except Exception as e:
                ctx.disagree('route=invert;pre=%s;symptom=raises;exc=%s' % (what, type(e).__name__), vcfg,
                             repr(e)[:300], 'a result', 'opening / reading a preselected data set with applycal raised')
                return
            want = clean[t0:t1, c0:c1]
            errp = np.maximum(np.abs(gotp.real - want.real), np.abs(gotp.imag - want.imag)) \
                if gotp.shape == want.shape else np.full(want.shape, np.inf)
            badp = ~(errp <= tol[t0:t1, c0:c1])
            if badp.any() or not prods_ok:
                at = tuple(int(v) for v in np.argwhere(badp)[0]) if badp.any() else None
                ctx.disagree('route=invert;pre=%s;symptom=loaded_subset_not_restored' % what, vcfg,
                             dict(at=at, value=str(gotp[at]) if at and gotp.shape == want.shape else list(gotp.shape),
                                  products=list(dp.applycal_products)),
                             dict(at=at, value=str(want[at]) if at else None),
                             'data corrupted by known gains, opened with preselect=%s, are not restored within %g '
                             'relative' % (pre, REL_TOL))
            ctx.traces_validated += 1
            ctx.count('invert_preselect=%s' % what)
        ctx.traces_validated += 1
        ctx.note_case(cfg_key(vcfg), nontrivial=True,
                      sample=dict(route='invert', applycal=vcfg['applycal'], max_rel_err=float((err / np.maximum(np.abs(clean), 1)).max())))
        ctx.count('route=invert')
        ctx.extra['invert_max_rel_err'] = max(ctx.extra.get('invert_max_rel_err', 0.0),
                                              float((err / np.maximum(np.abs(clean), 1)).max()))
    finally:
        if x is not None:
            v4.cleanup(x)


def run_case(ctx, cfg):
    if cfg.get('route') == 'sol':
        run_sol(ctx, cfg)
    elif cfg.get('route') == 'direct':
        mo = ctx.model([model_case(cfg)])[0] if ctx.model_ok else None
        if mo == [-999]:
            ctx.disagree('route=direct;symptom=model_rejects_case', cfg, None, mo, 'wire format error', kind='tie')
            return
        run_direct(ctx, cfg, mo)
    else:
        run_v4(ctx, cfg)


def run(ctx):
    import random
    for f in ctx.findings:
        if f.get('witness'):
            run_case(ctx, f['witness'])
    n = ctx.scale(300, 5000)
    cfgs = [gen_direct(random.Random(ctx.rng.getrandbits(48)), ctx.tier) for _ in range(n)]
    mouts = ctx.model([model_case(c) for c in cfgs]) if ctx.model_ok else [None] * n
    for cfg, mo in zip(cfgs, mouts):
        if mo == [-999]:
            ctx.disagree('route=direct;symptom=model_rejects_case', cfg, None, mo, 'wire format error', kind='tie')
            continue
        run_direct(ctx, cfg, mo)
    for _ in range(ctx.scale(150, 3000)):
        run_sol(ctx, gen_sol(random.Random(ctx.rng.getrandbits(48)), ctx.tier))
    for k in range(ctx.scale(48, 600)):
        # a sixth of the cases each: a multi-part B product; reopened with a channel (+ dumps) preselection; zero
        # solutions in every product; a lenient request by bare types with a missing type before a present one;
        # 'all' / 'default' / the stream with some product types missing; free
        force = [dict(parts=True), dict(pre=['channels', 'both'][k // 6 % 2]), dict(zero=True),
                 dict(request='types', l2=k // 6 % 2), dict(request='group', l2=1 - k // 6 % 2), None][k % 6]
        run_v4(ctx, gen_v4(random.Random(ctx.rng.getrandbits(48)), ctx.tier, force))
    for _ in range(ctx.scale(12, 120)):
        run_v4(ctx, gen_invert(random.Random(ctx.rng.getrandbits(48)), ctx.tier))
    # numpy's reciprocal of zero is NaN (the model's Cinv): probed on every run
    z = np.reciprocal(np.array([0, 2, 1j, 1 + 1j], np.complex64))
    mz = ctx.model([[13, [2, [0, 0, 0]]], [13, [2, [2, 0, 0]]], [13, [2, [0, 1, 0]]], [13, [2, [1, 1, 0]]]]) \
        if ctx.model_ok else None
    if mz is not None:
        got = [[] if np.isnan(v) else [q_wire(Fraction(float(v.real))), q_wire(Fraction(float(v.imag)))] for v in z]
        if got != mz:
            ctx.disagree('route=recip;symptom=reciprocal_differs', dict(route='recip'), got, mz,
                         'np.reciprocal(complex64) differs from the model Cinv', kind='tie')
    ctx.exhaustive = False


def replay(ctx, doc):
    run_case(ctx, doc.get('case', {}))
