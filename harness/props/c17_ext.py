"""C17 (extension streams): every open path, slice normalisation, the whole open incl. the channel-count fallback,
vis / flags / weights of a preselected data set on stores with lost chunks and flag streams of another length,
timestamps handed to the data source, named spectral windows and histories of operations on them.

Used by props/c17.py (run / replay).  Spec values are computed here in Python, never from Generated.v."""
import os
from fractions import Fraction

import dask
import numpy as np

import katdal
from fixtures import c06store as fx6
from fixtures import v4
from katdal.datasources import TelstateDataSource
from katdal.spectral_window import SpectralWindow
from katdal.visdatav4 import VisibilityDataV4


def q(x):
    f = Fraction(x)
    return [f.numerator, f.denominator]


def fq(pair):
    return Fraction(pair[0], pair[1])


def exact(x):
    return Fraction(float(x))


def codes(s):
    return [ord(ch) for ch in s]


def oz(v):
    return [] if v is None else [int(v)]


def is_int(v):
    return v is None or (type(v) is int)


def enc_val(v):
    if isinstance(v, slice) and is_int(v.start) and is_int(v.stop) and is_int(v.step):
        return [oz(v.start), oz(v.stop), oz(v.step)]
    return 0


def enc_pre(pre):
    """preselect dict (or None) -> wire form of `option presel`."""
    if pre is None:
        return []
    return [[[codes(k), enc_val(v)] for k, v in pre.items()]]


def unit_slice(v):
    return isinstance(v, slice) and (v.step is None or (type(v.step) is int and v.step == 1)) \
        and is_int(v.start) and is_int(v.stop)


def verdict(fn):
    """0 accepted | 1 unknown key | 2 not a unit-step slice | 3 TypeError (format) | 4 key refused for a list |
    5 no dump left | 6 no channel left | 7.. other rejections; plus whatever fn returned."""
    try:
        return 0, fn(), ''
    except IndexError as e:
        m = str(e)
        c = 1 if 'can only specify' in m else 2 if 'must be a slice with unit step' in m else \
            4 if 'Unsupported preselect key' in m else 6 if 'channel indices out of range' in m else \
            5 if 'out of bounds' in m else 9
        return c, None, m
    except TypeError as e:
        return (3 if 'preselect is not supported' in str(e) else 8), None, str(e)
    except (ValueError, AssertionError) as e:
        return 7, None, repr(e)
    except Exception as e:       # anything else (file not found, unknown format, ...) is not one of the documented answers
        return 10, None, repr(e)


def same_verdict(code, mcode):
    """Implementation verdict vs model verdict.  The kinds of IndexError (1, 2, 4, 5, 6) are told apart by their message
    text, which the property does not constrain: an IndexError whose text is not one we know (9) agrees with any of them."""
    if code == mcode:
        return True
    if code == 9 and mcode in (1, 2, 4, 5, 6):
        return True
    return False


# ---------------------------------------------------------------------------- (g) validation on every open path

PATHS = ('direct', 'meta', 'open', 'list', 'given', 'other')


def open_path(x, pre, path, rdb, off=0.0):
    kw = {} if pre is None else dict(preselect=pre)
    if path == 'direct':
        src = TelstateDataSource(x.view, x.cbid, x.stream, chunk_store=x.store, **kw)
        return VisibilityDataV4(src, time_offset=off, **kw)
    if path == 'meta':
        src = TelstateDataSource(x.view, x.cbid, x.stream, chunk_store=None, **kw)
        return VisibilityDataV4(src, time_offset=off, **kw)
    if path == 'given':
        T = x.chunk_info['correlator_data']['shape'][0]
        stamps = 1600000000.0 + 4.0 * np.arange(T)
        src = TelstateDataSource(x.view, x.cbid, x.stream, chunk_store=None, timestamps=stamps, **kw)
        return VisibilityDataV4(src, time_offset=off, **kw)
    if path == 'open':
        return katdal.open(rdb, time_offset=off, **kw)
    if path == 'list':
        return katdal.open([rdb], time_offset=off, **kw)
    if path == 'other':
        return katdal.open(os.path.join(x.tmp, 'no_such_file.h5'), time_offset=off, **kw)
    raise ValueError(path)


def check_paths(ctx, x, rdb, pre, paths, T=4, F=4):
    """One preselect dictionary through the given open paths: accept / reject and WHICH rejection vs model and rule."""
    case = dict(preselect=repr(pre), paths=list(paths))
    mcases = []
    for path in paths:
        if path == 'list':
            mcases.append([171, [1, 1, enc_pre(pre)]])
        elif path == 'other':
            mcases.append([171, [1, 2, enc_pre(pre)]])
        else:
            src = [[[0, 1], [0, 1], [1, 1], [0, 1], [], 0, 0], T, F, q(0), q(F), [] if path in ('meta', 'given') else [F]]
            mcases.append([173, [1, src, enc_pre(pre)]])
    mouts = ctx.model(mcases) if ctx.model_ok else [None] * len(paths)
    d = {} if pre is None else pre
    for path, mo in zip(paths, mouts):
        if path == 'other' and pre is None:
            continue          # would try to read a file that is not there
        code, _, msg = verdict(lambda: open_path(x, pre, path, rdb))
        allowed = {'channels'} if path == 'list' else set() if path == 'other' else {'dumps', 'channels'}
        if path == 'other':
            want = 0
        else:
            want = int(set(d) <= allowed and all(unit_slice(v) for v in d.values()))
            if want:        # the rule also wants something to be left
                want = int(all(len(range(*v.indices(T if k == 'dumps' else F))) > 0 for k, v in d.items()))
        if int(code == 0) != want:
            bad_key = not set(d) <= allowed
            ctx.disagree('what=preselect_validation;%s;path=%s' % ('unknown_key' if bad_key else 'step', path),
                         dict(case, path=path), code, None,
                         'preselect accepted/rejected contrary to the rule (only unit-step dumps/channels slices; '
                         'channels only for a list of files; none for other formats)', spec=want)
        if mo is not None:
            mcode = mo if isinstance(mo, int) else (mo[0] if len(mo) == 1 else 0)
            if not same_verdict(code, mcode) and not (code in (7, 8) and mcode != 0):
                ctx.disagree('what=preselect_validation_tie;path=%s' % path, dict(case, path=path), [code, msg[:80]], mcode,
                             'verdict (accepted / which error) differs from the model', kind='tie')
        ctx.note_case(('paths', repr(pre), path), sample=None)
        ctx.count('validation:path_' + path)
        ctx.count('validation:%s' % ('accepted' if code == 0 else 'rejected'))
        ctx.traces_validated += 1


# ---------------------------------------------------------------------------- (h) slice normalisation

def check_indices(ctx):
    """The model of slice.indices (unit step) against Python, numpy and dask on a complete grid of small values."""
    import dask.array as da
    cases = []
    grid = []
    for n in range(0, 7):
        bounds = [None] + list(range(-n - 2, n + 3))
        for a in bounds:
            for b in bounds:
                grid.append((n, a, b))
                cases.append([171, [2, n, oz(a), oz(b)]])
    outs = ctx.model(cases) if ctx.model_ok else None
    darrs = {n: da.from_array(np.arange(n), chunks=max(n, 1)) for n in range(0, 7)}
    for k, (n, a, b) in enumerate(grid):
        lo, hi, _ = slice(a, b).indices(n)
        ln = len(np.arange(n)[a:b])
        want = [lo, hi, ln]
        if ln != max(hi - lo, 0) or darrs[n][a:b].shape[0] != ln:
            ctx.disagree('what=slice_indices_python', dict(n=n, start=a, stop=b), [lo, hi, ln], None,
                         'numpy / dask keep another number of items than slice.indices says')
        if outs is not None and outs[k] != want:
            ctx.disagree('what=slice_indices_tie', dict(n=n, start=a, stop=b), want, outs[k],
                         'model of slice.indices differs from Python', kind='tie')
        ctx.note_case(('indices', n, a, b), nontrivial=ln >= 1, sample=None)
    ctx.count('slice_indices', len(grid))


# ---------------------------------------------------------------------------- (i) the whole open

def spw_attrs(s):
    return [exact(s.centre_freq), exact(s.bandwidth), int(s.num_chans), int(s.sideband), exact(s.channel_width)]


def model_attrs(o):
    return [fq(o[0]), fq(o[1]), o[2], o[3], fq(o[4])]


def check_open(ctx, c17, t, T, F, N, dsl, csl, via, cw=1.0, centre=1284.0):
    """TelstateDataSource + VisibilityDataV4 (or katdal.open) on a store of T dumps x F channels whose n_chans attribute
    is N: everything the opened data set shows against the model (tie) and against the statement (property)."""
    bw = 840.0 * cw

    def hook(ts, cbid, stream):
        if N != F:
            ts.delete(ts.join(stream, 'n_chans'))
            ts.view(stream)['n_chans'] = N
    x = v4.build_v4(T=T, F=F, seed=ctx.seed + 3, sync_time=t['sync'], first_timestamp=t['first'], int_time=t['int_time'],
                    cbf=None if t['cbf'] is None else (t['cbf'], 64, 1712e6),
                    sub_pool_resources=('cbf_dev_2,sdp_1,m000,m001' if t['cmc2'] else 'cbf_1,sdp_1,m000,m001'),
                    sub_product=('c856M4k' if t['cbf4k'] else 'c856M1k'), bandwidth=bw, center_freq=centre,
                    telstate_hook=hook, construct=False)
    pre = {}
    if dsl is not None:
        pre['dumps'] = slice(*dsl)
    if csl is not None:
        pre['channels'] = slice(*csl)
    case = dict(open_model=True, timing=c17.timing_case(t), T=T, F=F, N=N, dsl=None if dsl is None else list(dsl),
                csl=None if csl is None else list(csl), via=via, cw=cw, centre=centre)
    a, b, _ = slice(*(dsl or (None, None))).indices(T)
    c, d_, _ = slice(*(csl or (None, None))).indices(N)
    c2, d2, _ = slice(*(csl or (None, None))).indices(F)
    n, nc, ncd = max(b - a, 0), max(d_ - c, 0), max(d2 - c2, 0)
    try:
        def go():
            if via == 'open':
                return katdal.open(c17.write_rdb(x), time_offset=t['off'], **(dict(preselect=pre) if pre else {}))
            return open_path(x, pre or None, via, None, off=t['off'])
        with dask.config.set(scheduler='sync'):
            code, ds, msg = verdict(go)
            impl = None
            if ds is not None:
                s = ds.spectral_windows[0]
                impl = dict(ts=[exact(v) for v in ds.timestamps], start=exact(ds.start_time.secs), end=exact(ds.end_time.secs),
                            off=exact(ds.time_offset), freqs=[exact(v) for v in ds.freqs], cw=exact(ds.channel_width),
                            spw=spw_attrs(s), shape=[int(v) for v in ds.shape[:2]],
                            index=None if via == 'meta' else
                            [list(sl.indices(nn)[:2]) for sl, nn in zip(ds.source.data.preselect_index, (T, F))])
    except Exception as e:
        ctx.disagree('what=exception;stream=open_model;via=%s;exc=%s' % (via, type(e).__name__), case, repr(e)[:300], None,
                     'opening raised something else than the documented rejections')
        return
    finally:
        v4.cleanup(x)
    want_ok = n > 0 and (csl is None or nc > 0)
    fallback = via != 'meta' and nc != ncd
    if want_ok and code != 0:
        # (an EMPTY preselection that is accepted is compared with the model only: the statement just wants it not
        # answered wrongly)
        ctx.disagree('what=open_accepts;via=%s;keys=%s' % (via, '+'.join(sorted(pre))), case, [code, msg[:80]], None,
                     'a valid preselection with dumps and channels left was refused', spec=1)
    mo = None
    if ctx.model_ok:
        src = [c17.wire_timing(t), T, N, q(centre), q(bw), [] if via == 'meta' else [F]]
        mo = ctx.model([[173, [1, src, enc_pre(pre or None)]]])[0]
        mcode = mo[0] if len(mo) == 1 else 0
        if not same_verdict(code, mcode):
            ctx.disagree('what=open_verdict_tie;via=%s' % via, case, [code, msg[:80]], mcode,
                         'accepted / which IndexError differs from the model', kind='tie')
    if impl is not None and want_ok:
        # ---- the statement
        want_ts = c17.spec_py(t, a, n)
        half = Fraction(t['int_time']) / 2
        if impl['ts'] != want_ts or impl['start'] != want_ts[0] - half or impl['end'] != want_ts[-1] + half:
            ctx.disagree('what=timestamps;preselect=%s;lite=%s;start=%s;via=%s;stream=open_model'
                         % (bool(pre), t['cbf'] is None, c17.where(t), via), case, [float(v) for v in impl['ts'][:3]], None,
                         'timestamps / start / end differ from the documented formula for the preselected dumps',
                         spec=[float(v) for v in want_ts[:3]])
        if not fallback:
            want_f = [Fraction(centre) + (c + j - N // 2) * Fraction(bw) / N for j in range(nc)]
            if impl['freqs'] != want_f or impl['cw'] != Fraction(bw) / N or impl['spw'][2] != nc:
                ctx.disagree('what=v4_freqs;preselect=%s;via=%s;stream=open_model' % (csl is not None, via), case,
                             [float(v) for v in impl['freqs'][:4]], None,
                             'freqs / channel_width differ from center_freq + (c + j - N//2) * bandwidth / N',
                             spec=[float(v) for v in want_f[:4]])
        elif ncd > 0:
            want_f = [(j - ncd // 2) * Fraction(bw) / N for j in range(ncd)]
            if impl['freqs'] != want_f or impl['cw'] != Fraction(bw) / N or impl['spw'][0] != 0 or impl['spw'][2] != ncd \
                    or impl['spw'][3] != 1:
                ctx.disagree('what=channel_count_fallback;via=%s' % via, case, [float(v) for v in impl['freqs'][:4]], None,
                             'metadata and data disagree on the channel count: the window takes the data count, keeps '
                             'the channel width and sideband, centre 0 Hz (documented fallback of VisibilityDataV4)',
                             spec=[float(v) for v in want_f[:4]], kind='tie')
        if via != 'meta' and impl['shape'] != [n, ncd]:
            ctx.disagree('what=open_shape;via=%s' % via, case, impl['shape'], None,
                         'shape of the opened data set is not (dumps kept, channels kept)', spec=[n, ncd])
        # ---- the tie
        if mo is not None and len(mo) > 1:
            m = dict(ts=[fq(p) for p in mo[5]], start=fq(mo[6]), end=fq(mo[7]), off=fq(mo[8]), freqs=[fq(p) for p in mo[9]],
                     spw=model_attrs(mo[2]), index=None if via == 'meta' else [w for w in mo[4]])
            same = (impl['ts'] == m['ts'] and impl['start'] == m['start'] and impl['end'] == m['end'] and impl['off'] == m['off']
                    and (ncd == 0 or (impl['freqs'] == m['freqs'] and impl['spw'] == m['spw']))
                    and [mo[0], mo[1]] == [a, n] and bool(mo[3]) == fallback)
            if via != 'meta':
                # model index: [] per axis = np.s_[:]; the whole list empty = no preselection
                mi = [[0, nn] if w == [] else [w[0], max(w[0], w[1])] for w, nn in zip(m['index'] or [[], []], (T, F))]
                ii = [[lo, max(lo, hi)] for lo, hi in (impl['index'] or [[0, T], [0, F]])]
                same = same and mi == ii
            if not same:
                ctx.disagree('what=open_model_tie;via=%s;fallback=%s' % (via, fallback), case,
                             [float(v) for v in impl['ts'][:2]] + [float(v) for v in impl['freqs'][:2]] + impl['spw'][2:4],
                             [float(v) for v in m['ts'][:2]] + [float(v) for v in m['freqs'][:2]] + m['spw'][2:4],
                             'the opened data set differs from the model of the whole open', kind='tie')
    ctx.traces_validated += 1
    ctx.note_case(('open', repr(sorted(t.items())), T, F, N, dsl, csl, via, cw, centre), nontrivial=want_ok and n >= 2,
                  sample=dict(kind='open_model', **case))
    ctx.count('open_model')
    ctx.count('open_model:via_' + via)
    ctx.count('open_model:%s' % ('accepted' if code == 0 else 'rejected_%d' % code))
    if N != F:
        ctx.count('open_model:n_chans_attr_differs')
    if want_ok and fallback:
        ctx.count('open_model:fallback')


# ---------------------------------------------------------------------------- (j) vis / flags / weights

def enc_vis(a):
    a = np.asarray(a)
    return np.rint(a.real).astype(np.int64) * 256 + np.rint(a.imag).astype(np.int64)


def gen_vfw_case(rng, c06):
    """A store as C06 draws them (independent chunkings, lost chunks, a flags stream of another length), plus raw
    preselect bounds that leave something."""
    case = c06.gen_case(rng, path='v4', small=rng.random() < 0.6)
    T, F = max(case['nd'].values()), case['F']
    pre = []
    for n in (T, F):
        r = rng.random()
        if r < 0.2:
            pre.append(None)
            continue
        a = rng.randint(0, n - 1)
        b = rng.randint(a + 1, n)
        pre.append([rng.choice([a, a, a - n, None if a == 0 else a]),
                    rng.choice([b, b, None if b == n else b, b - n if b < n else n + rng.randint(0, 2)])])
    if pre == [None, None]:
        pre[0] = [0, None]
    case['pre'] = pre
    return case


def check_vfw(ctx, c06, c17, case, via='direct'):
    """Whole data set vs preselected data set on the same store; both against the model (tie) and each other (property)."""
    vals = fx6.make_values(case)
    ants = ('m000',) if case['B'] == 4 else ('m000', 'm001')
    nd = case['nd']
    T0 = nd['correlator_data']
    T, F = max(nd.values()), case['F']
    arrays = {k: vals[k] for k in fx6.ARRAYS if not (k == 'flags' and case.get('l1'))}
    if case.get('l1'):
        arrays['flags'] = np.zeros((T0,) + vals['flags'].shape[1:], np.uint8)
    chunks = {k: tuple(tuple(c) for c in case['chunks'][k]) for k in arrays}
    if case.get('l1'):
        chunks['flags'] = None
    lose = []
    for name, lst in case['lost'].items():
        strm = 'sdp_l1_flags' if (name == 'flags' and case.get('l1')) else 'sdp_l0'
        lose += [(strm, name, tuple(i)) for i in lst]
    pre = {}
    raw = case['pre']
    if raw[0] is not None:
        pre['dumps'] = slice(raw[0][0], raw[0][1])
    if raw[1] is not None:
        pre['channels'] = slice(raw[1][0], raw[1][1])
    a, b, _ = slice(*(raw[0] or (None, None))).indices(T)
    c, d_, _ = slice(*(raw[1] or (None, None))).indices(F)
    rcase = dict(vfw=True, via=via, **{k: case[k] for k in ('F', 'B', 'nd', 'chunks', 'lost', 'pre', 'l1', 'seed')})
    feats = 'keys=%s;l1=%s;dumps=%s' % ('+'.join(sorted(pre)), bool(case.get('l1')),
                                       'equal' if len(set(nd.values())) == 1 else 'differ')
    tmp = v4.scratch_dir('c17vfw')
    try:
        with dask.config.set(scheduler='sync'):
            x = v4.build_v4(T=T0, F=F, ants=ants, arrays=arrays, chunks=chunks, tmp=tmp, seed=case.get('seed', 0),
                            l1_flags=vals['flags'] if case.get('l1') else None,
                            l1_chunks=tuple(tuple(cc) for cc in case['chunks']['flags']) if case.get('l1') else None,
                            lose=lose, acts=((0, 'track'),), bandwidth=F * 4.0, center_freq=1284.0)
            full = x.d
            n_ts = len(full.timestamps)
            if via == 'open':
                dp = katdal.open(c17.write_rdb(x), preselect=pre)
            else:
                dp = v4.reopen(x, dict(preselect=pre), dict(preselect=pre))
            o_pre = dict(vis=enc_vis(dp.vis[:]), weights=np.asarray(dp.weights[:]).astype(np.float64),
                         flags=np.asarray(dp.raw_flags[:]).astype(np.int64), ts=np.asarray(dp.timestamps),
                         freqs=np.asarray(dp.freqs), bflags=np.asarray(dp.flags[:]))
            o_all = dict(vis=enc_vis(full.vis[:]), weights=np.asarray(full.weights[:]).astype(np.float64),
                         flags=np.asarray(full.raw_flags[:]).astype(np.int64))
            full.select(**pre)
            o_sel = dict(vis=enc_vis(full.vis[:]), weights=np.asarray(full.weights[:]).astype(np.float64),
                         flags=np.asarray(full.raw_flags[:]).astype(np.int64), ts=np.asarray(full.timestamps),
                         freqs=np.asarray(full.freqs), bflags=np.asarray(full.flags[:]))
    except Exception as e:
        ctx.disagree('what=exception;stream=vfw;%s;via=%s;exc=%s' % (feats, via, type(e).__name__), rcase, repr(e)[:300], None,
                     'opening / reading a (preselected) data set on a store with lost chunks raised')
        return
    finally:
        fx6.rmtree(tmp)
    if n_ts != T:
        ctx.disagree('what=dump_count;%s' % feats, rcase, n_ts, None,
                     'the data set does not have as many dumps as the longest of its arrays (flag stream / L0)', spec=T,
                     kind='tie')
    # ---- property: preselected == selected, observable by observable
    for nm in ('ts', 'freqs', 'vis', 'weights', 'flags', 'bflags'):
        if o_pre[nm].shape != o_sel[nm].shape or not np.array_equal(o_pre[nm], o_sel[nm]):
            obs = {'ts': 'timestamps', 'bflags': 'flags', 'flags': 'raw_flags'}.get(nm, nm)
            ctx.disagree('what=preselect_equiv;observable=%s;%s;via=%s;stream=vfw' % (obs, feats, via), rcase,
                         np.asarray(o_pre[nm]).ravel()[:4].tolist(), None,
                         'preselected data set differs from select() on the whole data set in %s (store with lost chunks / '
                         'flag stream of another length)' % obs, spec=np.asarray(o_sel[nm]).ravel()[:4].tolist())
    # ... and == the whole arrays cut at the preselected ranges (select itself is not trusted either)
    for nm in ('vis', 'weights', 'flags'):
        cut = o_all[nm][a:b, c:d_]
        if o_pre[nm].shape != cut.shape or not np.array_equal(o_pre[nm], cut):
            ctx.disagree('what=preselect_window;observable=%s;%s;via=%s' % (nm, feats, via), rcase,
                         np.asarray(o_pre[nm]).ravel()[:4].tolist(), None,
                         'preselected data set differs from dumps a:b, channels c:d of the whole arrays in ' + nm,
                         spec=np.asarray(cut).ravel()[:4].tolist())
    # ---- tie: both sides of the theorem as the extracted model computes them
    if ctx.model_ok:
        chs = [case['chunks'][k] for k in fx6.ARRAYS]
        lost = []
        for k in fx6.ARRAYS:
            ch = case['chunks'][k]
            lost.append([[int(s.start) for s in fx6.chunk_slices(ch, idx)] for idx in case['lost'].get(k, [])])
        data = [enc_vis(vals['correlator_data']).ravel().tolist(), vals['flags'].ravel().astype(int).tolist(),
                vals['weights'].ravel().astype(int).tolist(), vals['weights_channel'].ravel().astype(int).tolist()]
        mo = ctx.model([[172, [chs, enc_pre(pre)[0], lost, data]]])[0]
        shape = tuple(mo[0])
        if shape != o_pre['vis'].shape:
            ctx.disagree('what=vfw_tie;symptom=shape;%s' % feats, rcase, list(o_pre['vis'].shape), list(shape),
                         'shape of the preselected data differs from the model', kind='tie')
        else:
            for k, nm in enumerate(('vis', 'weights', 'flags')):
                m_pre = np.array(mo[2 + k], dtype=np.int64).reshape(shape)
                m_abs = np.array(mo[5 + k], dtype=np.int64).reshape(shape)
                if not np.array_equal(m_pre, m_abs):
                    ctx.disagree('what=vfw_model_sides_differ;observable=%s' % nm, rcase, None, None,
                                 'extracted model: preselected differs from whole at the shifted positions (contradicts the '
                                 'theorem: extraction / wire problem)', kind='tie')
                if not np.array_equal(o_pre[nm].astype(np.int64), m_pre):
                    ctx.disagree('what=vfw_tie;observable=%s;%s;via=%s' % (nm, feats, via), rcase,
                                 o_pre[nm].ravel()[:4].tolist(), m_pre.ravel()[:4].tolist(),
                                 'preselected data set differs from the chunk-store model in ' + nm, kind='tie')
    nlost = sum(len(v) for v in case['lost'].values())
    ctx.traces_validated += 1
    ctx.note_case(('vfw', c06.canon(case), via), nontrivial=nlost > 0 or len(set(nd.values())) > 1,
                  sample=dict(kind='vfw', F=F, B=case['B'], nd=nd, pre=case['pre'], n_lost=nlost, l1=case.get('l1')))
    ctx.count('vfw')
    ctx.count('vfw:lost=' + ('0' if nlost == 0 else '1-3' if nlost <= 3 else '4+'))
    ctx.count('vfw:flag_stream=' + ('none' if not case.get('l1') else 'same' if nd['flags'] == T0 else
                                    'longer' if nd['flags'] > T0 else 'shorter'))
    ctx.count('vfw:keys=' + '+'.join(sorted(pre)))
    ctx.count('vfw:via_' + via)


# ---------------------------------------------------------------------------- (k) timestamps handed to the data source

def check_given(ctx, c17, t, T, gaps, sl, with_store):
    """TelstateDataSource(timestamps=<array>, preselect=dumps) + VisibilityDataV4: irregular, dyadic timestamps."""
    t0 = t['sync'] + t['first']
    stamps = [t0 + g for g in gaps[:T]]
    x = c17.build(t, T, 4, ctx.seed + 5)
    a, b, _ = slice(*sl).indices(T)
    n = max(b - a, 0)
    pre = None if tuple(sl) == (0, T) else dict(dumps=slice(*sl))
    case = dict(given=True, timing=c17.timing_case(t), T=T, gaps=[float(g) for g in gaps[:T]], sl=list(sl), store=with_store)
    kw = {} if pre is None else dict(preselect=pre)
    try:
        src = TelstateDataSource(x.view, x.cbid, x.stream, chunk_store=x.store if with_store else None,
                                 timestamps=np.array(stamps), **kw)
        d = VisibilityDataV4(src, time_offset=t['off'], **kw)
        impl = dict(ts=[exact(v) for v in d.timestamps], start=exact(d.start_time.secs), end=exact(d.end_time.secs),
                    off=exact(d.time_offset))
    except Exception as e:
        if n == 0 and isinstance(e, (IndexError, ValueError)):
            ctx.note_case(('given-empty', repr(sorted(t.items())), T, tuple(sl)), nontrivial=False)
            ctx.count('given:empty_rejected')
            return
        ctx.disagree('what=exception;stream=given;exc=%s' % type(e).__name__, case, repr(e)[:300], None,
                     'opening with explicit timestamps raised on an in-domain input')
        return
    finally:
        v4.cleanup(x)
    dte = c17.fix_date_of(t)
    s0 = Fraction(stamps[0]) + Fraction(t['off'])
    fix = Fraction(t['cbf']) if (t['cbf'] is not None and s0 < dte) else 0
    want = [Fraction(stamps[a + i]) + Fraction(t['off']) - fix for i in range(n)]
    half = Fraction(t['int_time']) / 2
    if impl['ts'] != want or impl['start'] != want[0] - half or impl['end'] != want[-1] + half:
        ctx.disagree('what=timestamps;given=True;preselect=%s;start=%s' % (pre is not None, c17.where(t)), case,
                     [float(v) for v in impl['ts'][:3]], None,
                     'explicit timestamps: dump i is not given[a+i] + time_offset (-1 CBF dump when the CAPTURE started '
                     'before the fix date), or start / end do not bracket by half a dump', spec=[float(v) for v in want[:3]])
    if ctx.model_ok:
        mo = ctx.model([[173, [3, c17.wire_timing(t), [q(v) for v in stamps], a, n]]])[0]
        if impl['ts'] != [fq(p) for p in mo[0]] or impl['start'] != fq(mo[1]) or impl['end'] != fq(mo[2]) \
                or impl['off'] != fq(mo[3]) or want != [fq(p) for p in mo[4]]:
            ctx.disagree('what=given_timestamps_tie', case, [float(v) for v in impl['ts'][:3]],
                         [float(fq(p)) for p in mo[0][:3]], 'explicit timestamps: data set differs from the model', kind='tie')
    ctx.traces_validated += 1
    ctx.note_case(('given', repr(sorted(t.items())), T, tuple(gaps[:T]), tuple(sl), with_store), nontrivial=n >= 2,
                  sample=dict(kind='given', **case))
    ctx.count('given')
    ctx.count('given:%s' % ('store' if with_store else 'meta'))
    ctx.count('given:start_' + c17.where(t))


# ---------------------------------------------------------------------------- (l) named windows, histories, laws

def dyadic(fr):
    d = Fraction(fr).denominator
    return d & (d - 1) == 0


def obj_attrs(s):
    return spw_attrs(s) + [str(s.product), str(s.band)]


def model_obj(o):
    return model_attrs(o[0]) + [''.join(chr(c) for c in o[1]), ''.join(chr(c) for c in o[2])]


def gen_call(rng):
    n = rng.randint(1, 9)
    cw = rng.choice([1.0, 0.5, 4.0])
    call = dict(centre=float(rng.choice([1284.0, 0.0, 856.0 * 1024, -16.0])), cw=cw, n=n)
    if rng.random() < 0.6:
        call['sideband'] = rng.choice([1, -1])
    if rng.random() < 0.5:
        call['product'] = rng.choice(['c856M4k', 'bc856M1k', '', None])
    if rng.random() < 0.5:
        call['band'] = rng.choice(['L', 'UHF', 'S', 'X', 'Ku'])
    if rng.random() < 0.5:
        call['bandwidth'] = 2520.0 * cw
        call['cw'] = rng.choice([cw, 1.0, 7.0])        # ignored when bandwidth is given
    else:
        call['cw'] = 2520.0 * cw / n if dyadic(Fraction(2520.0 * cw) / n) else cw
    return call


def construct(call, style):
    """The same constructor call written positionally / with keywords / mixed."""
    order = ['product', 'sideband', 'band', 'bandwidth']
    given = [k for k in order if k in call]
    if style == 'positional':
        # positional arguments cannot skip a parameter: fill the gaps up to the last given one with the defaults
        dflt = dict(product=None, sideband=-1, band='L', bandwidth=None)
        last = max([order.index(k) for k in given], default=-1)
        args = [call.get(k, dflt[k]) for k in order[:last + 1]]
        explicit = set(order[:last + 1])
        return SpectralWindow(call['centre'], call['cw'], call['n'], *args), explicit
    if style == 'mixed' and 'product' in call:
        kw = {k: call[k] for k in given if k != 'product'}
        return SpectralWindow(call['centre'], call['cw'], call['n'], call['product'], **kw), set(given)
    return SpectralWindow(channel_width=call['cw'], num_chans=call['n'], centre_freq=call['centre'],
                          **{k: call[k] for k in given}), set(given)


def check_spw_object(ctx, call, style, ops):
    w, explicit = construct(call, style)
    case = dict(spw_object=True, call=call, style=style, ops=[list(o) for o in ops])
    want_side = call['sideband'] if 'sideband' in call else (-1)
    want_product = call['product'] if call.get('product') is not None else ''
    want_band = call.get('band', 'L')
    bw = Fraction(call['bandwidth']) if 'bandwidth' in call else Fraction(call['cw']) * call['n']
    want = [Fraction(call['centre']), bw, call['n'], want_side, bw / call['n'], want_product, want_band]
    got = obj_attrs(w)
    if got != want:
        names = ['centre_freq', 'bandwidth', 'num_chans', 'sideband', 'channel_width', 'product', 'band']
        ctx.disagree('what=spw_constructor;wrong=%s' % '+'.join(nm for nm, g, w_ in zip(names, got, want) if g != w_),
                     case, [str(v) for v in got], None,
                     'SpectralWindow(...) attributes differ from the documented constructor (defaults sideband -1, band L, '
                     'product ""; bandwidth wins over channel_width)', spec=[str(v) for v in want])
    # the history on the real objects
    res = []
    cur = w
    for k, op in enumerate(ops):
        try:
            cur = cur.subrange(op[1], op[2]) if op[0] == 0 else cur.rechannelise(op[1])
            res.append(cur)
        except IndexError:
            res.append(None)
            break
        except Exception as e:
            ctx.disagree('what=spw_history;symptom=exception:%s' % type(e).__name__, dict(case, step=k), repr(e)[:200], None,
                         'a sub-range / re-channelisation raised something else than IndexError')
            return
    for r in res:
        if r is not None and (str(r.product), str(r.band), int(r.sideband)) != (want_product, want_band, want_side):
            ctx.disagree('what=spw_names_lost', case, [str(r.product), str(r.band), int(r.sideband)], None,
                         'a sub-range / re-channelisation changed product, band or sideband',
                         spec=[want_product, want_band, want_side])
    if ctx.model_ok:
        # a positional default written out is an explicit argument as far as the model is concerned
        def opt(k, enc):
            if k in call or k in explicit:
                v = call.get(k, dict(product=None, sideband=-1, band='L', bandwidth=None)[k])
                return [] if v is None else [enc(v)]
            return []
        mcall = [q(call['centre']), q(call['cw']), call['n'], opt('product', codes), opt('sideband', int), opt('band', codes),
                 opt('bandwidth', q)]
        mo = ctx.model([[173, [2, mcall, [list(o) for o in ops]]]])[0]
        if obj_attrs(w) != model_obj(mo[0]) or [exact(v) for v in w.channel_freqs] != [fq(p) for p in mo[0][3]]:
            ctx.disagree('what=spw_constructor_tie', case, [str(v) for v in got], [str(v) for v in model_obj(mo[0])],
                         'constructed window differs from the model', kind='tie')
        if len(mo[1]) != len(res):
            ctx.disagree('what=spw_history_tie;symptom=length', case, len(res), len(mo[1]),
                         'history stops at another operation than in the model', kind='tie')
        else:
            for k, (r, m) in enumerate(zip(res, mo[1])):
                if (r is None) != (m == []):
                    ctx.disagree('what=spw_history_tie;symptom=acceptance', dict(case, step=k), r is None, m == [],
                                 'an operation of the history is accepted / refused contrary to the model', kind='tie')
                    break
                if r is None:
                    break
                if not all(dyadic(fq(m[0][i])) for i in (0, 1, 4)):
                    break       # float64 no longer exact from here on
                if obj_attrs(r) != model_obj(m) or [exact(v) for v in r.channel_freqs] != [fq(p) for p in m[3]]:
                    ctx.disagree('what=spw_history_tie;op=%s' % ('subrange' if ops[k][0] == 0 else 'rechannelise'),
                                 dict(case, step=k), [str(v) for v in obj_attrs(r)], [str(v) for v in model_obj(m)],
                                 'window after a history of operations differs from the model', kind='tie')
                    break
    ctx.note_case(('spwobj', repr(sorted(call.items())), style, tuple(map(tuple, ops))), nontrivial=len(res) >= 1,
                  sample=dict(kind='spw_object', **case))
    ctx.count('spw_object')
    ctx.count('spw_object:style_' + style)
    ctx.count('spw_object:history_len_%d' % len(ops))


def check_spw_laws(ctx, centre, cw, n, side):
    """Laws a user relies on, on the real objects with exact (dyadic) numbers: sub-range of everything == the window,
    sub-ranges compose, re-channelising there and back restores the window (== is SpectralWindow.__eq__)."""
    bw = 2520.0 * cw
    w = SpectralWindow(centre, 1.0, n, 'p', side, 'S', bandwidth=bw)
    case = dict(spw_laws=True, centre=centre, cw=cw, num_chans=n, sideband=side)
    if dyadic(Fraction(bw) / n) and not (w.subrange(0, n) == w and hash(w.subrange(0, n)) == hash(w)):
        ctx.disagree('what=spw_law;law=subrange_full', case, repr(w.subrange(0, n)._description), None,
                     'subrange(0, num_chans) is not equal to the window', spec=repr(w._description))
    if dyadic(Fraction(bw) / n):
        for f in range(0, n):
            for l in range(f + 1, n + 1):
                s = w.subrange(f, l)
                for f2 in range(0, l - f):
                    l2 = ctx.rng.randint(f2 + 1, l - f)
                    if not s.subrange(f2, l2) == w.subrange(f + f2, f + l2):
                        ctx.disagree('what=spw_law;law=subrange_compose', dict(case, f=f, l=l, f2=f2, l2=l2),
                                     repr(s.subrange(f2, l2)._description), None,
                                     'a sub-range of a sub-range differs from the direct sub-range',
                                     spec=repr(w.subrange(f + f2, f + l2)._description))
                ctx.note_case(('law-sub', centre, cw, n, side, f, l), sample=None)
    for m in range(1, 10):
        if not (dyadic(Fraction(bw) / (2 * m)) and dyadic(Fraction(bw) / (2 * n))):
            continue
        r = w.rechannelise(m)
        back = r.rechannelise(n)
        if not back == w:
            ctx.disagree('what=spw_law;law=rechannelise_roundtrip', dict(case, m=m), repr(back._description), None,
                         're-channelising to m channels and back does not restore the window', spec=repr(w._description))
        for k in (1, 2, 3, 4, 6, 8):
            if dyadic(Fraction(bw) / (2 * k)) and not r.rechannelise(k) == w.rechannelise(k):
                ctx.disagree('what=spw_law;law=rechannelise_compose', dict(case, m=m, k=k),
                             repr(r.rechannelise(k)._description), None,
                             're-channelising twice differs from re-channelising once',
                             spec=repr(w.rechannelise(k)._description))
        ctx.note_case(('law-rechan', centre, cw, n, side, m), sample=None)
    ctx.count('spw_laws')


def check_v4_names(ctx, c17, t, sub_band, sub_product):
    """product / band of the window VisibilityDataV4 builds = sub_product attribute / band_map[sub_band]."""
    def hook(ts, cbid, stream):
        ts.delete('sub_band')
        ts['sub_band'] = sub_band
    case = dict(v4_names=True, timing=c17.timing_case(t), sub_band=sub_band, sub_product=sub_product)
    tmp = v4.scratch_dir('c17names')
    try:
        x = v4.build_v4(T=3, F=4, seed=ctx.seed, sync_time=t['sync'], first_timestamp=t['first'], int_time=t['int_time'],
                        sub_product=sub_product, telstate_hook=hook, bandwidth=16.0, center_freq=1284.0, tmp=tmp,
                        source_kwargs=dict(preselect=dict(channels=slice(1, 3))),
                        open_kwargs=dict(preselect=dict(channels=slice(1, 3))))
        s = x.d.spectral_windows[0]
        got = [str(s.product), str(s.band)]
    except Exception as e:
        got = [type(e).__name__, '']
    finally:
        fx6.rmtree(tmp)
    want = [sub_product, dict(l='L', s='S', u='UHF', x='X').get(sub_band, 'KeyError')]
    if want[1] == 'KeyError':
        want = ['KeyError', '']
    if got != want:
        ctx.disagree('what=v4_window_names', case, got, None,
                     'product / band of the data set\'s spectral window differ from sub_product / band_map[sub_band]', spec=want,
                     kind='tie')
    if ctx.model_ok:
        mo = ctx.model([[173, [4, q(1284.0), q(16.0), 4, [codes(sub_product)],
                               codes(sub_band)]]])[0]
        mgot = ['KeyError', ''] if mo == [] else model_obj(mo[0])[5:]
        if mgot != got:
            ctx.disagree('what=v4_window_names_tie', case, got, mgot, 'names of the v4 window differ from the model', kind='tie')
    ctx.note_case(('v4names', sub_band, sub_product), sample=None)
    ctx.count('v4_names')


# ---------------------------------------------------------------------------- (m) formats without preselect

def check_other_format(ctx):
    """katdal.open(<HDF5 v3 file>, preselect=...): refused (TypeError) - never a data set that ignores the preselection."""
    from fixtures import h5
    tmp = v4.scratch_dir('c17h5')
    try:
        whole, _, _ = h5.open_v3(tmp, T=5, F=4)
        fn = os.path.join(tmp, '1500000000.h5')
        for pre in (dict(dumps=slice(1, 3)), dict(channels=slice(0, 2)), dict(dumps=slice(0, 2), channels=slice(1, 4)), {}):
            code, ds, msg = verdict(lambda: katdal.open(fn, centre_freq=1284e6, preselect=pre))
            case = dict(other_format=True, preselect=repr(pre))
            if ds is not None:
                whole.select()
                whole.select(**pre)
                if list(ds.shape) != list(whole.shape) or not np.array_equal(ds.timestamps, whole.timestamps):
                    ctx.disagree('what=other_format_preselect_ignored', case, list(ds.shape), None,
                                 'a format without preselect support returned a data set that ignores the preselection',
                                 spec=list(whole.shape))
            if ctx.model_ok:
                mo = ctx.model([[171, [1, 2, enc_pre(pre)]]])[0]
                if mo != code:
                    ctx.disagree('what=preselect_validation_tie;path=other_file', case, [code, msg[:80]], mo,
                                 'verdict for a format without preselect differs from the model', kind='tie')
            ctx.note_case(('other', repr(pre)), sample=None)
            ctx.count('validation:path_other_real_file')
            ctx.traces_validated += 1
    finally:
        fx6.rmtree(tmp)


# ---------------------------------------------------------------------------- (n) where the CBF dump period comes from

CBF_CHAIN = ['src_streams', 'corr_int_time', 'corr_n_accs', 'corr_src_streams', 'feng_instrument_dev_name',
             'i0_scale_factor_timestamp']
CBF_DROPS = [None] + [('missing', k) for k in CBF_CHAIN] + [('empty', 'src_streams'), ('empty', 'corr_src_streams')]


def enc_attr(v):
    if isinstance(v, str):
        return [0, codes(v)]
    if isinstance(v, list):
        return [1, [codes(x) for x in v]]
    return [2, q(v)]


def check_cbf_chain(ctx, c17, t, drop, T=3):
    """A full RDB, a lite one, and RDBs with ONE link of the CBF attribute chain missing / empty: the CBF dump period the
    data set reports and whether its timestamps are corrected."""
    t = dict(t, cbf=t['cbf'] or 0.5)

    def hook(ts, cbid, stream):
        if drop is None:
            return
        kind, key = drop
        full = ts.join(stream, key) if key == 'src_streams' else key
        ts.delete(full)
        if kind == 'empty':
            ts[full] = []
    present = dict(src_streams=['corr'], corr_int_time=t['cbf'], corr_n_accs=64, corr_src_streams=['feng'],
                   feng_instrument_dev_name='i0', i0_scale_factor_timestamp=1712e6)
    if drop is not None:
        if drop[0] == 'missing':
            del present[drop[1]]
        else:
            present[drop[1]] = []
    case = dict(cbf_chain=True, timing=c17.timing_case(t), drop=None if drop is None else list(drop))
    tmp = v4.scratch_dir('c17cbf')
    try:
        x = v4.build_v4(T=T, F=4, seed=ctx.seed, sync_time=t['sync'], first_timestamp=t['first'], int_time=t['int_time'],
                        cbf=(t['cbf'], 64, 1712e6), tmp=tmp,
                        sub_pool_resources=('cbf_dev_2,sdp_1,m000,m001' if t['cmc2'] else 'cbf_1,sdp_1,m000,m001'),
                        sub_product=('c856M4k' if t['cbf4k'] else 'c856M1k'), telstate_hook=hook,
                        open_kwargs=dict(time_offset=t['off']))
        got_p = x.d.cbf_dump_period
        got_ts = [exact(v) for v in x.d.timestamps]
    except Exception as e:
        ctx.disagree('what=exception;stream=cbf_chain;drop=%s;exc=%s' % (drop, type(e).__name__), case, repr(e)[:300], None,
                     'opening an RDB with an incomplete CBF attribute chain raised')
        return
    finally:
        fx6.rmtree(tmp)
    want_p = t['cbf'] if drop is None else None
    want_ts = c17.spec_py(dict(t, cbf=want_p), 0, T)
    # the period itself is still in the telstate when a LATER link of the chain is missing: the statement is then
    # satisfied by the documented behaviour (treated as lite) and also by a data set corrected with that period
    period_known = drop is not None and 'src_streams' in present and present['src_streams'] and 'corr_int_time' in present
    alt_ok = period_known and got_p == t['cbf'] and got_ts == c17.spec_py(t, 0, T)
    if (got_p != want_p or got_ts != want_ts) and not alt_ok:
        ctx.disagree('what=cbf_period;drop=%s;start=%s' % ('none' if drop is None else drop[0] + ':' + drop[1], c17.where(t)),
                     case, [got_p] + [float(v) for v in got_ts[:2]], None,
                     'CBF dump period / timestamps: a complete attribute chain must give the period (and the correction '
                     'before the fix date), an incomplete one must count as a lite RDB (no correction)',
                     spec=[want_p] + [float(v) for v in want_ts[:2]])
    if ctx.model_ok:
        mo = ctx.model([[174, [[[codes(k), enc_attr(v)] for k, v in present.items()]]]])[0]
        want_m = [0, q(want_p)] if want_p is not None else [1]
        got_m = [0, q(got_p)] if got_p is not None else [1]
        if mo[0] != got_m or mo[1] != want_m:
            ctx.disagree('what=cbf_period_tie', case, got_m, mo, 'CBF dump period differs from the model / documented chain',
                         kind='tie')
    ctx.traces_validated += 1
    ctx.note_case(('cbf', repr(sorted(t.items())), drop), sample=dict(kind='cbf_chain', **case))
    ctx.count('cbf_chain:%s' % ('complete' if drop is None else drop[0]))
    ctx.count('cbf_chain:start_' + c17.where(t))
