"""C01, data sets with SEVERAL spectral windows (correspondence + search; model Model/DataSetWin.v, wire_1005).

An MVF v2 file whose RFE centre frequency is retuned during the observation has one spectral window per centre frequency
(`Observation/spw_index` says which one each dump was recorded with); only one of them is active at a time and `freqs`
/ `channels` describe THAT one.  The clause "timestamps, freqs and per-dump sensor arrays are the labels and values of
those same dumps and channels" therefore demands that, after every history of select() calls, every selected dump was
recorded with the active window (and subarray), whatever made the time axis start afresh.

Fixtures (fixtures/c01files.write_v2_windows): 6-12 dumps on a regular / irregular grid, 2-3 distinct centre
frequencies retuned 1-4 times (returning to an earlier window), version 2.0 (LO sensor) and 2.1 files, duplicate final
dump, time_offset, keepdims; stored samples are injective labels.  Histories: select() calls of C02's extended
generator (props/c02x.gen_xcall: spw= / subarray= incl. out-of-range values, every criterion kind and surface form,
every reset string, the bare select()) biased towards "change the window, then restart the time axis", acquisitions,
reads through any earlier indexer, observations.  Oracles come from what the fixture WROTE: the centre frequency every
dump was recorded with, the documented frequency axis of that centre frequency (Model/DataSetFreq.v, wire_1003), the
labelled stored arrays, the stored timestamps and sensor histories.
"""
import os
import random
import shutil
import warnings
from fractions import Fraction

import numpy as np

from props import c01, c02, c02x

codes, q, unq = c01.codes, c01.q, c01.unq
# centre frequencies: all a whole number of quarter channels (390.625 kHz / 4) apart, so every channel frequency of
# every window sits on one integer grid (C02's model compares integers)
CW = 390625.0
CENTRES = [1822e6, 1328.25e6, 1600.125e6, 1950.515625e6, 1818.875e6]
ANT_NAMES = ('m000', 'm001', 'm062')
T0 = 1300000000.0


def gen_grid_w(rng, T):
    """Dump starts in quarter dump periods: regular; a dropped dump / a late last dump (the reader's quick uniformity
    test fails: real timestamps throughout); interior dumps that are LATE by a quarter / half dump (the quick test
    passes: while the windows are extracted the reader works on the estimated grid, finding C01r-F1).  Retunes are only
    placed (gen_wspec) at dumps that start at least a full dump period after their predecessor: a dump that overlaps
    its predecessor shares the instant right after its start with it, and the readers attribute an event to the
    EARLIEST dump it falls in -- "the dump during which the LO was retuned" would be ambiguous.  For such a dump the
    retune instant lies inside that dump, and in no earlier one, on the real AND on the estimated grid."""
    kind = rng.choice(['regular', 'regular', 'gap', 'late_last', 'late_jitter'])
    g = [4 * i for i in range(T)]
    if kind == 'late_jitter':
        hit = False
        for i in range(1, T - 1):
            if rng.random() < 0.4:
                g[i] += rng.choice([1, 1, 2])
                hit = True
        if not hit:
            g[rng.randrange(1, T - 1)] += 1
    if kind == 'gap':
        k, lost = rng.randrange(1, T), 4 * rng.choice([1, 1, 2])
        g = [x + (lost if i >= k else 0) for i, x in enumerate(g)]
    if kind == 'late_last':
        g[-1] += rng.choice([1, 2])
    return kind, g


def gen_wspec(rng):
    T = rng.randint(6, 12)
    F = rng.choice([2, 3, 4, 5, 6, 8])
    spec = dict(fmt='v2', windows=True, T=T, F=F, dt=rng.choice([1.0, 2.0, 4.0, 8.0]), off=rng.choice([0.0, 0.0, 0.5, 2.0]),
                nants=rng.choice([2, 2, 3]), acts=c01.gen_events(rng, T, c02.STATES),
                targets=c01.gen_events(rng, T, c01.TARGETS), labels=c01.gen_events(rng, T, c02.LABELS[1:]),
                dup=rng.random() < 0.5, keepdims=rng.random() < 0.5, old=rng.random() < 0.35)
    spec['grid_kind'], spec['grid'] = gen_grid_w(rng, T)
    g = spec['grid']
    ok = [d for d in range(1, T) if g[d] - g[d - 1] >= 4]
    if len(ok) < 2:
        spec['grid_kind'], spec['grid'] = 'regular', [4 * i for i in range(T)]
        ok = list(range(1, T))
    nwin = rng.choice([2, 2, 2, 3]) if len(ok) >= 2 else 2
    centres = rng.sample(CENTRES, nwin)
    nseg = rng.randint(nwin, min(len(ok) + 1, nwin + 2))
    starts = [0] + sorted(rng.sample(ok, nseg - 1))
    seq = list(range(nwin))
    while len(seq) < nseg:
        seq.append(rng.choice([k for k in range(nwin) if k != seq[-1]]))
    spec['retunes'] = [[starts[i], centres[seq[i]]] for i in range(nseg)]
    spec['sseed'] = rng.randrange(1 << 20)
    return spec


class WinObservation:
    """The interface c02x.gen_xcall / c02.gen_criterion need, over an opened data set with several windows; the
    structure of the time axis is read from the UNSELECTED sensor arrays of the data set, the dump times and the
    window of every dump are GIVEN (what the fixture wrote)."""

    compare_wf = False

    def __init__(self, d, ts, dump_spw, win_freqs, chan_width, dump_sub=None):
        import katpoint
        self.d = d
        ts = np.asarray(ts, dtype=float)
        self.timestamps = ts
        self.T = len(ts)
        dp = float(d.dump_period)
        g4 = (ts - ts[0]) / (dp / 4)
        assert np.all(g4 == np.round(g4)), 'timestamps are not on the quarter-dump grid'
        self.g4 = [int(x) for x in g4]
        self.dump_spw = [int(x) for x in dump_spw]
        self.dump_sub = [0] * self.T if dump_sub is None else [int(x) for x in dump_sub]
        self.kants = [list(sa.ants) for sa in d.subarrays]
        self.cps = [[(str(a), str(b)) for a, b in sa.corr_products] for sa in d.subarrays]
        w = float(chan_width) / 4
        allf = np.concatenate([np.asarray(f, dtype=float) for f in win_freqs])
        self.fbase = float(allf.min()) - 16 * w
        self.fz = []
        for f in win_freqs:
            fz = (np.asarray(f, dtype=float) - self.fbase) / w
            assert np.all(fz == np.round(fz)), 'channel frequencies are not on the quarter-channel grid'
            self.fz.append([int(x) for x in fz])

        def per_dump(name):
            v = list(d.sensor.get(name)[:])
            assert len(v) == self.T, 'per-dump sensors and timestamps differ in length'
            return v
        self.scan = [int(x) for x in per_dump('Observation/scan_index')]
        self.state = [str(x) for x in per_dump('Observation/scan_state')]
        self.cscan = [int(x) for x in per_dump('Observation/compscan_index')]
        self.label = [str(x) for x in per_dump('Observation/label')]
        self.tgt = [int(x) for x in per_dump('Observation/target_index')]
        assert set(self.state) <= set(c02.STATES) and set(self.label) <= set(c02.LABELS)
        targets = []
        for t in d.catalogue.targets:
            assert set(t.tags) <= set(c02.TAGS), 'catalogue tag outside the harness vocabulary'
            targets.append(dict(names=[t.name] + list(t.aliases), tags=list(t.tags)))
        ants = [a.name for a in self.kants[0]]
        assert all(a in c02x.ANTS for sa in self.kants for a in [x.name for x in sa])
        self.spec = dict(T=self.T, dp=dp, t0=float(ts[0]), gaps=[-(-x // 4) for x in self.g4],
                         sc_events=list(range(max(self.scan) + 2)), cs_events=list(range(max(self.cscan) + 2)),
                         targets=targets, ants=ants, w=w, real_format=type(d).__name__)
        self.kant = {a: katpoint.Antenna('%s, -30:42:39.8, 21:26:38.0, 1086.6, 13.5, %d 0 0' % (a, 10 * i))
                     for i, a in enumerate(c02x.ANTS)}
        for sa in self.kants:
            self.kant.update({a.name: a for a in sa})
        self.name_ids = {}
        for t in targets:
            for n in t['names']:
                self.name_ids.setdefault(c02.norm_name(n), len(self.name_ids))
        self.weight_ids = {}
        self._wire = None

    def nspw(self):
        return len(self.fz)

    def nsub(self):
        return len(self.cps)

    input_id = staticmethod(c02x.XObservation.input_id)

    def tag_id(self, tag):
        return c02.TAGS.index(tag) if tag in c02.TAGS else c02.UNKNOWN

    def fresh(self):
        d = self.d
        d.select()                      # drops every retained criterion (also one that made an earlier call raise)
        # onto window 0 FROM another window: the state the constructor leaves (a change of window restarts the time
        # and frequency axes); what later calls -- the bare select() among them -- make of it is for the histories
        d.select(spw=self.nspw() - 1, subarray=0)
        d.select(spw=0, subarray=0)
        d.select(weights='all', flags='all')
        d._selection = {'spw': 0, 'subarray': 0}      # as after the constructor of the model
        self.weight_ids.clear()
        return d

    def wire(self):
        if self._wire is None:
            s = self.spec
            dumps = [[self.g4[i], self.scan[i], c02.STATES.index(self.state[i]), self.cscan[i],
                      c02.LABELS.index(self.label[i]), self.tgt[i], self.dump_spw[i], self.dump_sub[i]] for i in range(self.T)]
            targets = [[[self.name_ids[c02.norm_name(n)] for n in t['names']], [self.tag_id(x) for x in t['tags']]]
                       for t in s['targets']]
            spws = [[fz, 2] for fz in self.fz]
            subs = [[[c02x.ANTS.index(a.name) for a in ka], [self.input_id(x) + self.input_id(y) for x, y in cps]]
                    for ka, cps in zip(self.kants, self.cps)]
            vocab = [[[codes(x), i] for i, x in enumerate(c02.STATES)], [[codes(x), i] for i, x in enumerate(c02.LABELS)],
                     [[codes(x), i] for i, x in enumerate(c02.TAGS)], [[codes(x), i] for i, x in enumerate(c02x.ANTS)],
                     [[codes(x)] + self.input_id(x) for x in c02x.INPUTS]]
            self._wire = [dumps, 2, targets, spws, subs, vocab]
        return self._wire


class WinFixture:
    """One opened multi-window data set + what was stored (same attribute names as c01.Fixture where shared code needs
    them: impl reads, c01files.expected, compare_sensors)."""

    sig_prefix = 'fmt=v2;windows'
    with_sensors = True

    def __init__(self, spec, ctx, tag='c01win'):
        import katdal
        from fixtures import c01files as cf
        from fixtures import v4
        self.spec = spec
        self.fmt = 'v2'
        T, F, dt, off = spec['T'], spec['F'], spec['dt'], spec['off']
        self.T, self.F = T, F
        self.tmp = v4.scratch_dir(tag)
        self.file = None
        self.dup = bool(spec['dup'])
        self.upper, self.centroid, self.segs, self.cbf_dump = False, False, [], dt
        names = self.ant_names = ANT_NAMES[:spec['nants']]
        grid4 = spec['grid']
        self.hist = hist = cf.gen_hist(random.Random(spec['sseed']), names, T0, dt, dt / 4.0 * grid4[-1] + dt)
        self.open_problem = None
        try:
            fn = os.path.join(self.tmp, '1300000000.h5')
            retunes = [(int(dd), float(c)) for dd, c in spec['retunes']]
            self.st, wprods, ts, self.dump_centre = cf.write_v2_windows(
                fn, retunes, off=off, T=T, F=F, ants=names, t0=T0, dt=dt, acts=spec['acts'], targets=spec['targets'],
                labels=spec['labels'], dup_last=self.dup, grid4=grid4, hist=hist, old=bool(spec['old']))
            self.d = d = katdal.open(fn, time_offset=off, keepdims=spec['keepdims'])
            self.file = d.file
            self.stored_ts = list(ts)
            st_ts = np.array(self.stored_ts[:T], dtype=np.float64)
            self.exp_ts = st_ts + 0.5 * dt + off
            # the windows: one per written centre frequency; their numbering is the reader's business, what each of them
            # IS comes from the file: window k must be centred on a written centre frequency, each exactly once
            self.written_centres = sorted(set(float(c) for _, c in retunes))
            self.win_centre = [float(w.centre_freq) for w in d.spectral_windows]
            if sorted(self.win_centre) != self.written_centres:
                self.open_problem = ('fmt=v2;attr=spectral_windows;what=not_the_written_centre_frequencies',
                                     self.win_centre, self.written_centres)
                raise AssertionError('windows differ from the written centre frequencies')
            self.dump_spw = [self.win_centre.index(float(c)) for c in self.dump_centre]
            self.dump_sub = [0] * T
            # documented axis of every written centre frequency (spec side of wire_1003), and the reader's windows
            cases = [[1003, [2, [q(c + 4200e6 if spec['old'] else c), q(CW * F), F, int(bool(spec['old'])), codes(''), [], [], []]]]
                     for c in self.win_centre]
            self.doc_axis, self.axis_problems = [], []
            for k, out in enumerate(ctx.model(cases)):
                if not out:
                    raise AssertionError('the model of the reader builds no window')
                win, model_fq, spec_fq, m_lower, s_lower = out
                doc = [unq(p) for p in spec_fq]
                self.doc_axis.append(np.array([float(x) for x in doc]))
                got = [Fraction(float(x)) for x in np.asarray(d.spectral_windows[k].channel_freqs, dtype=float)]
                if model_fq != spec_fq or m_lower != s_lower:
                    self.axis_problems.append(('fmt=v2;attr=freqs;what=model_vs_spec', model_fq[:4], spec_fq[:4], 'tie'))
                if got != doc or (int(d.spectral_windows[k].sideband) == -1) != bool(s_lower):
                    self.axis_problems.append(('fmt=v2;windows;attr=channel_freqs;what=differs', [float(x) for x in got[:6]],
                                               [float(x) for x in doc[:6]], 'property'))
            self.ob = WinObservation(d, self.exp_ts, self.dump_spw, self.doc_axis, CW)
            self.cps_by_sub = self.ob.cps
            self.cps_full = self.cps_by_sub[0]
            self.B = len(self.cps_full)
            self.stored_cps = [(str(a), str(b)) for a, b in wprods]
            self.sensors = ['Observation/scan_index', 'Observation/target']
            self.full = dict((nm, np.array(list(d.sensor.get(nm)[:]))) for nm in self.sensors)
            fr = lambda l: [(Fraction(float(t)), Fraction(float(v)) if not isinstance(v, str) else v) for t, v in l]   # noqa: E731
            self.numeric = [(c01.NUMERIC_SENSOR['v2'] % a + w, a, w, fr(hist['num'][a][w])) for a in names for w in ('azim', 'elev')]
            self.categorical = [(c01.CATEGORICAL_SENSOR['v2'] % a, a, fr(hist['cat'][a])) for a in names[:1]]
        except BaseException:
            self.close()
            raise

    def cfg_wire(self, atoms):
        s = self.spec
        return [2, [], int(self.dup), 0, 0, [], [q(s['dt']), q(self.cbf_dump), q(s['off'])], [q(t) for t in self.stored_ts],
                [[i, c01.wire_selarg(v)] for i, v in sorted(atoms.items())]]

    def model_case(self, atoms, ops):
        return [1005, [self.cfg_wire(atoms), self.ob.wire(), ops]]

    def close(self):
        f = self.file
        if f is not None:
            try:
                f.close()
            except Exception:      # noqa: BLE001
                pass
        shutil.rmtree(self.tmp, ignore_errors=True)


def build_wfixture(ctx, rng, tries=12):
    last = None
    for _ in range(tries):
        spec = gen_wspec(rng)
        try:
            return WinFixture(spec, ctx)
        except AssertionError as e:
            last = e
            c01.SKIPPED.append(('v2w', repr(e)[:80]))
            if 'windows differ' in str(e):
                raise WindowsDiffer(spec, e)
        except (IndexError, ValueError, KeyError, TypeError, AttributeError, ZeroDivisionError) as e:
            raise c01.OpenFailed(spec, e)
    raise RuntimeError('no usable multi-window observation model in %d tries: %r' % (tries, last))


class WindowsDiffer(Exception):
    def __init__(self, spec, exc):
        Exception.__init__(self, repr(exc))
        self.spec = spec


# ---------------------------------------------------------------------------------------------------------------
# the implementation side

def gen_wselect(rng, fx, cur):
    """A select() call: C02's extended generator, biased towards the window dimension (a change of window, possibly
    together with other criteria; criteria that restart the time axis on the current window)."""
    ob = fx.ob
    r = rng.random()
    if r < 0.22:
        other = [k for k in range(ob.nspw()) if k != cur[0]]
        spw = rng.choice(other) if other and rng.random() < 0.85 else cur[0]
        call = [('spw', spw, c02x.xcore([11, spw]), 'int')]
        if ob.nsub() > 1 and (ob.nspw() == 1 or rng.random() < 0.6):
            # another subarray (alone or together with the window)
            sub = rng.choice([k for k in range(ob.nsub()) if k != cur[1]] + ([cur[1]] if rng.random() < 0.15 else []))
            sa = ('subarray', sub, c02x.xcore([11, sub]), 'int')
            call = [sa] if (ob.nspw() == 1 or rng.random() < 0.5) else rng.sample([call[0], sa], 2)
            cur = [cur[0] if len(call) == 1 else spw, sub]
            spw = cur[0]
        if rng.random() < 0.4:
            k = rng.choice(c02x.TIME + c02x.FREQ + c02x.CORR)
            v, w, f = c02x.gen_xcriterion(rng, ob, k, spw, cur[1])
            call.insert(rng.randint(0, len(call)), (k, v, w, f))
        if rng.random() < 0.2:
            reset = rng.choice(['', 'T', 'F', 'TFB', 'auto'])
            call.append(('reset', reset, c02x.xcore([10, codes(reset)]), 'reset'))
        return call
    if r < 0.40:
        # restart the time axis without touching the window
        k = rng.choice(c02x.TIME)
        v, w, f = c02x.gen_xcriterion(rng, ob, k, cur[0], cur[1])
        call = [(k, v, w, f)]
        if rng.random() < 0.25:
            reset = rng.choice(['T', 'TF', 'TB', 'TFB', 'auto'])
            call.append(('reset', reset, c02x.xcore([10, codes(reset)]), 'reset'))
        return call
    if r < 0.46:
        return []
    return c02x.gen_xcall(rng, ob, cur, 0.0)


def impl_observe_w(fx):
    d = fx.d
    with warnings.catch_warnings():
        warnings.simplefilter('ignore')
        ts = np.asarray(d.timestamps[:], dtype=float)
        sub = int(d.subarray)
        cps_of = fx.cps_by_sub[sub] if 0 <= sub < len(fx.cps_by_sub) else []
        out = dict(shape=[int(v) for v in d.shape], dumps=[int(v) for v in d.dumps], channels=[int(v) for v in d.channels],
                   cps=[cps_of.index((str(a), str(b))) if (str(a), str(b)) in cps_of else -1 for a, b in d.corr_products],
                   cp_ids=[fx.ob.input_id(str(a)) + fx.ob.input_id(str(b)) for a, b in d.corr_products],
                   timestamps=[Fraction(float(t)) for t in ts], freqs=np.array(d.freqs, dtype=float),
                   lens=[len(ts), len(d.freqs), len(d.corr_products)], spw=int(d.spw), sub=sub,
                   spw_index=[int(x) for x in d.sensor['Observation/spw_index']],
                   sub_index=[int(x) for x in d.sensor['Observation/subarray_index']],
                   sensors=dict((nm, np.array(d.sensor[nm])) for nm in fx.sensors), mjd=np.array(d.mjd),
                   cache_ts=[Fraction(float(t)) for t in np.asarray(d.sensor.timestamps[:], dtype=float)],
                   numeric=dict((nm, np.array(d.sensor[nm], dtype=float)) for nm, _, _, _ in fx.numeric),
                   categorical=dict((nm, [c01.as_str(x) for x in d.sensor[nm]]) for nm, _, _ in fx.categorical),
                   ants=[a.name for a in d.ants], az=np.array(d.az, dtype=float), el=np.array(d.el, dtype=float),
                   state=dict((pat % a, [getattr(x, 'description', None) or c01.as_str(x) for x in d.sensor[pat % a]])
                              for pat in c01.STATE_SENSORS.get(fx.fmt, ()) for a in fx.ant_names))
    return out


def _observe(fx, log, desc):
    try:
        log.append(dict(op='observe', obs=impl_observe_w(fx), desc=desc))
    except Exception as e:      # noqa: BLE001
        log.append(dict(op='observe', obs=None, exc=repr(e), desc=desc))


def run_impl_w(fx, rng, nops, script=None):
    """Returns (ops, log, atoms): ops = wire operations, log = per-operation implementation observations.
    script: list of ['select', {kw}] (keywords spw / dumps as int or [a, b, c] slice / scans string / reset / none) |
    ['acquire', kind] | ['read'] | ['observe'] (the scripted histories of the regression corpus)."""
    d = fx.ob.fresh()
    kinds = [k for k in c01.KINDS if k != 'raw_flags']
    ops = [[3]]
    log = []
    _observe(fx, log, 'observe (as opened: window 0)')
    atoms = {0: 'all'}
    if log[0]['obs'] is None:
        return ops, log, atoms
    acquired = []
    nsel, step = 0, 0
    cur = [0, 0]
    while step < nops:
        step += 1
        if script is not None:
            if step > len(script):
                break
            what = script[step - 1]
        else:
            r = rng.random()
            what = ('acquire' if (not acquired and r < 0.3) else
                    'select' if r < 0.46 else 'acquire' if r < 0.58 else 'index' if r < 0.80 else 'observe')
            if what == 'index' and not acquired:
                what = 'select'
            what = [what]
        if what[0] == 'select':
            call = script_wcall(fx, what[1]) if len(what) > 1 else gen_wselect(rng, fx, cur)
            for (k, v, w, f) in call:
                if k in ('weights', 'flags'):
                    atoms[w[1][1]] = v
            exc = None
            try:
                with warnings.catch_warnings():
                    warnings.simplefilter('ignore')
                    d.select(**c02x.py_call(call))
            except Exception as e:      # noqa: BLE001 - classified by the comparison
                exc = e
            code = c02x.classify(exc)
            ops.append([0, c02x.wire_call(call)])
            log.append(dict(op='select', code=code, exc=repr(exc) if exc else None, desc=['select', c02x.describe_call(call)],
                            keys=[k for (k, v, w, f) in call]))
            if code == 0:
                nsel += 1
                cur = c02x.track(cur, call, fx.ob)
            if code == 2:
                break
        elif what[0] == 'acquire':
            kind = what[1] if len(what) > 1 else rng.choice(kinds)
            exc = None
            lazy = rng.random() < 0.5 if script is None else True
            try:
                with warnings.catch_warnings():
                    warnings.simplefilter('ignore')
                    x = getattr(d, kind)
                    dshape = [int(v) for v in d.shape]
                    shape = (dshape[:1] if kind == 'timestamps' else dshape) if lazy else [int(v) for v in x.shape]
            except Exception as e:      # noqa: BLE001
                exc, x, shape = e, None, None
            ops.append([1, c01.KIND_ID[kind]])
            log.append(dict(op='acquire', kind=kind, shape=shape, exc=repr(exc) if exc else None, lazy=lazy,
                            desc=['acquire', kind] + (['untouched'] if lazy else [])))
            acquired.append((kind, x, shape, nsel))
            if exc is not None:
                break
        elif what[0] in ('index', 'read'):
            if what[0] == 'read':
                idn = len(acquired) - 1
                py, wire, forms, basic = (), [], [], True
            else:
                stale = [i for i, a in enumerate(acquired) if a[3] < nsel]
                idn = rng.choice(stale) if stale and rng.random() < 0.6 else rng.randrange(len(acquired))
                py, wire, forms, basic = c01.gen_ix2(rng, acquired[idn][2], False)
            kind, x, shape, at = acquired[idn]
            exc, arr = None, None
            try:
                with warnings.catch_warnings():
                    warnings.simplefilter('ignore')
                    key = py if len(py) != 1 or kind != 'timestamps' else py[0]
                    arr = np.asarray(x[key] if len(py) else x[:])
            except Exception as e:      # noqa: BLE001
                exc = e
            ops.append([2, idn, wire])
            log.append(dict(op='index', id=idn, kind=kind, arr=arr, exc=repr(exc) if exc else None, forms=forms, wire=wire,
                            stale=at < nsel, desc=['index', idn, kind, c01.describe_ix(py)]))
        else:
            ops.append([3])
            _observe(fx, log, 'observe')
    if log[-1]['op'] != 'observe' and not (log[-1]['op'] == 'select' and log[-1]['code'] == 2):
        ops.append([3])
        _observe(fx, log, 'observe')
    return ops, log, atoms


def script_wcall(fx, kw):
    call = []
    for k, v in kw.items():
        if k in ('spw', 'subarray'):
            call.append((k, v, c02x.xcore([11, int(v)]), 'int'))
        elif k in ('dumps', 'channels'):
            if isinstance(v, dict):
                a, b, c = v['slice']
                call.append((k, slice(a, b, c), c02x.xcore([0, [2, c02._opt(a), c02._opt(b), c02._opt(c)]]), 'slice'))
            else:
                call.append((k, list(v), c02x.xcore([0, [3, [int(x) for x in v]]]), 'intlist'))
        elif k in ('scans', 'compscans'):
            call.append((k, v, [21, [0, codes(v)]], 'bare-str'))
        elif k == 'reset':
            call.append((k, v, c02x.xcore([10, codes(v)]), 'reset'))
        else:
            raise ValueError('scripted keyword %s not supported' % k)
    return call


# ---------------------------------------------------------------------------------------------------------------
# comparison

def last_calls(log, n):
    """Classification of the failing history for the signature: did a call change the window before step n, and does
    the last accepted call restart the time axis on its own (without spw= / subarray=)?"""
    sel = [e for e in log[:n + 1] if e['op'] == 'select' and e['code'] == 0]
    changed = any('spw' in e['keys'] or 'subarray' in e['keys'] for e in sel)
    last = sel[-1]['keys'] if sel else None
    if last is None:
        return 'as_opened'
    if 'spw' in last or 'subarray' in last:
        return 'window_selected'
    return ('time_axis_restarted' if changed else 'no_window_change')


def compare_history_w(ctx, fx, ops, log, mouts, hid, note=True):
    from fixtures import c01files as cf
    fmt = fx.fmt
    hkey = repr(sorted(hid.items()))
    descs = [e['desc'] for e in log]
    acq_conv = []
    sel_state = 'all'
    nwin = len(fx.win_centre)
    pre = fx.sig_prefix

    def case(n):
        return dict(hid=hid, fail_at=n, spec=fx.spec, ops=descs[:n + 1])

    seen = len(ctx.disagreements)
    for n, e in enumerate(log):
        if any(ctx.match_finding(x['signature']) is None for x in ctx.disagreements[seen:]):
            return          # everything later in this history follows from the first disagreement
        seen = len(ctx.disagreements)
        if n >= len(mouts):
            ctx.disagree(pre + ';what=model_history_short', case(n), len(log), len(mouts),
                         'the model ended the history earlier than the implementation', kind='tie')
            return
        mo = mouts[n]
        ctx.traces_validated += 1
        ctx.count('w:op=' + e['op'])
        if e['op'] == 'select':
            for k in e['keys']:
                ctx.count('w:key=' + k)
            if not e['keys']:
                ctx.count('w:key=(none)')
            if e['code'] != mo[0]:
                ctx.disagree(pre + ';op=select;what=status;impl=%d;model=%d' % (e['code'], mo[0]), case(n),
                             e['exc'] or 'ok', mo[0], 'implementation and model of select() disagree on acceptance', kind='tie')
                return
            if e['code'] != mo[1]:
                ctx.disagree(pre + ';op=select;what=status;impl=%d;spec=%d' % (e['code'], mo[1]), case(n),
                             e['exc'] or 'ok', mo[1], 'implementation and documented rule of select() disagree on acceptance',
                             spec=mo[1])
                return
            if e['code'] == 2:
                ctx.count('w:select_raised')
                return
            if note:
                ctx.note_case((hkey, n), nontrivial=False)
            continue
        if e['op'] == 'observe':
            ob = e['obs']
            if ob is None:
                ctx.disagree(pre + ';op=observe;what=raises', case(n), e.get('exc'), 'ok',
                             'reading the public attributes / timestamps / sensors raised')
                return
            mshape, mdumps, mchans, mcps, (model_ts, mts), mlens, mfreq, msens, (mcache, meval, msynth) = mo[:9]
            (m_spw, m_sub), mpub, (s_spw, s_sub), spub, per_dump, all_ts = mo[9:15]
            p_shape, p_dumps, p_chans, p_fz, p_cps, p_ants = spub
            # ---- tie: the model is consistent with the documented rule and with its own theorems
            if mpub != spub or [m_spw, m_sub] != [s_spw, s_sub] or [mshape, mdumps, mchans] != [p_shape, p_dumps, p_chans]:
                ctx.disagree(pre + ';attr=public;what=model_vs_spec', case(n), [m_spw, m_sub, mpub[:3], mshape, mdumps],
                             [s_spw, s_sub, spub[:3]], 'the model of select() differs from the documented rule', kind='tie')
                return
            if any(pd[:2] != [s_spw, s_sub] or pd[2] != p_fz for pd in per_dump):
                ctx.disagree(pre + ';attr=window_of_dumps;what=model_vs_spec', case(n), per_dump[:4], [s_spw, s_sub, p_fz],
                             'the spec selects dumps recorded with another window / subarray than the active one', kind='tie')
            if model_ts != mts:
                ctx.disagree(pre + ';attr=timestamps;what=model_vs_spec', case(n), model_ts[:4], mts[:4],
                             'timestamp conversion found in the source differs from the documented one', kind='tie')
            mts = [unq(p) for p in mts]
            tsmap = [unq(p) for p in all_ts]
            phase = last_calls(log, n)
            ctx.count('w:observe_after=' + phase)
            ctx.count('w:active_window=%d_of_%d' % (s_spw, nwin))
            # ---- the window clause on what was WRITTEN: every selected dump was recorded with the centre frequency
            # of the active window, and freqs are the documented frequencies of the selected channels at THAT centre
            spw = ob['spw']
            active = fx.win_centre[spw] if 0 <= spw < nwin else None
            foreign = [i for i in ob['dumps'] if not (0 <= i < fx.T) or float(fx.dump_centre[i]) != active
                       or fx.dump_sub[i] != ob['sub']]
            if foreign:
                ctx.disagree(pre + ';attr=dumps;what=recorded_with_another_window;after=' + phase, case(n),
                             dict(spw=spw, subarray=ob['sub'], centre_mhz=None if active is None else active / 1e6,
                                  dumps=ob['dumps'],
                                  recorded_mhz=[float(fx.dump_centre[i]) / 1e6 for i in ob['dumps'] if 0 <= i < fx.T],
                                  recorded_subarray=[fx.dump_sub[i] for i in ob['dumps'] if 0 <= i < fx.T]),
                             dict(spw=s_spw, subarray=s_sub, dumps=p_dumps),
                             'selected dumps %r were recorded with another centre frequency / product ordering than that '
                             'of the active spectral window / subarray: freqs / channels / corr_products do not describe '
                             'them' % foreign[:8], spec=p_dumps)
                return          # shape, timestamps, sensors, reads ... of this selection follow from it
            elif ob['dumps'] and ob['channels'] and all(0 <= c < fx.F for c in ob['channels']):
                bad = [i for i in ob['dumps']
                       if not np.array_equal(ob['freqs'], fx.doc_axis[fx.dump_spw[i]][np.array(ob['channels'], dtype=int)])]
                if bad:
                    ctx.disagree(pre + ';attr=freqs;what=not_the_frequencies_of_the_selected_dumps', case(n),
                                 ob['freqs'].tolist()[:6], fx.doc_axis[fx.dump_spw[bad[0]]][np.array(ob['channels'], dtype=int)].tolist()[:6],
                                 'freqs are not the documented frequencies of the selected channels in the window dump %d '
                                 'was recorded with' % bad[0])
            if ob['spw_index'] != [spw] * len(ob['spw_index']) or ob['sub_index'] != [ob['sub']] * len(ob['sub_index']):
                ctx.disagree(pre + ';attr=sensor:Observation/spw_index;what=differs_from_active_window;after=' + phase, case(n),
                             [ob['spw_index'], ob['sub_index']], [spw, ob['sub']],
                             'Observation/spw_index / subarray_index of the selected dumps are not the active window / subarray',
                             spec=[s_spw, s_sub])
            # ---- impl vs spec
            cps_spec = [list(c) for c in p_cps]
            checks = [('spw', [ob['spw'], ob['sub']], [s_spw, s_sub]), ('shape', ob['shape'], p_shape),
                      ('dumps', ob['dumps'], p_dumps), ('channels', ob['channels'], p_chans),
                      ('corr_products', ob['cp_ids'], cps_spec), ('cp_positions', ob['cps'], mcps),
                      ('timestamps', ob['timestamps'], mts), ('lens', ob['lens'], mlens), ('shape_vs_lens', ob['shape'], ob['lens'])]
            for nm, got, exp in checks:
                if list(got) != list(exp):
                    ctx.disagree(pre + ';attr=%s;what=differs' % nm, case(n), got, exp,
                                 '%s differs from the model / spec (labels of the selected dumps, channels, products)' % nm,
                                 spec=exp)
            exp_fq = np.array([fx.ob.fbase + z * fx.ob.spec['w'] for z in p_fz], dtype=float)
            doc_fq = fx.doc_axis[s_spw][np.array(p_chans, dtype=int)] if p_chans else np.zeros(0)
            if not np.array_equal(exp_fq, doc_fq):
                ctx.disagree(pre + ';attr=freqs;what=model_vs_documented_axis', case(n), exp_fq.tolist()[:6], doc_fq.tolist()[:6],
                             'frequencies of the model differ from the documented axis of the written centre frequency', kind='tie')
            if not np.array_equal(ob['freqs'], doc_fq):
                ctx.disagree(pre + ';attr=freqs;what=differs', case(n), ob['freqs'].tolist()[:6], doc_fq.tolist()[:6],
                             'freqs are not the documented channel frequencies of the selected channels of the active window',
                             spec=doc_fq.tolist()[:6])
            sel_idx = np.array(msens, dtype=int)
            for nm in fx.sensors:
                got = ob['sensors'][nm]
                exp = fx.full[nm][sel_idx]
                same = (got.shape == exp.shape) and all(a == b for a, b in zip(got.tolist(), exp.tolist()))
                if not same:
                    ctx.disagree(pre + ';attr=sensor:%s;what=differs' % nm, case(n), got.tolist(), exp.tolist(),
                                 'per-dump array %s is not that of the selected dumps' % nm)
            if fx.with_sensors:
                c01.compare_sensors(ctx, fx, case(n), ob, mts, tsmap, mdumps,
                                    [unq(p) for p in mcache], [unq(p) for p in meval], [unq(p) for p in msynth])
            nwin_dumps = sum(1 for w, b in zip(fx.dump_spw, fx.dump_sub) if w == s_spw and b == s_sub)
            full = (mshape == [nwin_dumps, fx.F, fx.B])
            empty = 0 in mshape
            sel_state = 'all' if full else 'empty' if empty else 'part'
            if note:
                ctx.note_case((hkey, n), nontrivial=(not empty) and (not full or phase == 'time_axis_restarted'),
                              sample=dict(fmt=fmt, windows=nwin, ops=descs[max(0, n - 3):n + 1], shape=ob['shape'], spw=ob['spw']))
            continue
        if e['op'] == 'acquire':
            adv, cv, spec_shape, spec_cv = mo
            acq_conv.append(spec_cv)
            if e['exc'] is not None:
                ctx.disagree(pre + ';kind=%s;what=acquire_raises' % e['kind'], case(n), e['exc'], adv, 'obtaining the indexer raised')
                return
            if adv != spec_shape or cv != spec_cv:
                ctx.disagree(pre + ';kind=%s;what=model_vs_spec_acquire' % e['kind'], case(n), [adv, cv], [spec_shape, spec_cv],
                             'model indexer differs from the spec', kind='tie')
            if e['shape'] != spec_shape:
                ctx.disagree(pre + ';kind=%s;what=%s' % (e['kind'], 'dataset_shape' if e['lazy'] else 'advertised_shape'),
                             case(n), e['shape'], spec_shape,
                             'shape advertised by the %s differs from (len dumps, len channels, len corr_products)'
                             % ('data set' if e['lazy'] else 'indexer'), spec=spec_shape)
            ctx.count('w:acquire=' + e['kind'])
            if note:
                ctx.note_case((hkey, n), nontrivial=False)
            continue
        # index
        m_ans, s_ans = mo
        kind = e['kind']
        ctx.count('w:read=' + kind)
        sig0 = pre + ';kind=%s;after_select=%d' % (kind, int(e['stale']))
        if m_ans != s_ans:
            ctx.disagree(sig0 + ';what=model_vs_spec', case(n), m_ans, s_ans, 'model answer differs from spec answer', kind='tie')
        if s_ans[0] == 0:
            ctx.count('w:spec_rejects')
            if e['arr'] is not None and e['arr'].size:
                ctx.disagree(sig0 + ';what=answered_out_of_domain', case(n), e['arr'].shape, 'rejected',
                             'data returned for an index the spec rejects')
            continue
        shape, labels = s_ans[1], s_ans[2]
        if e['arr'] is None:
            if len(labels) > 0:
                ctx.disagree(sig0 + ';what=raises', case(n), e['exc'], shape, 'a read that selects at least one element raised',
                             spec=shape)
            else:
                ctx.count('w:unanswered')
            continue
        arr = e['arr']
        size = int(np.prod(shape)) if shape else 1
        cv = acq_conv[e['id']]
        if arr.dtype == bool:
            arr = arr.view(np.uint8) != 0
        if arr.size != size:
            ctx.disagree(sig0 + ';what=shape', case(n), list(arr.shape), shape,
                         'answer has %d elements, the selection x index has %d' % (arr.size, size), spec=shape)
            continue
        arr = arr.reshape(shape)
        if kind == 'timestamps':
            all_conv = fx.exp_ts
            exp = [Fraction(float(all_conv[l])) for l in labels]
            got = [Fraction(float(t)) for t in arr.ravel()]
            ok = got == exp
            exp_show = [float(t) for t in exp[:6]]
        else:
            exp = cf.expected(kind, fmt, fx.st, np.array(labels, dtype=np.int64).reshape(shape), cv)
            ok = np.array_equal(arr, exp)
            exp_show = exp.ravel()[:6].tolist()
        if not ok:
            symptom = 'conjugation' if kind == 'vis' and np.array_equal(arr, np.conj(exp)) else 'elements'
            ctx.disagree(sig0 + ';what=' + symptom, case(n), np.asarray(arr).ravel()[:6].tolist(), exp_show,
                         'element(s) of x[ix2] are not the converted stored samples at the coordinates named by the '
                         'selection in force when x was obtained', spec=dict(shape=shape, labels=labels[:12], conv=cv))
        if note:
            ctx.note_case((hkey, n), nontrivial=(e['stale'] or sel_state == 'part') and size > 0,
                          sample=dict(fmt=fmt, windows=nwin, ops=descs[max(0, n - 3):n + 1], shape=shape, labels=labels[:8]))


def report_open(ctx, fx, hid):
    case = dict(hid=dict(hid, kind_open='axis'), spec=fx.spec, fail_at=0, ops=['open'])
    for sig, got, exp, kind in fx.axis_problems:
        ctx.disagree(sig, case, got, exp, 'channel frequencies / sideband of a spectral window are not the documented ones '
                     'of the written centre frequency', spec=exp, kind=kind)
    if fx.cps_full != fx.stored_cps:
        ctx.disagree('fmt=v2;windows;attr=subarray.corr_products;what=differs', case, fx.cps_full[:6], fx.stored_cps[:6],
                     'the correlation products of the data set are not the stored product ordering', spec=fx.stored_cps[:6])
    got = [int(x) for x in fx.d.sensor.get('Observation/spw_index')[:]]
    if got != fx.dump_spw:
        ctx.disagree('fmt=v2;windows;attr=Observation/spw_index;what=not_the_written_retunes', case, got, fx.dump_spw,
                     'the window every dump is attributed to is not the one whose centre frequency the RFE had during '
                     'that dump (as written)', spec=fx.dump_spw)
    ctx.count('w:datasets')
    ctx.count('w:datasets:windows=%d,retunes=%d' % (len(fx.win_centre), len(fx.spec['retunes']) - 1))
    ctx.count('w:grid=' + fx.spec['grid_kind'])
    for key in ('dup', 'keepdims', 'old'):
        if fx.spec.get(key):
            ctx.count('w:quirk=' + key)


def run_one_w(ctx, fx, hseed, nops, hid, note=True, script=None):
    rng = random.Random(hseed)
    ops, log, atoms = run_impl_w(fx, rng, nops, script=script)
    mcase = fx.model_case(atoms, ops)
    mouts = ctx.model([mcase])[0]
    compare_history_w(ctx, fx, ops, log, mouts, hid, note=note)
    return mcase, mouts


# the regression corpus: histories on a fixed data set (13 dumps, windows 0 / 1 / 0; the histories of the demo of the
# seeded change C01-9 and of the neighbouring mutations)
CORPUS_SPEC = dict(fmt='v2', windows=True, T=13, F=6, dt=2.0, off=0.0, nants=2,
                   acts=[(0, 'slew'), (2, 'track'), (7, 'slew'), (8, 'track')], targets=[(0, c01.TA)], labels=[(0, 'track')],
                   dup=False, keepdims=False, old=False, retunes=[[0, 1822e6], [4, 1328.25e6], [9, 1822e6]],
                   grid_kind='regular', grid=[4 * i for i in range(13)], sseed=7)
CORPUS = [
    [['select', {'spw': 1}], ['select', {'dumps': {'slice': [2, 7, None]}}], ['acquire', 'vis'], ['read'], ['observe']],
    [['select', {'spw': 1}], ['select', {'scans': 'track'}], ['observe']],
    [['select', {'spw': 1, 'dumps': {'slice': [5, 8, None]}}], ['select', {}], ['acquire', 'flags'], ['read'], ['observe']],
    [['select', {}], ['observe'], ['acquire', 'timestamps'], ['read']],
    [['select', {'spw': 1}], ['select', {'spw': 0, 'dumps': {'slice': [2, 11, None]}}],
     ['select', {'dumps': [1, 3, 5, 10, 12]}], ['observe']],
    [['select', {'spw': 0}], ['select', {'reset': 'T'}], ['observe']],
    [['select', {'spw': 1}], ['acquire', 'weights'], ['select', {'spw': 0}], ['read'], ['observe']],
]


def run_corpus(ctx):
    try:
        fx = WinFixture(dict(CORPUS_SPEC), ctx, tag='c01winc')
    except (IndexError, ValueError, KeyError, TypeError, AttributeError, ZeroDivisionError) as e:
        return open_failed(ctx, c01.OpenFailed(dict(CORPUS_SPEC), e), dict(kind='win_corpus', j=-1))
    try:
        report_open(ctx, fx, dict(kind='win_corpus', j=-1))
        for j, script in enumerate(CORPUS):
            run_one_w(ctx, fx, 0, len(script), dict(kind='win_corpus', j=j), note=True, script=script)
            ctx.count('w:corpus_histories')
    finally:
        fx.close()


def open_failed(ctx, e, hid, prefix='fmt=v2;windows'):
    if isinstance(e, WindowsDiffer):
        ctx.disagree(prefix + ';attr=spectral_windows;what=not_the_written_centre_frequencies',
                     dict(hid=hid, fail_at=0, spec=e.spec, ops=['open']), str(e), 'one window per written centre frequency',
                     'the spectral windows of the data set are not centred on the centre frequencies the RFE was tuned to '
                     '(one window per distinct value; one subarray per product ordering)')
    else:
        ctx.disagree(prefix + ';what=open_raises;exc=%s' % type(e.exc).__name__,
                     dict(hid=hid, fail_at=0, spec=e.spec, ops=['open']), repr(e.exc), 'opens',
                     'opening a valid multi-window file raised', spec='opens')


def run(ctx):
    """Called by props.c01.run."""
    run_corpus(ctx)
    rng = ctx.rng
    nf, nh = ctx.scale(8, 30), ctx.scale(16, 60)
    for k in range(nf):
        fseed = rng.randrange(1 << 30)
        hid0 = dict(kind='win', fseed=fseed, hseed=0, nops=0)
        try:
            fx = build_wfixture(ctx, random.Random(fseed))
        except (c01.OpenFailed, WindowsDiffer) as e:
            open_failed(ctx, e, hid0)
            continue
        try:
            report_open(ctx, fx, hid0)
            for j in range(nh):
                hseed = rng.randrange(1 << 30)
                nops = random.Random(hseed).randint(6, 14)
                run_one_w(ctx, fx, hseed, nops, dict(kind='win', fseed=fseed, hseed=hseed, nops=nops))
                ctx.count('w:histories')
        finally:
            fx.close()


def replay(ctx, hid):
    if hid.get('kind') == 'cat':
        from props import c01cat
        return c01cat.replay(ctx, hid)
    if hid.get('kind') == 'win_corpus':
        try:
            fx = WinFixture(dict(CORPUS_SPEC), ctx, tag='c01winc')
        except (IndexError, ValueError, KeyError, TypeError, AttributeError, ZeroDivisionError) as e:
            open_failed(ctx, c01.OpenFailed(dict(CORPUS_SPEC), e), hid)
            return True
        try:
            if hid['j'] < 0:
                return report_open(ctx, fx, hid)
            script = CORPUS[hid['j']]
            run_one_w(ctx, fx, 0, len(script), hid, script=script)
        finally:
            fx.close()
        return True
    if hid.get('kind') == 'win':
        try:
            fx = build_wfixture(ctx, random.Random(hid['fseed']))
        except (c01.OpenFailed, WindowsDiffer) as e:
            open_failed(ctx, e, hid)
            return True
        try:
            if hid.get('kind_open') or not hid.get('nops'):
                report_open(ctx, fx, hid)
            else:
                run_one_w(ctx, fx, hid['hseed'], hid['nops'], hid)
        finally:
            fx.close()
        return True
    return False
