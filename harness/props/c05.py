"""C05 - HDF5-era lazy and concatenated indexers equal composed outer indexing (correspondence + search).

Every case is evaluated four ways: the real katdal class (LazyIndexer over a numpy array or a real
in-memory h5py dataset, ConcatenatedLazyIndexer over 1-4 LazyIndexers), the extracted Coq model
(LazyIdx.getitem / ConcatIdx.c_getitem), the extracted Coq spec (oindex o oindex, transforms) and numpy
outer indexing (np.ix_-style, second oracle validating the spec)."""
import itertools
import json
import os
import warnings

import numpy as np

RULE = ('random 1-3-D sources (axis lengths 0-12) labelled injectively in C order; first- and second-stage index '
        'tuples drawn per axis from int (incl. negative / out of range), slice (any start/stop/step incl. negative '
        'and None), boolean mask (incl. all-False / all-True), strictly increasing list chosen dense or sparse w.r.t. '
        'the 20% rule, and a malformed stream (unsorted / repeated / negative / out-of-range lists); source dtypes '
        'bool, int64, float32/64, complex64/128 and byte strings |S1..|S6 with elements that make every narrowing '
        'cast visible; chains of 0-6 transforms: elementwise a*x+b cast to any numeric dtype incl. bool (up to 3 '
        'dtype-declaring ones), end-axis drop/add, and transforms that USE their keep argument (keepdims as in '
        'h5datav2/v3, an auxiliary array of the first-stage shape indexed with the same keep as in extract_weights); '
        'LazyIndexer over numpy arrays and h5py datasets, ConcatenatedLazyIndexer over 1-4 parts (LazyIndexers or raw '
        'arrays, some empty, parts with their own first stage and their own dtype: one common dtype, byte strings of '
        'different widths in any order, or kinds that katdal rejects; 12% of the common-dtype cases give the parts '
        'their own elementwise dtype-changing chain) plus a fixed sweep of (part dtypes x head kind x dtype-changing '
        'transform) and a fixed sweep of empty selections of the concatenated indexer (every empty head slice over 5 '
        'splits, every head kind x tails of which one selects nothing); API forms: index / first stage as a tuple or bare, Python or numpy integers, lists or arrays; '
        'every indexer is asked three times (request, self[:], the request again) and its shape / dtype / len() are '
        'read before and after; a case is one (source kind, shape(s), dtype(s), stage 1, transforms, stage 2, API form); '
        'values, shape AND dtype of every answer are compared; non-trivial when the implementation returns at least '
        'one element through a non-full selection or exercises the rejection clause; distinct by canonical case'
        ' Histories (round 7): one LazyIndexer on an ndarray / h5py source answers index, 1-4 further requests, index again; '
        'index arrays are the caller\'s own ndarrays and every answer is overwritten by the caller; after every read the answer '
        'is compared with a fresh indexer, self._lookup / the caller\'s arrays / the source with their snapshots, the recorded '
        'dataset[...] requests with the model (wire 55) and with h5py\'s rule; half of the histories start in the hazard zone '
        '(dense strategy through a view of the lookup or the caller\'s array). h5py differential: every integer in [-8, 8], '
        'every slice with bounds in [-7, 7] and steps -2..3, some index lists on axis lengths 0-5 (wire 56).')
ASSUMPTIONS = [
    'boolean masks have the length of their axis (other lengths are outside the model)',
    'first-stage integer keeps its axis with length 1 (LazyIndexer convention self[:].shape); the spec uses the same convention',
    'index tuples are padded / truncated to the number of axes (documented LazyIndexer behaviour) in model and spec',
    'transforms receive the second-stage index as the user wrote it (LazyTransform documentation); the keep-aware '
    'transforms of the harness are replicas of katdal\'s h5datav2/v3 closures (which cannot be imported on their own)',
    'concatenated parts with transform chains of their own are not in the model: judged against numpy only (no tie)',
    'np.empty is modelled as a buffer of arbitrary content (theorems quantify over it; the wire fills it with a sentinel)',
    'h5py datasets reject negative slice steps: such cases are compared against the spec only (no tie)',
    'float evaluation of 0.2 * dim_len is modelled exactly as dim_len / 5',
    'parts without rows are dropped by the indexer at construction: the spec ignores their tail shape and dtype too',
    'parts whose dtypes are neither all equal nor all byte strings are rejected at construction '
    '(ConcatenationError, documented): correct rejection; only the tie (model rejects as well) is checked there',
    'InvalidTransform at construction is a correct rejection only for a chain that changes a preserved dimension or '
    'drops every dimension (documented restriction); on a valid chain it is reported as init_raises',
    'a 0-d byte-string answer is a numpy scalar whose dtype is the width of its value: width not compared for 0-d',
    'elements are integral / have integral real and imaginary parts, so every numeric cast is exact in the model',
]

DT = {0: np.int64, 1: np.float64, 2: np.float32, 3: np.bool_, 4: np.complex128, 5: np.complex64}
DTCODE = {np.dtype(v): k for k, v in DT.items()}
CK = 1048576          # LazyDType.cK: complex element re + CK * im
NUMERIC = [0, 1, 2, 3, 4, 5]
BYTES = [101, 102, 103, 104, 106]


def np_dtype(code):
    """numpy dtype of a LazyDType code (100 + w = '|Sw')"""
    return np.dtype('S%d' % (code - 100)) if code > 100 else np.dtype(DT[code])


def dt_code(dtype):
    dtype = np.dtype(dtype)
    if dtype.kind == 'S':
        return 100 + dtype.itemsize
    return DTCODE.get(dtype, -1)

# ----------------------------------------------------------------------------- encodings


def enc_ix(ix):
    k = ix[0]
    if k == 'i':
        return [0, ix[1]]
    if k == 's':
        return [1] + [([] if v is None else [v]) for v in ix[1:4]]
    if k == 'm':
        return [2, [int(b) for b in ix[1]]]
    return [3, list(ix[1])]


def py_ix(ix, as_array=False):
    k = ix[0]
    if k == 'i':
        return int(ix[1])
    if k == 's':
        return slice(ix[1], ix[2], ix[3])
    if k == 'm':
        return np.array(ix[1], dtype=bool)
    return np.array(ix[1], dtype=int) if as_array else list(ix[1])


def enc_tr(t):
    if t[0] == 'map':
        return [0, t[1], t[2], [] if t[3] is None else [t[3]]]
    if t[0] == 'keepdims':
        return [3]
    if t[0] == 'aux':
        return [4, t[1]]
    return [1] if t[0] == 'drop' else [2]


def canon_item(k):
    """one item of the `keep` tuple a transform receives -> the harness's index item"""
    if isinstance(k, slice):
        return ('s', k.start, k.stop, k.step)
    if np.isscalar(k):
        return ('i', int(k))
    a = np.asarray(k)
    if a.dtype == bool:
        return ('m', [int(b) for b in a.tolist()])
    return ('l', [int(v) for v in a.tolist()])


def keepdims_fn(dims):
    """katdal's h5datav2/v3 _force_full_dim: scalar-indexed axes come back with length 1"""
    def f(data, keep):
        keep = tuple(keep)[:dims] + (slice(None),) * (dims - len(keep))
        return np.asarray(data)[tuple((np.newaxis if np.isscalar(k) else slice(None)) for k in keep)]
    return f


def aux_fn(c, init):
    """like katdal's h5datav3 extract_weights: the data combined with ANOTHER array of the first-stage shape indexed
    with the same `keep` (here data + c * aux[keep], aux = C-order labels)"""
    aux = np.arange(int(np.prod(init)) if len(init) else 1).reshape(init)

    def f(data, keep):
        data = np.asarray(data)
        if data.dtype.kind in 'bS':
            raise TypeError('aux transform needs numbers')
        sel = np_oindex(aux, [canon_item(k) for k in keep])
        if sel.shape != data.shape:
            raise ValueError('aux transform: shape %s != %s' % (sel.shape, data.shape))
        return (data + c * sel).astype(data.dtype)
    return f


def py_tr(t, init=None):
    from katdal.lazy_indexer import LazyTransform
    if t[0] == 'keepdims':
        return LazyTransform('keepdims', keepdims_fn(len(init)))
    if t[0] == 'aux':
        return LazyTransform('aux', aux_fn(t[1], list(init)))
    if t[0] == 'map':
        a, b, dt = t[1], t[2], t[3]
        if dt is None:
            return LazyTransform('map', lambda data, keep: (data * a + b).astype(data.dtype))
        return LazyTransform('map', lambda data, keep: (data * a + b).astype(DT[dt]), dtype=np.dtype(DT[dt]))
    if t[0] == 'drop':
        return LazyTransform('drop', lambda data, keep: np.asarray(data)[..., 0], lambda s: tuple(s)[:-1])
    return LazyTransform('add', lambda data, keep: np.asarray(data)[..., np.newaxis], lambda s: tuple(s) + (1,))


def enc_values(a):
    """elements as the integers of LazyDType's encoding (None when a value has no encoding)"""
    flat = a.ravel()
    kind = a.dtype.kind
    if kind == 'S':
        return [int.from_bytes(x, 'little') for x in flat.tolist()]
    if kind == 'b':
        return flat.astype(np.int64).tolist()
    if kind == 'c':
        re, im = np.rint(flat.real), np.rint(flat.imag)
        if flat.size and not (np.array_equal(re, flat.real) and np.array_equal(im, flat.imag)):
            return None
        return [int(r) + CK * int(i) for r, i in zip(re.tolist(), im.tolist())]
    ints = np.rint(flat).astype(np.int64) if flat.size else np.zeros(0, np.int64)
    if flat.size and not np.array_equal(ints, flat):
        return None
    return ints.tolist()


def canon(out):
    a = np.asarray(out)
    code = dt_code(a.dtype)
    if code > 100 and a.ndim == 0:
        code = 100            # numpy scalar: the width is that of the value
    vals = enc_values(a)
    return ['ok', code, list(a.shape), ['non-integral'] if vals is None else vals]


def canon_model(o):
    if o[0] == 0:
        return ['err']
    code = 100 if (o[1] > 100 and len(o[2]) == 0) else o[1]
    return ['ok', code, list(o[2]), list(o[3])]

# ----------------------------------------------------------------------------- numpy oracle


def np_resolve(n, ix):
    """positions selected by numpy on an axis of length n, dropped?; raises like numpy"""
    k = ix[0]
    if k == 'i':
        return np.arange(n)[int(ix[1])].reshape(1), True
    if k == 's':
        return np.arange(n)[slice(ix[1], ix[2], ix[3])], False
    if k == 'm':
        return np.arange(n)[np.array(ix[1], dtype=bool)], False
    return np.arange(n)[np.array(ix[1], dtype=int)], False


def np_oindex(x, ixs, keepdims=False):
    nd = x.ndim
    ixs = list(ixs)[:nd] + [('s', None, None, None)] * (nd - len(ixs))
    out = x
    ax = 0
    for ix in ixs:
        pos, drop = np_resolve(out.shape[ax], ix)
        out = np.take(out, pos, axis=ax)
        if drop and not keepdims:
            out = np.take(out, 0, axis=ax)
        else:
            ax += 1
    return out


def np_transforms(ts, data, dtype, keep=(), init=()):
    pykeep = tuple(py_ix(ix, True) for ix in keep)
    for t in ts:
        if t[0] == 'keepdims':
            data = keepdims_fn(len(init))(data, pykeep)
        elif t[0] == 'aux':
            data = aux_fn(t[1], list(init))(data, pykeep)
        elif t[0] == 'map':
            src = data.dtype
            data = (data * t[1] + t[2]).astype(DT[t[3]] if t[3] is not None else src)
        elif t[0] == 'drop':
            data = np.asarray(data)[..., 0]
        else:
            data = np.asarray(data)[..., np.newaxis]
    return data

# ----------------------------------------------------------------------------- generators


def gen_list(rng, n, mode=None):
    """strictly increasing list on an axis of length n: dense (> 20 %, >= 2 runs), sparse, contiguous or empty"""
    if n == 0:
        return []
    mode = mode or rng.choice(['dense', 'dense', 'sparse', 'sparse', 'contig', 'empty', 'any'])
    if mode == 'empty':
        return []
    if mode == 'contig':
        a = rng.randrange(n)
        return list(range(a, rng.randint(a + 1, n)))
    if mode == 'sparse':
        k = max(1, n // 5)
        k = rng.randint(1, k)
        return sorted(rng.sample(range(n), min(k, n)))
    if mode == 'dense':
        k = rng.randint(min(n, n // 5 + 1), n)
        return sorted(rng.sample(range(n), k))
    return sorted(rng.sample(range(n), rng.randint(0, n)))


def gen_ix(rng, n, malformed=0.0, kinds=None):
    k = rng.choice(kinds or ['int', 'slice', 'slice', 'mask', 'list', 'list', 'full'])
    if rng.random() < malformed:
        k = 'bad'
    if k == 'int':
        if n == 0 or rng.random() < 0.04:
            return ('i', rng.choice([n, n + 1, -n - 1, -n - 3]))
        return ('i', rng.randint(-n, n - 1))
    if k == 'slice':
        vals = [None] + list(range(-n - 2, n + 3))
        return ('s', rng.choice(vals), rng.choice(vals), rng.choice([None, None, 1, 1, 2, 3, 4, -1, -2, -3]))
    if k == 'mask':
        p = rng.choice([0.0, 0.15, 0.5, 0.85, 1.0])
        return ('m', [int(rng.random() < p) for _ in range(n)])
    if k == 'list':
        return ('l', gen_list(rng, n))
    if k == 'bad':
        m = rng.choice(['rep1', 'rep', 'unsorted', 'neg', 'oob', 'negsorted'])
        if n == 0:
            return ('l', [0])
        if m == 'rep1':
            return ('l', [rng.randrange(n)] * rng.randint(2, 3))
        if m == 'rep':
            l = sorted(rng.choices(range(n), k=rng.randint(2, min(n + 1, 6))))
            return ('l', l)
        if m == 'unsorted':
            l = [rng.randrange(n) for _ in range(rng.randint(2, 5))]
            return ('l', l)
        if m == 'neg':
            return ('l', [rng.randint(-n, n - 1) for _ in range(rng.randint(1, 4))])
        if m == 'negsorted':
            return ('l', sorted(rng.sample(range(-n, 0), rng.randint(1, min(n, 3)))))
        a = rng.randint(max(0, n - 2), n)
        return ('l', list(range(a, a + rng.randint(1, 3))))
    return ('s', None, None, None)


def gen_ts(rng, allow_drop=True, maps=True):
    ts = []
    for _ in range(rng.choice([0, 0, 0, 1, 1, 2, 3]) if maps else 0):
        a, b, dt = rng.choice([1, 2, 3, -1]), rng.choice([0, 1, 5]), rng.choice([None, None, 1, 2, 0, 3, 3, 4, 5])
        if dt == 3 and rng.random() < 0.6:
            b = -a            # a*x+b vanishes at x = 1 only: a cast to bool before and after the map differ
        ts.append(('map', a, b, dt))
    if allow_drop and rng.random() < 0.3:
        ts.insert(rng.randint(0, len(ts)), (rng.choice(['drop', 'add']),))
    # transforms that USE their `keep` argument (katdal's keepdims and weights transforms)
    if rng.random() < 0.22:
        ts.insert(rng.randint(0, len(ts)), ('keepdims',))
    if maps and rng.random() < 0.22:
        ts.insert(0 if rng.random() < 0.8 else rng.randint(0, len(ts)), ('aux', rng.choice([100, -3, 7])))
    return ts


KEEP_AWARE = ('keepdims', 'aux')


def first_stage_shape(case):
    """shape of source[first stage] (of the concatenation for a concatenated indexer), None if it does not exist"""
    try:
        if case['kind'] == 'lazy':
            return list(np_oindex(labels(case['shape'], 0, 0), case['keep'], keepdims=True).shape)
        fulls = [np_transforms([tuple(t) for t in p.get('ts', []) if t[0] != 'map'],
                               np_oindex(labels(p['shape'], 0, 0), p['keep'], keepdims=True), None) for p in case['parts']]
        ne = [f for f in fulls if f.shape[0]] or fulls[:1]
        if len({f.shape[1:] for f in ne}) != 1:
            return None
        return [sum(f.shape[0] for f in ne)] + list(ne[0].shape[1:])
    except Exception:
        return None


def finish_case(case):
    """keep-aware transforms are told the first-stage shape when they are built (as katdal's closures are); a case
    whose first stage does not exist carries none"""
    if any(t[0] in KEEP_AWARE for t in case['ts']):
        init = first_stage_shape(case)
        if init is None or (case['kind'] == 'concat' and any(part_dt(case, p) > 100 for p in case['parts'])):
            case['ts'] = [t for t in case['ts'] if t[0] not in KEEP_AWARE]
        else:
            case['init'] = init
    return case


def gen_lazy(rng, malformed):
    nd = rng.choice([1, 1, 2, 2, 3])
    shape = [rng.choice([0, 1, 2, 3, 4, 5, 6, 7, 8, 10, 11, 12]) if rng.random() < 0.9 else 12 for _ in range(nd)]
    if nd == 3 and rng.random() < 0.7:
        shape = [min(s, 6) for s in shape]
    k1 = [gen_ix(rng, n, malformed * 0.5) for n in shape[:rng.choice([0, nd, nd, rng.randint(0, nd)])]]
    # first-stage lengths (keepdims) to draw a sensible second stage
    lens = []
    for ax, n in enumerate(shape):
        if ax < len(k1):
            try:
                lens.append(len(np_resolve(n, k1[ax])[0]))
            except Exception:
                lens.append(len(k1[ax][1]) if k1[ax][0] == 'l' else 1)
        else:
            lens.append(n)
    k2 = [gen_ix(rng, n, malformed) for n in lens[:rng.choice([nd, nd, nd, rng.randint(0, nd), nd + 1])]]
    if len(k2) > nd:
        k2 = k2[:nd] + [('i', 0)]
    dt = rng.choice([0, 0, 1, 2, 3, 4, 5] + BYTES[:3])
    case = dict(kind='lazy', src=rng.choice(['numpy', 'h5py']), shape=shape, keep=k1,
                ts=gen_ts(rng, maps=dt < 100 or rng.random() < 0.1), dt=dt, index=k2)
    if rng.random() < 0.25:
        case['bare'] = True        # a one-item index / first stage is passed without the tuple around it
    if rng.random() < 0.25:
        case['npint'] = True       # integers are numpy integers
    return finish_case(case)


def gen_concat(rng, malformed):
    nparts = rng.randint(1, 4)
    tail = [rng.choice([1, 2, 3, 4, 5, 6, 0]) if rng.random() < 0.95 else 12 for _ in range(rng.choice([0, 1, 1, 2]))]
    tail_keep = [gen_ix(rng, n, 0.0, kinds=['slice', 'mask', 'list', 'full', 'full']) for n in tail] \
        if rng.random() < 0.4 else []
    tail_keep = [ix if not (ix[0] == 's' and (ix[3] or 1) < 0) else ('s', None, None, None) for ix in tail_keep]
    parts = []
    for _ in range(nparts):
        h = rng.choice([0, 0, 1, 2, 3, 4, 5, 6])
        if tail_keep or rng.random() < 0.3:
            hk = gen_ix(rng, h, 0.0, kinds=['slice', 'mask', 'list', 'full', 'full', 'full'])
            if hk[0] == 's' and (hk[3] or 1) < 0:
                hk = ('s', None, None, None)
            keep = [hk] + tail_keep
        else:
            keep = []
        parts.append(dict(shape=[h] + tail, keep=keep))
    total = 0
    tl = None
    for p in parts:
        try:
            total += len(np_resolve(p['shape'][0], p['keep'][0])[0]) if p['keep'] else p['shape'][0]
        except Exception:
            pass
    lens = [total]
    for ax, n in enumerate(tail):
        lens.append(len(np_resolve(n, tail_keep[ax])[0]) if ax < len(tail_keep) else n)
    nd = len(lens)
    index = [gen_ix(rng, n, malformed if ax == 0 else 0.0) for ax, n in enumerate(lens[:rng.choice([nd, nd, 1, rng.randint(0, nd)])])]
    # dtypes of the parts: one common dtype, byte strings of different widths, or a mixture katdal rejects
    r = rng.random()
    if r < 0.5:
        dts = [rng.choice(NUMERIC + [0, 103])] * nparts
    elif r < 0.87:
        dts = [rng.choice(BYTES) for _ in parts]
    else:
        dts = [rng.choice(NUMERIC) for _ in parts]
    for p, d in zip(parts, dts):
        p['dt'] = d
    for p in parts:
        if not p['keep'] and rng.random() < 0.3:
            p['raw'] = True        # a raw array instead of a LazyIndexer (wrapped by ConcatenatedLazyIndexer itself)
    if dts[0] < 100 and len(set(dts)) == 1 and rng.random() < 0.12:
        # parts that carry their OWN elementwise (dtype-changing) chain, the same for all, as the vis / weights / flags
        # indexers of concatenated data sets do: outside the model, judged against numpy only
        pts = [('map', rng.choice([1, 2, -1]), rng.choice([0, 1]), rng.choice([None, 0, 1, 2, 4, 5]))
               for _ in range(rng.randint(1, 2))]
        if tail and rng.random() < 0.5:
            # like extract_vis of the v2 / v3 files: the part drops its last dataset axis, so its shape property
            # differs from its first-stage shape
            pts.insert(rng.randint(0, len(pts)), ('drop',))
            index = index[:len(tail)]
        for p in parts:
            p['ts'] = list(pts)
            p['raw'] = False
    case = dict(kind='concat', parts=parts, ts=gen_ts(rng, maps=dts[0] < 100 or rng.random() < 0.1), dt=dts[0],
                index=index)
    if rng.random() < 0.25:
        case['bare'] = True
    if rng.random() < 0.25:
        case['npint'] = True
    return finish_case(case)

# ----------------------------------------------------------------------------- implementation drivers


class H5Pool:
    def __init__(self):
        import h5py
        self.f = h5py.File('c05-mem.h5', 'w', driver='core', backing_store=False)
        self.n = 0

    def dataset(self, data):
        self.n += 1
        return self.f.create_dataset('d%d' % self.n, data=data)

    def drop(self):
        for k in list(self.f.keys()):
            del self.f[k]

    def close(self):
        self.f.close()


class Recorder:
    """array-like wrapper logging dataset[...] requests (reported only)"""

    def __init__(self, ds, log):
        self.ds, self.log = ds, log
        self.shape, self.dtype = ds.shape, ds.dtype

    def __getitem__(self, key):
        self.log.append(key)
        return self.ds[key]


def labels(shape, base, dt):
    """source of dtype code dt whose element with C-order label v is LazyDType.enc_val dt v"""
    n = int(np.prod(shape)) if len(shape) else 1
    v = base * n + np.arange(n)
    if dt == 3:
        a = ((v + v // 2) % 2).astype(bool)
    elif dt in (4, 5):
        a = (v + 1j * ((v % 7) - 3)).astype(DT[dt])
    elif dt > 100:
        w = dt - 100
        a = np.array([bytes(97 + (x + 5 * i) % 26 for i in range(1 + x % w)) for x in v.tolist()], dtype='S%d' % w)
    else:
        a = v.astype(DT[dt])
    return a.reshape(shape)


def part_dt(case, p):
    return p.get('dt', case['dt'])


def part_bases(parts):
    bases, end = [], 0
    for p in parts:
        n = int(np.prod(p['shape']))
        b = -(-end // n) if n else 0
        bases.append(b)
        end = max(end, (b + 1) * n)
    return bases


def run_impl(case, pool, log=None):
    """returns dict(out=canon or ['err', exc], shape=..., dtype=..., full=canon of self[:])"""
    from katdal.lazy_indexer import LazyIndexer
    from katdal.concatdata import ConcatenatedLazyIndexer
    res = {}

    def tup(items, arr):
        """index tuple as the user writes it: numpy integers, a single item without the tuple"""
        vals = [py_ix(ix, arr) for ix in items]
        if case.get('npint'):
            vals = [np.int64(v) if isinstance(v, int) else v for v in vals]
        return vals[0] if case.get('bare') and len(vals) == 1 else tuple(vals)
    try:
        ts = [py_tr(t, case.get('init')) for t in case['ts']]
        if case['kind'] == 'lazy':
            data = labels(case['shape'], 0, case['dt'])
            src = pool.dataset(data) if case.get('src') == 'h5py' else data
            if log is not None:
                src = Recorder(src, log)
            if case['keep'] or not case.get('bare'):
                li = LazyIndexer(src, keep=tup(case['keep'], True), transforms=ts)
            else:
                li = LazyIndexer(src, transforms=ts)       # default first stage
        else:
            bases = part_bases(case['parts'])
            subs = [labels(p['shape'], b, part_dt(case, p)) if p.get('raw') and not p['keep'] else
                    LazyIndexer(labels(p['shape'], b, part_dt(case, p)), keep=tuple(py_ix(ix, True) for ix in p['keep']),
                                transforms=[py_tr(tuple(t)) for t in p.get('ts', [])])
                    for p, b in zip(case['parts'], bases)]
            li = ConcatenatedLazyIndexer(subs, transforms=ts)
        res['shape'] = list(li.shape)
        res['dtype'] = dt_code(li.dtype)
        res['len'] = int(len(li))
    except Exception as e:
        res['out'] = ['err', type(e).__name__ + ':init']
        return res
    idx = tup(case['index'], case.get('arr_index', False)) if case['index'] or not case.get('bare') else slice(None)
    try:
        res['out'] = canon(li[idx])
    except Exception as e:
        res['out'] = ['err', type(e).__name__]
    try:
        res['full'] = canon(li[:])
    except Exception as e:
        res['full'] = ['err', type(e).__name__]
    # history: the same request after other requests gives the same answer, and the properties did not move
    try:
        res['again'] = canon(li[idx])
    except Exception as e:
        res['again'] = ['err', type(e).__name__]
    try:
        res['props_after'] = [list(li.shape), dt_code(li.dtype), int(len(li))]
    except Exception as e:
        res['props_after'] = ['err', type(e).__name__]
    return res


def run_numpy(case):
    """second oracle: plain numpy outer indexing"""
    try:
        if case['kind'] == 'lazy':
            a1 = np_oindex(labels(case['shape'], 0, case['dt']), case['keep'], keepdims=True)
        else:
            bases = part_bases(case['parts'])
            fulls = [np_transforms([tuple(t) for t in p.get('ts', [])],
                                   np_oindex(labels(p['shape'], b, part_dt(case, p)), p['keep'], keepdims=True), None)
                     for p, b in zip(case['parts'], bases)]
            ne = [f for f in fulls if f.shape[0]] or fulls[:1]
            a1 = np.concatenate(ne)
        return canon(np_transforms(case['ts'], np_oindex(a1, case['index']), case['dt'], case['index'], list(a1.shape)))
    except Exception as e:
        return ['err']


def wire_case(case):
    """wire 53 / 54: the indexers with the keep-aware transform layer -> [model, spec, shape, dtype, len]"""
    if case['kind'] == 'lazy':
        return [53, [case['shape'], [enc_ix(i) for i in case['keep']], [enc_tr(t) for t in case['ts']], case['dt'],
                    [enc_ix(i) for i in case['index']]]]
    bases = part_bases(case['parts'])
    return [54, [[[p['shape'], [enc_ix(i) for i in p['keep']], b, part_dt(case, p)] for p, b in zip(case['parts'], bases)],
                 [enc_tr(t) for t in case['ts']], case['dt'], [enc_ix(i) for i in case['index']]]]

# ----------------------------------------------------------------------------- classification


def list_flaw(ix, n=None):
    if ix[0] != 'l':
        return None
    l = list(ix[1])
    if any(v < 0 for v in l):
        return 'neg'
    if n is not None and any(v >= n for v in l):
        return 'oob'
    if len(l) > 1 and len(set(l)) == 1:
        return 'rep1'
    if any(b == a for a, b in zip(l, l[1:])):
        return 'repeated'
    if any(b < a for a, b in zip(l, l[1:])):
        return 'unsorted'
    return None


def features(case):
    """ordered list of the exotic features of a case (first one names the cause in a signature)"""
    f = []
    if case['kind'] == 'lazy':
        s1, s2 = case['keep'], case['index']
        s1_all = s1
    else:
        s1_all = [ix for p in case['parts'] for ix in p['keep']]
        s1, s2 = [], case['index']
    for ix in s2:
        fl = list_flaw(ix)
        if fl:
            f.append('list(%s)' % fl)
    for ix in s1_all:
        fl = list_flaw(ix)
        if fl:
            f.append('stage1_list(%s)' % fl)
    try:
        if case['kind'] == 'lazy':
            lens = np_oindex(labels(case['shape'], 0, 0), case['keep'], keepdims=True).shape
        else:
            fulls = [np_oindex(labels(p['shape'], 0, 0), p['keep'], keepdims=True) for p in case['parts']]
            lens = (sum(f.shape[0] for f in fulls),) + (([f for f in fulls if f.shape[0]] or fulls)[0].shape[1:])
        if any(ix[0] == 'i' and not -n <= ix[1] < n for ix, n in zip(s2, lens)):
            f.append('int(oob)')
    except Exception:
        pass
    if any(ix[0] == 's' and (ix[3] or 1) < 0 for ix in list(s2) + list(s1_all)):
        f.append('slice(step<0)')
    if any(ix[0] == 'i' and ix[1] < 0 for ix in s1_all):
        f.append('stage1_int(neg)')
    if case['kind'] == 'concat' and s2:
        h = s2[0]
        if h[0] == 's' and (h[3] or 1) > 0:
            f.append('head_slice')
        if h[0] in 'sm' and len(s2) >= 1:
            f.append('tailcheck')
    return f


def in_domain(case):
    """supported index forms: every list strictly increasing, non-negative (range is checked by the spec)"""
    ixs = list(case['index']) + (list(case['keep']) if case['kind'] == 'lazy'
                                 else [ix for p in case['parts'] for ix in p['keep']])
    return all(list_flaw(ix) is None for ix in ixs)


def stage1_exists(case):
    try:
        if case['kind'] == 'lazy':
            np_oindex(labels(case['shape'], 0, 0), case['keep'], keepdims=True)
        else:
            for p in case['parts']:
                # a part's result includes its own chain (a dropped axis of length 0 has no element 0)
                np_transforms([tuple(t) for t in p.get('ts', []) if t[0] != 'map'],
                              np_oindex(labels(p['shape'], 0, 0), p['keep'], keepdims=True), None)
        return True
    except Exception:
        return False


def used_dtypes(case):
    """dtype codes of the parts the concatenated indexer keeps (parts with rows, or the first one)"""
    dts = []
    for p in case['parts']:
        try:
            n = len(np_resolve(p['shape'][0], p['keep'][0])[0]) if p['keep'] else p['shape'][0]
        except Exception:
            n = 0
        if n:
            dts.append(part_dt(case, p))
    return dts or [part_dt(case, case['parts'][0])]


def dtypes_compatible(case):
    """katdal's documented restriction: all dtypes equal, or all byte strings"""
    dts = used_dtypes(case)
    return len(set(dts)) == 1 or all(d > 100 for d in dts)


def dtype_cause(case, symptom):
    """names the dtype ingredient of a wrong answer: parts of different dtypes / a dtype-changing transform"""
    if symptom not in ('wrong_data', 'wrong_dtype', 'init_raises', 'raises'):
        return None
    head = case['index'][0][0] if case['index'] else 'full'
    if case['kind'] == 'concat':
        dts = used_dtypes(case)
        if len(set(dts)) > 1:
            order = 'narrow_first' if dts[0] < max(dts) else 'wide_first'
            return 'mixed_dtypes(%s,%s,head=%s)' % ('bytes' if all(d > 100 for d in dts) else 'kinds', order, head)
    if symptom in ('wrong_data', 'wrong_dtype'):
        src = case['dt']
        for t in case['ts']:
            if t[0] == 'map' and t[3] is not None and t[3] != src:
                return 'dtype_transform(%d->%d,head=%s)' % (src, t[3], head)
    return None


def concat_empty_class(case):
    """names the two (repaired) findings about EMPTY selections of the concatenated indexer precisely, so that a
    regression of one of them is recognised and other failures on empty selections get their own cause:
      tail(empty)        F10b: slice / mask head and a tail axis on which nothing is selected (reshape(-1, 0))
      head_slice(empty)  F10:  forward head slice selecting nothing whose start lies in a LATER indexer than its stop
    anything else on an empty selection gets its own cause"""
    init = first_stage_shape(case)
    if init is None:
        return None
    index = list(case['index'])[:len(init)]
    index += [('s', None, None, None)] * (len(init) - len(index))
    head, tails = index[0], index[1:]
    try:
        tail_lens = [len(np_resolve(n, ix)[0]) for n, ix in zip(init[1:], tails) if ix[0] != 'i']
    except Exception:
        return None
    if 0 in tail_lens:
        return 'tail(empty)' if head[0] in 'sm' else 'tail(empty,head=%s)' % head[0]
    if head[0] == 's' and (head[3] or 1) > 0:
        start, stop, step = slice(head[1], head[2], head[3]).indices(init[0])
        if len(range(start, stop, step)) == 0:
            lens = []
            for p in case['parts']:
                try:
                    lens.append(len(np_resolve(p['shape'][0], p['keep'][0])[0]) if p['keep'] else p['shape'][0])
                except Exception:
                    return None
            lens = [n for n in lens if n] or lens[:1]
            starts = np.cumsum([0] + lens[:-1])
            ia, ib = starts.searchsorted(start, side='right') - 1, starts.searchsorted(stop, side='right') - 1
            return 'head_slice(empty)' if ia > ib else 'head_slice(empty,forward)'
    return None


def cause_of(case, symptom, spec):
    f = features(case)
    for x in f:
        if x.startswith('list(') or x.startswith('stage1_list('):
            return x
    if 'int(oob)' in f:
        return 'int(oob)'
    if 'slice(step<0)' in f:
        return 'slice(step<0)'
    if 'stage1_int(neg)' in f:
        return 'stage1_int(neg)'
    kt = 'keep_transform(%s)' % ','.join(t[0] for t in case['ts'] if t[0] in KEEP_AWARE) \
        if any(t[0] in KEEP_AWARE for t in case['ts']) else None
    if kt and symptom in ('wrong_data', 'wrong_shape'):
        return kt
    dc = dtype_cause(case, symptom)
    if dc and not (symptom == 'raises' and spec[0] == 'ok' and 0 in spec[2]):
        return dc
    if case['kind'] == 'concat' and symptom == 'raises' and spec[0] == 'ok':
        ec = concat_empty_class(case)
        if ec:
            return ec
    if kt and symptom == 'raises':
        return kt
    kinds = ','.join(ix[0] for ix in case['index'])
    return 'plain(%s)' % kinds


def signature(case, symptom, spec):
    return 'indexer=%s;cause=%s;symptom=%s' % (case['kind'], cause_of(case, symptom, spec), symptom)

# ----------------------------------------------------------------------------- comparison


def h5_neg_step(case):
    return case['kind'] == 'lazy' and case.get('src') == 'h5py' and \
        any(ix[0] == 's' and (ix[3] or 1) < 0 for ix in case['index'])


def scalar_bytes(case):
    """byte-string source with a scalar index on every axis: the data handed to the transforms is a numpy scalar
    whose dtype has the width of its value, so the width of the answer is not defined by the property"""
    nd = len(case['shape']) if case['kind'] == 'lazy' else len(case['parts'][0]['shape'])
    dts = [case['dt']] if case['kind'] == 'lazy' else [part_dt(case, p) for p in case['parts']]
    return any(d > 100 for d in dts) and len(case['index']) >= nd and all(ix[0] == 'i' for ix in case['index'][:nd])


def nowidth(x):
    return x[:1] + [100] + x[2:] if len(x) > 1 and x[0] == 'ok' and x[1] > 100 else x


def chain_invalid(case):
    """documented restriction on a transform chain: it may only add or drop dimensions at the END of the first-stage
    shape and must keep at least the first dimension; True when the chain of the case violates it (then
    InvalidTransform at construction is the documented answer), None when the first stage does not exist"""
    init = case.get('init') or first_stage_shape(case)
    if init is None:
        return None
    new = list(init)
    for t in case['ts']:
        if t[0] == 'drop':
            new = new[:-1]
        elif t[0] == 'add':
            new = new + [1]
    head = new[:len(init)]
    return not (len(head) > 0 and head == list(init)[:len(head)])


def part_chains(case):
    return case['kind'] == 'concat' and any(p.get('ts') for p in case['parts'])


def judge(ctx, case, impl, mo):
    """mo = model output [model, spec, shape-prop, dtype-prop, len, wire_5 output] (or None while searching without a
    model, and for parts with their own transform chains, which the model does not have)"""
    if part_chains(case):
        mo = None
        ctx.count('concat_parts_with_own_chain')
    npo = run_numpy(case)
    sb = scalar_bytes(case)
    if sb:
        npo = nowidth(npo)
        impl = dict(impl, out=nowidth(impl['out']))
    if mo is not None:
        model, spec = canon_model(mo[0]), canon_model(mo[1])
        if sb:
            model, spec = nowidth(model), nowidth(spec)
        if spec != npo and not (spec[0] == 'err' and npo[0] == 'err'):
            ctx.disagree('what=spec_vs_numpy;kinds=%s' % ','.join(i[0] for i in case['index']), case, npo, model,
                         'Coq spec differs from numpy outer indexing', spec=spec, kind='tie')
    else:
        model, spec = None, npo
    out = impl['out']
    indom = in_domain(case)
    if not stage1_exists(case):
        # source[first stage] does not exist (numpy raises): nothing is promised; only the tie is checked
        spec = None
    elif out == ['err', 'InvalidTransform:init'] and chain_invalid(case) is not False:
        # a chain that drops every axis is documented as invalid: correct rejection (the tie checks the model agrees);
        # a VALID chain rejected with InvalidTransform falls through to `init_raises` below
        spec = None
    elif case['kind'] == 'concat' and out == ['err', 'ConcatenationError:init'] and not dtypes_compatible(case):
        # dtypes that are neither all equal nor all byte strings: documented rejection (the tie checks the model agrees)
        spec = None
    # the property: Ok -> equal to spec; in-domain and spec defined -> must answer
    if spec is None:
        spec = ['unconstrained']
    elif out[0] == 'ok':
        if spec[0] != 'ok' or out[1:] != spec[1:]:
            sym = 'wrong_data'
            if spec[0] == 'err' and len(out[3]) == 0:
                sym = 'empty_instead_of_error'
            if spec[0] == 'ok' and out[3] == spec[3] and out[1] == spec[1]:
                sym = 'wrong_shape'
            elif spec[0] == 'ok' and out[3] == spec[3] and out[2] == spec[2]:
                sym = 'wrong_dtype'
            ctx.disagree(signature(case, sym, spec), case, out, model,
                         'indexer answered with data different from transforms(source[stage1][stage2])', spec=spec)
    elif spec[0] == 'ok' and indom and not impl['out'][1].endswith(':init'):
        ctx.disagree(signature(case, 'raises', spec), case, out, model,
                     'supported index raised %s' % out[1], spec=spec)
    elif spec[0] == 'ok' and indom:
        ctx.disagree(signature(case, 'init_raises', spec), case, out, model,
                     'construction raised %s' % out[1], spec=spec)
    # the tie: model and implementation accept / reject and answer alike
    if model is not None and not h5_neg_step(case):
        if (out[0] == 'ok') != (model[0] == 'ok') or (out[0] == 'ok' and out[1:] != model[1:]):
            ctx.disagree('what=tie;' + signature(case, 'model_differs', spec), case, out, model,
                         'extracted model and implementation disagree', spec=spec, kind='tie')
        if 'shape' in impl:
            mshape = mo[2][1] if mo[2][0] == 1 else None
            if impl['shape'] != mshape or impl['dtype'] != mo[3]:
                ctx.disagree('what=tie;shape_dtype_property', case, [impl['shape'], impl['dtype']], [mshape, mo[3]],
                             'model shape/dtype properties differ from implementation', kind='tie')
            if impl.get('len') != mo[4]:
                ctx.disagree('what=tie;len', case, impl.get('len'), mo[4], 'model len() differs from implementation',
                             kind='tie')
        if len(mo) > 5 and mo[5] is not None:
            # LazyIndexer without keep-aware transforms: wire_5 = [N-d loop, spec, shape, dtype, outer product, len]
            o5 = mo[5]
            nd5, outer = canon_model(o5[0]), canon_model(o5[4])
            if sb:
                nd5, outer = nowidth(nd5), nowidth(outer)
            if outer != model or nd5 != model:
                ctx.disagree('what=tie;nd_loop_vs_outer_product;' + signature(case, 'model_differs', spec), case, model,
                             [nd5, outer], 'the N-d chunk loop of the model, the outer product of its per-axis gathers and '
                             'the keep-aware layer disagree', kind='tie')
    # shape / dtype properties (and len()) equal those of self[:]
    if 'shape' in impl and impl.get('full', ['err'])[0] == 'ok':
        if impl['full'][2] != impl['shape'] or impl['full'][1] != impl['dtype']:
            ctx.disagree('indexer=%s;what=shape_dtype_vs_full' % case['kind'], case, [impl['shape'], impl['dtype']],
                         impl['full'][1:3], 'shape/dtype properties differ from those of self[:]')
        if impl['full'][2] and impl.get('len') != impl['full'][2][0]:
            ctx.disagree('indexer=%s;what=len_vs_full' % case['kind'], case, impl.get('len'), impl['full'][2][0],
                         'len() differs from the length of self[:]')
    # history: repeating the request after other requests, and the properties afterwards
    if 'again' in impl:
        again = nowidth(impl['again']) if sb else impl['again']
        if again != out and not (again[0] == 'err' and out[0] == 'err'):
            ctx.disagree('indexer=%s;what=history;symptom=second_answer_differs' % case['kind'], case, again, out,
                         'the same request answered differently after other requests on the same indexer')
        if 'shape' in impl and impl.get('props_after') != [impl['shape'], impl['dtype'], impl.get('len')]:
            ctx.disagree('indexer=%s;what=history;symptom=properties_moved' % case['kind'], case, impl.get('props_after'),
                         [impl['shape'], impl['dtype'], impl.get('len')], 'shape / dtype / len changed after indexing')
    ctx.traces_validated += 1
    nontriv = (out[0] == 'ok' and len(out[3]) > 0 and any(ix != ('s', None, None, None) for ix in case['index'])) \
        or (not indom)
    ctx.note_case(json.dumps(case, sort_keys=True, default=list), nontrivial=nontriv,
                  sample=dict(case=case, impl=out[:3], spec=spec[:3]) if nontriv else None)
    ctx.count('kind=' + case['kind'] + ('/' + case.get('src', '') if case['kind'] == 'lazy' else ''))
    ctx.count('impl=' + out[0])
    ctx.count('domain=' + ('in' if indom else 'malformed'))
    for ix in case['index']:
        ctx.count('stage2=' + ix[0])
    if case['ts']:
        ctx.count('with_transforms')
        ctx.count('chain_len=%d' % len(case['ts']))
        ctx.count('dtype_declaring=%d' % sum(1 for t in case['ts'] if t[0] == 'map' and t[3] is not None))
    for t in case['ts']:
        if t[0] in KEEP_AWARE:
            ctx.count('keep_aware=' + t[0])
    for flag in ('bare', 'npint', 'arr_index'):
        if case.get(flag):
            ctx.count('api=' + flag)
    if case['kind'] == 'concat' and any(p.get('raw') for p in case['parts']):
        ctx.count('api=raw_array_part')
    if case['kind'] == 'concat' and out[0] == 'ok' and 0 in out[2]:
        # empty selections of the concatenated indexer that are ANSWERED (F10 / F10b are repaired)
        ec = concat_empty_class(case)
        if ec:
            ctx.count('concat_empty_answered=' + ec)
    if case['kind'] == 'concat':
        dts = used_dtypes(case)
        ctx.count('concat_dtypes=' + ('common' if len(set(dts)) == 1 else
                                      'bytes_widths' if all(d > 100 for d in dts) else 'rejected_kinds'))
    else:
        ctx.count('lazy_dtype=' + ('bytes' if case['dt'] > 100 else np_dtype(case['dt']).name))


def run_cases(ctx, cases, pool):
    warnings.simplefilter('ignore', np.exceptions.ComplexWarning)
    mouts = ctx.model([wire_case(c) for c in cases]) if ctx.model_ok else [None] * len(cases)
    if ctx.model_ok:
        plain = [i for i, c in enumerate(cases) if c['kind'] == 'lazy' and not any(t[0] in KEEP_AWARE for t in c['ts'])]
        o5 = ctx.model([[5, wire_case(cases[i])[1]] for i in plain])
        mouts = [list(m) + [None] for m in mouts]
        for i, o in zip(plain, o5):
            mouts[i][5] = o
    for c, mo in zip(cases, mouts):
        impl = run_impl(c, pool)
        judge(ctx, c, impl, mo)
        if pool.n > 400:
            pool.drop()
            pool.n = 0

# ----------------------------------------------------------------------------- PySlice differential


def pyslice_differential(ctx):
    vals = [None] + list(range(-9, 10))
    steps = [None, -3, -2, -1, 1, 2, 3, 0]
    cases, keys = [], []
    for n in range(0, 8):
        for a in vals:
            for b in vals:
                for c in steps:
                    keys.append((n, a, b, c))
                    cases.append([50, [n] + [([] if v is None else [v]) for v in (a, b, c)]])
    outs = ctx.model(cases)
    bad = 0
    for (n, a, b, c), o in zip(keys, outs):
        try:
            s, e, st = slice(a, b, c).indices(n)
            exp = [1, s, e, st, list(range(n))[a:b:c]]
        except ValueError:
            exp = [0]
        if o != exp:
            bad += 1
            ctx.disagree('what=pyslice_model', dict(n=n, slice=[a, b, c]), exp, o,
                         'PySlice.slice_indices differs from Python slice.indices', kind='tie')
    ctx.extra['pyslice_exhaustive_cases'] = len(cases)
    ctx.extra['pyslice_mismatches'] = bad

# ----------------------------------------------------------------------------- read traces (reported)


def read_trace_report(ctx, pool):
    """1-D cases on both sides of the 20 % rule: dataset[...] requests predicted by the model (wire_51)."""
    rng = ctx.rng
    agree = total = dense = sparse = 0
    cases = []
    for _ in range(ctx.scale(150, 1500)):
        n = rng.randint(1, 12)
        i1 = gen_ix(rng, n, 0.0, kinds=['slice', 'mask', 'list', 'full', 'full'])
        if i1[0] == 's' and (i1[3] or 1) < 0:
            i1 = ('s', None, None, None)
        n1 = len(np_resolve(n, i1)[0])
        i2 = gen_ix(rng, n1, 0.0, kinds=['mask', 'list', 'list', 'slice'])
        cases.append((n, i1, i2))
    outs = ctx.model([[51, [n, enc_ix(i1), enc_ix(i2)]] for n, i1, i2 in cases])
    from katdal.lazy_indexer import LazyIndexer
    for (n, i1, i2), o in zip(cases, outs):
        log = []
        try:
            LazyIndexer(Recorder(np.arange(n), log), keep=py_ix(i1, True))[py_ix(i2, True)]
        except Exception:
            continue
        total += 1
        got = [[-10**9 if v is None else v for v in (k[0].start, k[0].stop, k[0].step)] for k in log if isinstance(k[0], slice)]
        if o[0] == 2 and [list(map(int, s)) for s in o[1]] == [list(map(int, g)) for g in got]:
            agree += 1
        if o[0] == 2 and len(o[1]) == 1 and len(got) == 1 and i2[0] in 'lm':
            dense += 1
        elif o[0] == 2 and len(o[1]) > 1:
            sparse += 1
    ctx.extra['read_traces_compared'] = total
    ctx.extra['read_traces_agree'] = agree
    ctx.extra['read_plans_single_slice'] = dense
    ctx.extra['read_plans_multi_segment'] = sparse

# ----------------------------------------------------------------------------- histories, memory, requests (round 7)


def norm_request(key):
    """one dataset[...] request as logged by Recorder -> [['i', z] | ['s', a, b, c] | ['l', [...]], ...]"""
    items = key if isinstance(key, tuple) else (key,)
    out = []
    for k in items:
        if isinstance(k, slice):
            out.append(['s'] + [None if v is None else int(v) for v in (k.start, k.stop, k.step)])
        elif np.isscalar(k):
            out.append(['i', int(k)])
        else:
            out.append(['l', [int(v) for v in np.asarray(k).ravel().tolist()]])
    return out


def h5_request_ok(shape, req):
    """h5py's rule for one request, written independently of the Coq model (checked against h5py by h5_differential)"""
    if len(req) != len(shape) or sum(1 for it in req if it[0] == 'l') > 1:
        return False
    for n, it in zip(shape, req):
        if it[0] == 'i' and not -n <= it[1] < n:
            return False
        if it[0] == 's' and it[3] is not None and it[3] < 1:
            return False
        if it[0] == 'l' and (any(b <= a for a, b in zip(it[1], it[1][1:])) or any(not 0 <= v < n for v in it[1])):
            return False
    return True


def model_request(r):
    return ['i', r[1]] if r[0] == 0 else ['s', r[1], r[2], r[3]] if r[0] == 1 else ['l', list(r[1])]


def gen_history(rng):
    c = gen_lazy(rng, 0.1 if rng.random() < 0.2 else 0.0)
    c.pop('bare', None)
    nd = len(c['shape'])
    lens = first_stage_shape(c) or c['shape']
    if rng.random() < 0.5 and lens and lens[0] >= 4:
        # the hazard zone: a request that takes the dense strategy through a VIEW of the lookup / the caller's own array
        c['index'] = [rng.choice([('s', None, None, None), ('s', rng.choice([None, 0, 1]), None, rng.choice([None, 1, 2])),
                                  ('l', sorted(rng.sample(range(lens[0]), max(2, lens[0] * 2 // 3)))),
                                  ('l', [0, lens[0] - 1]), ('l', sorted(rng.sample(range(lens[0]), 3)))])] + list(c['index'][1:])
    c['history'] = [[gen_ix(rng, n, 0.05) for n in lens[:rng.choice([nd, nd, rng.randint(0, nd)])]]
                    for _ in range(rng.randint(1, 4))]
    c['scribble'] = rng.random() < 0.7
    return c


def _same(a, b):
    return type(a) is type(b) and (np.array_equal(a, b) if isinstance(a, np.ndarray) else a == b)


def run_history(case, pool):
    """ONE indexer answers index, history..., index again; arrays are handed in as the caller's own ndarrays and every
    array handed out is overwritten by the caller.  Returns per request: answer, answer of a FRESH indexer, whether
    self._lookup / the caller's index arrays / the source changed, the requests sent to the dataset."""
    from katdal.lazy_indexer import LazyIndexer
    ts = [py_tr(t, case.get('init')) for t in case['ts']]
    data = labels(case['shape'], 0, case['dt'])

    def build(log):
        d = data.copy()
        src = pool.dataset(d) if case.get('src') == 'h5py' else d
        return d, src, LazyIndexer(Recorder(src, log), keep=tuple(py_ix(ix, True) for ix in case['keep']), transforms=ts)
    log = []
    try:
        d, src, li = build(log)
    except Exception as e:
        return ['err', type(e).__name__ + ':init']
    look0 = [None if a is None else np.array(a, copy=True) for a in li._lookup]
    steps = []
    for k2 in [case['index']] + case['history'] + [case['index']]:
        mine = [py_ix(ix, True) for ix in k2]
        saved = [m.copy() if isinstance(m, np.ndarray) else m for m in mine]
        mark = len(log)
        try:
            r = li[tuple(mine)]
            a = canon(r)
        except Exception as e:
            r, a = None, ['err', type(e).__name__]
        st = dict(index=k2, out=a, requests=[norm_request(k) for k in log[mark:]],
                  index_kept=all(_same(x, y) for x, y in zip(mine, saved)),
                  lookup_kept=len(li._lookup) == len(look0) and all(
                      (x is None and y is None) or (x is not None and y is not None and np.array_equal(x, y))
                      for x, y in zip(li._lookup, look0)))
        if case.get('scribble') and isinstance(r, np.ndarray) and r.size:
            try:
                r[...] = np.zeros((), r.dtype)
            except ValueError:
                pass
        st['source_kept'] = bool(np.array_equal(np.asarray(src[...]), data))
        try:
            st['fresh'] = canon(build([])[2][tuple(py_ix(ix, True) for ix in k2)])
        except Exception as e:
            st['fresh'] = ['err', type(e).__name__]
        steps.append(st)
    return steps


def judge_history(ctx, case, steps, mreq):
    """mreq: per request the output of wire 55 (None without a model)"""
    ctx.count('history_len=%d' % (len(case['history']) + 2))
    ctx.count('history_src=' + case.get('src', 'numpy'))
    if isinstance(steps, list) and steps and steps[0] == 'err':
        ctx.count('history=init_raises')
        return
    sb = scalar_bytes(case)
    neg = lambda k2: any(ix[0] == 's' and (ix[3] or 1) < 0 for ix in k2)
    for n, st in enumerate(steps):
        out, fresh = (nowidth(st['out']), nowidth(st['fresh'])) if sb else (st['out'], st['fresh'])
        where = dict(case, step=n, asked=st['index'])
        if out != fresh and not (out[0] == 'err' and fresh[0] == 'err'):
            ctx.disagree('indexer=lazy;what=history;symptom=answer_depends_on_history', where, out, fresh,
                         'request %d of the history is answered differently by a fresh indexer' % n)
        for key, sym in (('lookup_kept', 'lookup_changed'), ('index_kept', 'caller_index_changed'),
                         ('source_kept', 'source_changed')):
            if not st[key]:
                ctx.disagree('indexer=lazy;what=history;symptom=' + sym, where, sym, 'unchanged',
                             'a read changed memory it does not own (%s)' % sym)
        ctx.count('history_answer=' + out[0])
        ctx.traces_validated += 1
        if out[0] != 'ok':
            continue
        # requests: only integers and slices; acceptable to h5py unless the user asked for a negative step
        for rq in st['requests']:
            ctx.count('request_items=' + ''.join(it[0] for it in rq))
        ctx.count('requests_per_read=%s' % (len(st['requests']) if len(st['requests']) < 4 else '4+'))
        if not neg(st['index']) and not all(h5_request_ok(case['shape'], rq) for rq in st['requests']):
            ctx.disagree('indexer=lazy;what=requests;symptom=not_acceptable_to_h5py', where, st['requests'], None,
                         'a dataset request is not one h5py accepts (integers in range, slice steps >= 1, no index list)')
        if mreq is not None and mreq[n] is not None:
            mo = mreq[n]
            if mo[0] != 1:
                # accept / reject agreement of model and implementation is judged by the main stream (malformed masks
                # of another length, first stages that do not exist); only the requests of modelled reads are compared
                ctx.count('requests_model_rejects')
                continue
            model = [[model_request(it) for it in rq] for rq in mo[1]]
            if model != st['requests']:
                ctx.disagree('indexer=lazy;what=tie;requests_differ', where, st['requests'], model,
                             'the requests sent to the dataset differ from those of the model (Model/LazyHist.v requests)',
                             kind='tie')
            elif mo[0] == 1 and not neg(st['index']) and mo[2] != 1:
                ctx.disagree('indexer=lazy;what=tie;h5_accepts', where, st['requests'], mo,
                             'the model of h5py refuses a request of an answered read', kind='tie')
    ctx.note_case(json.dumps(dict(case, what='history'), sort_keys=True, default=list), nontrivial=True, sample=None)


def safe_model(ctx, cases):
    """wires 55 / 56 may be missing from the last good driver that the failing-input search falls back to"""
    try:
        outs = ctx.model(cases)
    except Exception:
        return None
    return None if any(o == [-999] for o in outs) else outs


def run_histories(ctx, cases, pool):
    for c in cases:
        steps = run_history(c, pool)
        mreq = None
        if ctx.model_ok and isinstance(steps, list) and steps and steps[0] != 'err':
            mreq = safe_model(ctx, [[55, [c['shape'], [enc_ix(i) for i in c['keep']], [enc_ix(i) for i in st['index']]]]
                                    for st in steps])
        judge_history(ctx, c, steps, mreq)
        if pool.n > 400:
            pool.drop()
            pool.n = 0


FIXED_HISTORIES = [
    # dense strategy through a view of the lookup (first stage list, request [:]), then the same again
    dict(kind='lazy', src='numpy', shape=[10], keep=[('l', [1, 2, 4, 5, 7, 8])], ts=[], dt=0,
         index=[('s', None, None, None)], history=[[('i', 0)]], scribble=True),
    # ... through the caller's own array, no first stage
    dict(kind='lazy', src='h5py', shape=[10, 3], keep=[], ts=[], dt=0,
         index=[('l', [1, 2, 4, 5, 7, 8]), ('l', [0, 2])], history=[[('s', None, None, 2)]], scribble=True),
    # ... through a strided view of a mask lookup, 2-D, both axes dense
    dict(kind='lazy', src='numpy', shape=[8, 6], keep=[('m', [1, 1, 0, 1, 1, 0, 1, 1]), ('l', [1, 2, 4, 5])], ts=[], dt=1,
         index=[('s', 1, None, None), ('s', None, None, None)], history=[[('i', -1), ('i', 0)], []], scribble=True),
    # one chunk, no post-selection: what is handed out must not be a view of the source
    dict(kind='lazy', src='numpy', shape=[6, 2], keep=[], ts=[], dt=0, index=[('s', 1, 5, None)],
         history=[[('s', None, None, None)]], scribble=True),
]


def history_stream(ctx, pool):
    cases = [norm_case(dict(c)) for c in FIXED_HISTORIES]
    for c, raw in zip(cases, FIXED_HISTORIES):
        c.update(history=[[tuple(i) for i in h] for h in raw['history']], scribble=raw['scribble'])
    cases += [gen_history(ctx.rng) for _ in range(ctx.scale(700, 6000))]
    run_histories(ctx, cases, pool)
    ctx.extra['histories'] = len(cases)


def h5_differential(ctx, pool):
    """Model/LazyHist.v h5_read (what h5py accepts, what it returns) against the real h5py on every small request item"""
    items = []
    for n in range(0, 6):
        ds = pool.dataset(np.arange(n))
        its = [['i', z] for z in range(-8, 9)]
        its += [['s', a, b, c] for a in range(-7, 8) for b in range(-7, 8) for c in (-2, -1, 0, 1, 2, 3)]
        its += [['l', l] for l in ([], [0], [1, 3], [0, 1, 2], [3, 1], [1, 1], [n], [0, n - 1], [2, 4])]
        for it in its:
            key = it[1] if it[0] == 'i' else slice(it[1], it[2], it[3]) if it[0] == 's' else it[1]
            try:
                got = [1, [int(v) for v in np.atleast_1d(ds[key]).tolist()]]
            except Exception:
                got = [0]
            items.append((n, it, got))
    enc = lambda it: [0, it[1]] if it[0] == 'i' else [1, it[1], it[2], it[3]] if it[0] == 's' else [2, list(it[1])]
    outs = safe_model(ctx, [[56, [n, enc(it)]] for n, it, _ in items])
    if outs is None:
        return
    bad = 0
    for (n, it, got), o in zip(items, outs):
        ctx.count('h5_item=%s/%s' % (it[0], 'accepted' if got[0] else 'refused'))
        if [o[0]] + ([list(o[1])] if o[0] == 1 else []) != got:
            bad += 1
            ctx.disagree('what=h5py_model;item=' + it[0], dict(n=n, item=it), got, o,
                         'Model/LazyHist.v h5_read differs from h5py on one request item', kind='tie')
        if h5_request_ok([n], [it]) != bool(got[0]):
            ctx.disagree('what=h5py_rule_of_harness;item=' + it[0], dict(n=n, item=it), got, None,
                         'the harness\'s own h5py rule differs from h5py', kind='tie')
    ctx.extra['h5_items_compared'] = len(items)
    ctx.extra['h5_item_mismatches'] = bad


# ----------------------------------------------------------------------------- dtype sweep (every tier)


def sweep_heads(lens):
    """head indices of every kind on parts of the given lengths: each part alone, part boundaries, everything"""
    n = sum(lens)
    last = n - lens[-1]                      # first row of the last part
    one = lambda k: [int(i == k) for i in range(n)]
    return [('i', 0), ('i', last), ('i', n - 1), ('i', -1), ('s', None, None, None), ('s', 0, lens[0], None),
            ('s', 1, None, 2), ('s', last, None, None), ('s', n - 1, None, None), ('s', 0, 1, None),
            ('m', [int(i in (0, last, n - 1)) for i in range(n)]), ('m', one(0)), ('m', one(n - 1)),
            ('m', [int(i >= last) for i in range(n)]), ('l', [0, n - 1]), ('l', list(range(1, n - 1))), ('l', [n - 1]),
            ('l', [0]), ('l', [-1, 0]), ('l', [n - 1, 1]), ('l', list(range(last, n))), ('l', [])]


def dtype_sweep():
    """fixed cases: part dtypes (every common dtype, byte strings narrow-first / wide-first / equal / rising and falling
    over three parts, an empty part of another dtype in front, mixtures katdal rejects) x every head kind x
    (no transform, dtype-changing maps); 1-D and 2-D parts.  Every byte-string part is long enough to hold strings of
    its full width, so a buffer or cast narrower than the part loses data that the selection returns."""
    dtsets = [[d, d] for d in NUMERIC] + [[102, 104], [104, 102], [103, 103], [101, 106], [106, 101]] + \
        [[0, 1], [3, 0], [2, 1], [4, 5]]
    chains = [[], [('map', 1, -1, 3)], [('map', -1, 1, 3)], [('map', 2, 1, 1)], [('map', 1, 0, 0)], [('map', 3, 0, 5)],
              [('map', 1, 0, 4), ('map', 2, 0, 1)]]
    cases = []

    def add(lens, dts, tail, heads, tss):
        for h in heads:
            for ts in tss:
                parts = [dict(shape=[n] + tail, keep=[], dt=d) for n, d in zip(lens, dts)]
                cases.append(dict(kind='concat', parts=parts, ts=list(ts), dt=dts[0], index=[h]))
    for dts in dtsets:
        lens = [3 if dts[0] < 100 else dts[0] - 100, 2 if dts[1] < 100 else dts[1] - 100]
        heads = sweep_heads(lens)
        add(lens, dts, [], heads, chains if dts[0] < 100 else [[]])
        add(lens, dts, [2], heads, [[]])
        add(lens, dts, [2], [h for h in heads if h[0] == 'l'], chains[1:] if dts[0] < 100 else [])
    # three parts: widths rising / falling / widest in the middle; an empty part (any dtype) in front or in the middle
    for dts in ([101, 103, 106], [106, 103, 101], [102, 106, 103]):
        lens = [d - 100 for d in dts]
        add(lens, dts, [], sweep_heads(lens), [[]])
    for lens, dts in (([0, 3, 6], [106, 103, 106]), ([0, 3, 2], [1, 103, 102]), ([2, 0, 4], [102, 0, 104]),
                      ([0, 3, 2], [0, 4, 4])):
        add(lens, dts, [], sweep_heads(lens), [[]])
    return cases

def empty_sweep():
    """fixed cases around the repaired findings F10 / F10b: head slices [a:b:st] (st = 1, 2, 3; a, b over all
    positions incl. negative and None: every empty slice whose start lies in a later / the same / an earlier part
    than its stop, and a third of the others), every head kind combined with tail selections of which one selects
    nothing (slice, list, all-False mask), over 1-4 parts (some without rows, parts with a first stage of their own
    and a transform chain on the concatenation), 1-D to 3-D."""
    cases = []
    for lens in ([3, 2], [1, 4, 2], [2, 0, 3], [0, 2, 2, 1], [5]):
        n = sum(lens)
        pos = [None] + list(range(-n - 1, n + 2))
        for a in pos:
            for b in pos:
                for st in (None, 2, 3):
                    if len(range(*slice(a, b, st).indices(n))) == 0 or (a is not None and b is not None and (a + b) % 3 == 0):
                        cases.append(dict(kind='concat', parts=[dict(shape=[h, 2], keep=[]) for h in lens], ts=[], dt=0,
                                          index=[('s', a, b, st)]))
    empties = [('s', 2, 1, None), ('s', 0, 0, None), ('l', []), ('m', [0, 0, 0]), ('s', 5, None, None)]
    others = [('s', None, None, None), ('i', 1), ('l', [0, 2]), ('m', [1, 0, 1]), ('s', None, None, 2)]
    for lens in ([3, 2], [1, 4, 2], [2, 0, 3]):
        n = sum(lens)
        heads = [('s', None, None, None), ('s', 1, n - 1, 2), ('s', n, 1, None), ('s', lens[0], lens[0], None),
                 ('m', [k % 2 for k in range(n)]), ('m', [0] * n), ('l', [0, n - 1]), ('l', []), ('i', n - 1)]
        for h in heads:
            for e in empties:
                cases.append(dict(kind='concat', parts=[dict(shape=[k, 3], keep=[]) for k in lens], ts=[], dt=0, index=[h, e]))
                for o in others:
                    for ix in ([h, e, o], [h, o, e]):
                        cases.append(dict(kind='concat', parts=[dict(shape=[k, 3, 3], keep=[]) for k in lens], ts=[], dt=0,
                                          index=list(ix)))
        # parts with a first stage of their own and a transform chain on the concatenation
        for h in heads:
            for e in empties:
                cases.append(dict(kind='concat', parts=[dict(shape=[k + 2, 3], keep=[('s', 1, -1, None)]) for k in lens],
                                  ts=[('map', 2, 1, 1)], dt=0, index=[h, e]))
    return cases

# ----------------------------------------------------------------------------- small-scope exhaustive (thorough)


def small_scope(ctx):
    alphabet = {}

    def alpha(n):
        if n not in alphabet:
            a = [('i', k) for k in range(-n, n)] + [('s', None, None, None)]
            a += [('s', s, e, st) for s in (None, 1, -1) for e in (None, 2, -1) for st in (1, 2, -1)]
            a += [('m', list(m)) for m in itertools.product([0, 1], repeat=n)]
            a += [('l', list(l)) for k in range(0, n + 1) for l in itertools.combinations(range(n), k)]
            a += [('l', [0, 0]), ('l', [n - 1, 0]), ('l', [-1])] if n else []
            alphabet[n] = a
        return alphabet[n]
    cases = []
    for n in (1, 2, 3, 4):
        for i1 in alpha(n):
            try:
                n1 = len(np_resolve(n, i1)[0])
            except Exception:
                continue
            for i2 in alpha(n1):
                cases.append(dict(kind='lazy', src='numpy', shape=[n], keep=[i1], ts=[], dt=0, index=[i2]))
    for (a, b) in ((2, 2), (2, 3), (3, 2)):
        for i1, j1 in itertools.product(alpha(a)[::3], alpha(b)[::3]):
            cases.append(dict(kind='lazy', src='numpy', shape=[a, b], keep=[], ts=[], dt=0, index=[i1, j1]))
    for split in ([3], [1, 2], [2, 0, 1], [1, 1, 1]):
        for i1 in alpha(3):
            cases.append(dict(kind='concat', parts=[dict(shape=[h, 2], keep=[]) for h in split], ts=[], dt=0,
                              index=[i1]))
    for split, dts in (([1, 2], [101, 102]), ([2, 1], [102, 101]), ([1, 1, 1], [101, 103, 102]), ([1, 2], [3, 3]),
                       ([2, 1], [4, 4])):
        for i1 in alpha(3):
            cases.append(dict(kind='concat', parts=[dict(shape=[h, 2], keep=[], dt=d) for h, d in zip(split, dts)],
                              ts=[], dt=dts[0], index=[i1]))
    return cases

# ----------------------------------------------------------------------------- entry points


def finding_cases(ctx):
    return [(f, f['witness']) for f in ctx.findings if isinstance(f.get('witness'), dict) and 'kind' in f['witness']]


def norm_case(c):
    """JSON round trip leaves lists where tuples were generated"""
    def ix(i):
        return tuple(i) if i[0] != 's' else tuple(i)
    c = dict(c)
    c['index'] = [ix(i) for i in c['index']]
    c['ts'] = [tuple(t) for t in c.get('ts', [])]
    if c['kind'] == 'lazy':
        c['keep'] = [ix(i) for i in c.get('keep', [])]
    else:
        c.setdefault('dt', 0)
        c['parts'] = [dict(shape=p['shape'], keep=[ix(i) for i in p.get('keep', [])], dt=p.get('dt', c['dt']),
                           raw=bool(p.get('raw')), ts=[tuple(t) for t in p.get('ts', [])]) for p in c['parts']]
    c.setdefault('dt', 0)
    if any(t[0] in KEEP_AWARE for t in c['ts']) and 'init' not in c:
        c = finish_case(c)
    return c


def run(ctx):
    pool = H5Pool()
    try:
        if ctx.model_ok:
            pyslice_differential(ctx)
        # known findings first (open ones must still fail -> KNOWN-FINDING, fixed ones must pass)
        wit = [norm_case(w) for _, w in finding_cases(ctx)]
        run_cases(ctx, wit, pool)
        corpus = os.path.join(os.path.dirname(os.path.dirname(os.path.dirname(os.path.abspath(__file__)))), 'corpus', 'C05')
        if os.path.isdir(corpus):
            cc = [norm_case(json.load(open(os.path.join(corpus, f)))) for f in sorted(os.listdir(corpus)) if f.endswith('.json')]
            run_cases(ctx, cc, pool)
        sweep = dtype_sweep()
        run_cases(ctx, sweep, pool)
        ctx.extra['dtype_sweep_cases'] = len(sweep)
        esweep = [norm_case(c) for c in empty_sweep()]
        run_cases(ctx, esweep, pool)
        ctx.extra['empty_sweep_cases'] = len(esweep)
        n = ctx.scale(7000, 60000)
        if ctx.searching:
            n = ctx.scale(20000, 60000)
        rng = ctx.rng
        batch = []
        for i in range(n):
            malformed = 0.25 if rng.random() < 0.3 else 0.0
            c = gen_concat(rng, malformed) if rng.random() < 0.35 else gen_lazy(rng, malformed)
            if rng.random() < 0.3:
                c['arr_index'] = True
            batch.append(c)
            if len(batch) >= 2000:
                run_cases(ctx, batch, pool)
                batch = []
        run_cases(ctx, batch, pool)
        if ctx.tier == 'thorough':
            ss = small_scope(ctx)
            for i in range(0, len(ss), 4000):
                run_cases(ctx, ss[i:i + 4000], pool)
            ctx.extra['small_scope_cases'] = len(ss)
            if ctx.model_ok:
                from vh import core
                sample = [wire_case(norm_case(c)) for c in ss[::max(1, len(ss) // 250)]][:280]
                # a clean rebuild (thorough tier) only rebuilds the cone of Props/C05.vo; Dispatch.vo needs every model
                with core.BuildLock():
                    vos = [x[:-2] + '.vo' for x in core.coq_sources() if x.startswith(('Base/', 'Gen/', 'Model/'))]
                    core.sh('timeout 1500 make -j4 ' + ' '.join(vos), cwd=core.COQ, timeout=1600)
                    core.sh('timeout 600 coqc -Q . KV Extract/Dispatch.v', cwd=core.COQ, timeout=700)
                a = core.run_model_in_coq(sample, 'c05')
                b = ctx.model(sample)
                ctx.extra['extraction_crosscheck_cases'] = len(sample)
                if a != b:
                    ctx.disagree('what=extraction_crosscheck', dict(n=len(sample)), 'vm_compute', 'ocaml',
                                 'extracted model differs from vm_compute inside Coq', kind='tie')
        if ctx.model_ok:
            read_trace_report(ctx, pool)
            h5_differential(ctx, pool)
            pool.drop()
            pool.n = 0
        history_stream(ctx, pool)
        ctx.exhaustive = False
    finally:
        pool.close()


def replay(ctx, doc):
    case = doc.get('case') or doc.get('witness')
    pool = H5Pool()
    try:
        if 'history' in case:
            c = norm_case(case)
            c.update(history=[[tuple(i) for i in h] for h in case['history']], scribble=case.get('scribble', True))
            run_histories(ctx, [c], pool)
        elif 'item' in case:
            h5_differential(ctx, pool)
        elif 'kind' in case:
            run_cases(ctx, [norm_case(case)], pool)
        elif 'slice' in case:
            pyslice_differential(ctx)
    finally:
        pool.close()
