"""C02, extended correspondence (Model/SelectX.v, wire_21 / wire_22): several spectral windows and subarrays, the
surface forms of the name criteria as the strings / sequences the caller passes, degenerate index forms, and the
state left behind by EVERY call - also one that raises part-way (histories go on after a failed call).

Driven through the real `DataSet.select(**kwargs)` of a harness subclass of DataSet (real SensorCache, katpoint
catalogue, SpectralWindow, Subarray); observed after every call: `d.dumps, d.channels, d.freqs, d.corr_products,
d.shape, d.ants, d.inputs, len(d.timestamps), d.scan_indices, d.compscan_indices, d.target_indices` (public) and
`_time_keep, _freq_keep, _corrprod_keep, _selection` key order, `_weights_keep, _flags_keep, spw, subarray` (tie).
"""
import warnings

import numpy as np

from props import c02 as base

STATES, LABELS, TAGS, ANTS, UNKNOWN = base.STATES, base.LABELS, base.TAGS, base.ANTS, base.UNKNOWN
codes = base.codes
INPUTS = [a + p for a in ANTS for p in 'hv']
TIME, FREQ, CORR = base.TIME, base.FREQ, base.CORR
NAMES_KEYS = ('scans', 'compscans', 'target_tags', 'ants', 'inputs', 'pol')
KNOWN_NOT_ATOMIC = 'failed_call;symptom=not_atomic'
XWIRE = 23      # Model/SelectA.v: the decorated (all-or-nothing) method; wire_21 is the bare body


# ---------------------------------------------------------------------------------------------------------------
# observation with several spectral windows / subarrays

def _segments(rng, T, nvals, maxseg):
    """Piecewise-constant sensor: (values, events) with events[0] = 0, events[-1] = T."""
    nseg = rng.randint(1, min(T, maxseg))
    starts = sorted(rng.sample(range(1, T), nseg - 1)) if nseg > 1 else []
    events = [0] + starts + [T]
    vals = []
    for _ in range(nseg):
        v = rng.randrange(nvals)
        if vals and v == vals[-1] and nvals > 1:
            v = (v + 1) % nvals
        vals.append(v)
    return vals, events


def gen_xobs(rng, small=False):
    s = base.gen_obs(rng, small=small)
    T = s['T']
    nspw = rng.choice([1, 2, 2, 3])
    nsub = rng.choice([1, 1, 2])
    s['spw_vals'], s['spw_events'] = _segments(rng, T, nspw, 4)
    s['sub_vals'], s['sub_events'] = _segments(rng, T, nsub, 3)
    w = s['w']
    spws = []
    for k in range(nspw):
        mk = rng.choice([1, 1, 2])
        spws.append(dict(F=rng.randint(2, 5 if small else 10), mk=mk, centre=s['centre'] + rng.randint(-6, 6) * 4 * w,
                         sideband=rng.choice([1, -1])))
    s['spws'] = spws
    subs = []
    for k in range(nsub):
        nants = rng.randint(2, 4)
        ants = rng.sample(ANTS[:4], nants)
        inputs = [a + p for a in ants for p in 'hv']
        allcp = [(a, b) for a in inputs for b in inputs]
        B = rng.randint(2, 6 if small else 10)
        cps = rng.sample(allcp, B)
        if rng.random() < 0.4:
            cps = [(a + p, b + q) for (p, q) in ('hh', 'vv', 'hv', 'vh') for i, a in enumerate(ants) for b in ants[i:]][:B]
        subs.append(dict(ants=ants, cps=cps))
    s['subs'] = subs
    # keep the single-window keys of the base spec meaningful for its helpers (window 0 / subarray 0)
    s['ants'], s['cps'] = subs[0]['ants'], subs[0]['cps']
    s['F'] = spws[0]['F']
    return s


class XObservation:
    """Generated observation with several windows / subarrays, its real katdal DataSet and its wire encoding."""

    compare_wf = True

    def __init__(self, spec):
        import katpoint
        from katdal.categorical import CategoricalData
        from katdal.dataset import DEFAULT_VIRTUAL_SENSORS, DataSet, Subarray
        from katdal.sensordata import SensorCache
        from katdal.spectral_window import SpectralWindow
        self.spec = spec
        T = spec['T']
        dp = spec['dp']
        timestamps = spec['t0'] + dp * np.array(spec['gaps'], dtype=float)
        self.timestamps = timestamps
        ktargets = [katpoint.Target(base.target_description(t)) for t in spec['targets']]
        self.kant = {a: katpoint.Antenna('%s, -30:42:39.8, 21:26:38.0, 1086.6, 13.5, %d 0 0' % (a, 10 * i))
                     for i, a in enumerate(ANTS)}
        w = spec['w']
        subarrays = [Subarray([self.kant[a] for a in sa['ants']], sa['cps']) for sa in spec['subs']]
        spws = [SpectralWindow(centre_freq=float(x['centre']), channel_width=float(4 * w * x['mk']), num_chans=x['F'],
                               sideband=x['sideband']) for x in spec['spws']]
        self.subarrays, self.spws = subarrays, spws

        class HarnessDataSet(DataSet):
            def __init__(self):
                super().__init__(name='c02x', ref_ant='array')
                self.subarrays = list(subarrays)
                self.spectral_windows = list(spws)
                cs_ev, sc_ev = spec['cs_events'], spec['sc_events']
                sensors = {'Observation/spw_index': CategoricalData(list(spec['spw_vals']), spec['spw_events']),
                           'Observation/subarray_index': CategoricalData(list(spec['sub_vals']), spec['sub_events'])}
                sensors['Observation/target'] = CategoricalData([ktargets[i] for i in spec['cs_target']], cs_ev)
                sensors['Observation/target_index'] = CategoricalData(list(spec['cs_target']), cs_ev)
                sensors['Observation/compscan_index'] = CategoricalData(list(range(len(cs_ev) - 1)), cs_ev)
                sensors['Observation/label'] = CategoricalData(list(spec['cs_label']), cs_ev)
                sensors['Observation/scan_index'] = CategoricalData(list(range(len(sc_ev) - 1)), sc_ev)
                sensors['Observation/scan_state'] = CategoricalData(list(spec['sc_state']), sc_ev)
                self._timestamps = timestamps
                self._time_keep = np.full(T, True, dtype=bool)
                self._freq_keep = np.full(spws[0].num_chans, True, dtype=bool)
                self._corrprod_keep = np.full(len(subarrays[0].corr_products), True, dtype=bool)
                self.dump_period = dp
                self.start_time = katpoint.Timestamp(timestamps[0] - 0.5 * dp)
                self.end_time = katpoint.Timestamp(timestamps[-1] + 0.5 * dp)
                self.sensor = SensorCache(sensors, timestamps, dp, keep=self._time_keep,
                                          virtual=DEFAULT_VIRTUAL_SENSORS)
                self.catalogue.add(ktargets)
                self.select(spw=0, subarray=0)

            @property
            def timestamps(self):
                return self._timestamps[self._time_keep]

        self.cls = HarnessDataSet
        self.d = HarnessDataSet()
        assert len(self.d.catalogue.targets) == len(ktargets), 'catalogue merged targets'
        self.T = T
        allf = np.concatenate([x.channel_freqs for x in spws])
        self.fbase = float(allf.min()) - 16 * w
        self.fz = []
        for x in spws:
            fz = (x.channel_freqs - self.fbase) / w
            assert np.all(fz == np.round(fz))
            self.fz.append([int(v) for v in fz])
        self.cps = [[(str(a), str(b)) for a, b in sa.corr_products] for sa in subarrays]
        self.name_ids = {}
        for t in spec['targets']:
            for n in t['names']:
                self.name_ids.setdefault(base.norm_name(n), len(self.name_ids))
        self.weight_ids = {}
        self._wire = None

    def fresh(self):
        return self.cls()

    def nspw(self):
        return len(self.spws)

    def nsub(self):
        return len(self.subarrays)

    @staticmethod
    def input_id(name):
        if name in INPUTS:
            return [ANTS.index(name[:-1]), 'hv'.index(name[-1])]
        return [-1, -1]

    def tag_id(self, tag):
        return TAGS.index(tag) if tag in TAGS else UNKNOWN

    def per_dump(self):
        s = self.spec
        rows = []
        for i in range(self.T):
            def at(events):
                return max(j for j, e in enumerate(events[:-1]) if e <= i)
            cs, sc = at(s['cs_events']), at(s['sc_events'])
            rows.append([4 * s['gaps'][i], sc, STATES.index(s['sc_state'][sc]), cs, LABELS.index(s['cs_label'][cs]),
                         s['cs_target'][cs], s['spw_vals'][at(s['spw_events'])], s['sub_vals'][at(s['sub_events'])]])
        return rows

    def wire(self):
        if self._wire is None:
            s = self.spec
            targets = [[[self.name_ids[base.norm_name(n)] for n in t['names']],
                        [self.tag_id(t['body'])] + [self.tag_id(x) for x in t['tags']]] for t in s['targets']]
            spws = [[fz, 2 * x['mk']] for fz, x in zip(self.fz, s['spws'])]
            subs = [[[ANTS.index(a) for a in sa['ants']], [self.input_id(a) + self.input_id(b) for a, b in cps]]
                    for sa, cps in zip(s['subs'], self.cps)]
            vocab = [[[codes(x), i] for i, x in enumerate(STATES)], [[codes(x), i] for i, x in enumerate(LABELS)],
                     [[codes(x), i] for i, x in enumerate(TAGS)], [[codes(x), i] for i, x in enumerate(ANTS)],
                     [[codes(x)] + self.input_id(x) for x in INPUTS]]
            self._wire = [self.per_dump(), 2, targets, spws, subs, vocab]
        return self._wire


class XDataSetObservation(XObservation):
    """The same interface over an already opened katdal data set of a real format class (thorough tier): one
    spectral window, one subarray; the structure is read back from the data set itself (via the part-1 reader)."""

    compare_wf = False     # _flags_keep / _weights_keep are format-specific properties (C16)

    def __init__(self, d):
        b = base.DataSetObservation(d)
        self.b = b
        self.d = d
        self.T = b.T
        self.timestamps = b.timestamps
        w = b.spec['w']
        self.spec = dict(b.spec, subs=[dict(ants=b.spec['ants'], cps=b.cps)], spws=[dict(F=b.F, mk=1)],
                         spw_vals=[0], spw_events=[0, b.T], sub_vals=[0], sub_events=[0, b.T])
        assert all(a in ANTS for a in b.spec['ants'])
        import katpoint
        self.kant = {a: katpoint.Antenna('%s, -30:42:39.8, 21:26:38.0, 1086.6, 13.5, %d 0 0' % (a, 10 * i))
                     for i, a in enumerate(ANTS)}
        self.kant.update({a.name: a for a in b.kants})
        self.fbase = b.fbase
        self.fz = [b.fz]
        self.cps = [b.cps]
        self.spws = [d.spectral_windows[0]]
        self.subarrays = [d.subarrays[0]]
        self.name_ids = b.name_ids
        self.weight_ids = {}
        self._wire = None

    def fresh(self):
        return self.b.fresh()

    def per_dump(self):
        b = self.b
        return [[4 * b.spec['gaps'][i], b.scan[i], STATES.index(b.state[i]), b.cscan[i], LABELS.index(b.label[i]), b.tgt[i], 0, 0]
                for i in range(b.T)]

    def wire(self):
        if self._wire is None:
            b = self.b
            targets = [[[self.name_ids[base.norm_name(n)] for n in t['names']], [self.tag_id(x) for x in t['tags']]]
                       for t in b.spec['targets']]
            vocab = [[[codes(x), i] for i, x in enumerate(STATES)], [[codes(x), i] for i, x in enumerate(LABELS)],
                     [[codes(x), i] for i, x in enumerate(TAGS)], [[codes(x), i] for i, x in enumerate(ANTS)],
                     [[codes(x)] + self.input_id(x) for x in INPUTS]]
            self._wire = [self.per_dump(), 2, targets, [[b.fz, 2]],
                          [[[ANTS.index(a) for a in b.spec['ants']], [self.input_id(x) + self.input_id(y) for x, y in b.cps]]], vocab]
        return self._wire


def run_real_format(ctx, n):
    """Part-2 histories on two synthetic MVF v4 data sets opened through VisibilityDataV4 (thorough tier)."""
    import random
    import shutil
    for k in range(2):
        x = base.build_real(k)
        try:
            ob = XDataSetObservation(x.d)
            orng = random.Random(8800 + k)
            histories = []
            for _ in range(n):
                cur, h = [0, 0], []
                mal = 0.3 if orng.random() < 0.25 else 0.0
                for _ in range(orng.randint(1, 8)):
                    c = gen_xcall(orng, ob, cur, mal)
                    h.append(c)
                    cur = track(cur, c, ob)
                histories.append(h)
            mouts, _ = model_xhistories(ctx, ob, histories)
            for j, (h, mo) in enumerate(zip(histories, mouts)):
                run_xhistory(ctx, ob, h, mo, dict(kind='xreal', k=k, n=n, j=j))
            ctx.count('x:real_format_histories', len(histories))
        finally:
            shutil.rmtree(x.tmp, ignore_errors=True)
    ctx.extra['x_real_format'] = 'VisibilityDataV4 x 2 synthetic data sets, extended model'


# ---------------------------------------------------------------------------------------------------------------
# criteria in their surface forms: (python value, wire xvalue, form tag)

def xcore(w):
    return [20, w]


def sarg(item, ob):
    if isinstance(item, str):
        return [0, codes(item)]
    if isinstance(item, (int, np.integer)) and not isinstance(item, (bool, np.bool_)):
        return [1, int(item)]
    name = getattr(item, 'name', None)
    return [2, ANTS.index(name) if name in ANTS else -1]


def names_value(rng, ob, items, allow_comma=True):
    """One of the spellings of a sequence of items (strings / ints / objects) and its wire form."""
    forms = ['list', 'list', 'tuple']
    strs = all(isinstance(x, str) for x in items)
    if strs and allow_comma and items and not (len(items) == 1 and items[0] == ''):
        forms += ['comma', 'comma', 'comma']
    if len(items) == 1:
        forms += ['bare', 'bare']
    if not items:
        forms += ['emptystr']
    f = rng.choice(forms)
    if f == 'emptystr':
        return '', [21, [0, []]], f
    if f == 'bare':
        return items[0], [21, sarg(items[0], ob)], f + ('-str' if isinstance(items[0], str) else '-nonstr')
    if f == 'comma':
        sep = rng.choice([',', ', ', ' ,', ' , ', ',\t', ',\x0b', '\x1f,\n'])
        text = sep.join(items)
        if rng.random() < 0.15:
            text = rng.choice([' ', '\n']) + text + rng.choice([' ', '\t'])
        return text, [21, [0, codes(text)]], f
    seq = list(items) if f == 'list' else tuple(items)
    return seq, [22, [sarg(x, ob) for x in items]], f


def odd_spelling(rng, name):
    """Occasionally a spelling that the real code does NOT normalise (list items are not stripped, names are
    case-sensitive)."""
    c = rng.random()
    if c < 0.06:
        return ' ' + name
    if c < 0.10:
        return name + ' '
    if c < 0.14:
        return name.upper() if name.upper() != name else name.lower()
    return name


def gen_xindex(rng, n):
    """Index forms of dumps / channels / corrprods incl. the degenerate ones."""
    c = rng.random()
    if c < 0.70:
        v, w, f = base.gen_index(rng, n)
        return v, w, f
    kind = rng.choice(['tuple', 'tuple', 'emptytuple', 'tuple1', 'booltuple', 'bool0d', 'npbool0d', 'arr0dbool', 'arr0dint',
                       'range', 'emptyintarray', 'dupes', 'full', 'none_true', 'maxint'])
    if kind == 'tuple':
        l = [rng.randint(-n, n - 1) for _ in range(rng.randint(2, 4))]
        if rng.random() < 0.05:
            l[0] = n
        return tuple(l), [3, l], 'inttuple'
    if kind == 'emptytuple':
        return (), [3, []], 'emptytuple'
    if kind == 'tuple1':
        z = rng.randint(-n, n - 1)
        return (z,), [3, [z]], 'inttuple1'
    if kind == 'booltuple':
        m = [rng.random() < 0.6 for _ in range(n)]
        return tuple(m), [0, [int(x) for x in m]], 'booltuple'
    if kind in ('bool0d', 'npbool0d', 'arr0dbool'):
        b = rng.random() < 0.5
        v = b if kind == 'bool0d' else (np.bool_(b) if kind == 'npbool0d' else np.array(b))
        return v, [0, [int(b)]], kind
    if kind == 'arr0dint':
        z = rng.randint(-n, n - 1)
        return np.array(z), [1, z], kind
    if kind == 'range':
        a = rng.randint(0, n)
        b = rng.randint(a, n)
        return range(a, b), [3, list(range(a, b))], 'range'
    if kind == 'emptyintarray':
        return np.array([], dtype=int), [3, []], kind
    if kind == 'dupes':
        z = rng.randint(-n, n - 1)
        return [z, z, (z + n) % n if z < 0 else z - n], [3, [z, z, (z + n) % n if z < 0 else z - n]], 'dupes'
    if kind == 'full':
        return list(range(n)), [3, list(range(n))], 'all_indices'
    if kind == 'none_true':
        return [False] * n, [0, [0] * n], 'all_false_mask'
    return n - 1, [1, n - 1], 'maxint'


def gen_malformed(rng, ob, key, n):
    """A criterion that makes its loop branch raise (the call fails part-way), or None if the key has no such form."""
    if key in ('dumps', 'channels', 'corrprods'):
        kind = rng.choice(['oob', 'oobneg', 'oobtuple', 'shortmask', 'longmask', 'step0', 'oobarray'])
        if kind == 'oob':
            l = [0, n] if rng.random() < 0.5 else [n + rng.randint(0, 3)]
            return l, xcore([0, [3, l]]), 'bad-index-list'
        if kind == 'oobneg':
            return -n - 1, xcore([0, [1, -n - 1]]), 'bad-negative-int'
        if kind == 'oobtuple':
            return (0, -n - 1), xcore([0, [3, [0, -n - 1]]]), 'bad-index-tuple'
        if kind == 'oobarray':
            return np.array([n]), xcore([0, [3, [n]]]), 'bad-index-array'
        if kind == 'shortmask' and n >= 3:
            m = [True] * (n - 1)
            return m, xcore([0, [0, [1] * (n - 1)]]), 'bad-mask-short'
        if kind == 'longmask' and n >= 1:
            m = np.ones(n + 1, dtype=bool)
            return m, xcore([0, [0, [1] * (n + 1)]]), 'bad-mask-long'
        return slice(None, None, 0), xcore([0, [2, [], [], [0]]]), 'bad-slice-step0'
    if key in ('scans', 'compscans'):
        items = rng.choice([['track', ''], ['', 'track'], ['~', ''], [0, ''], [' ']])
        form = rng.choice(['list', 'tuple', 'comma'])
        if form == 'comma' and all(isinstance(x, str) for x in items):
            text = ','.join(items)
            if text:
                return text, [21, [0, codes(text)]], 'bad-empty-field'
        seq = list(items) if form != 'tuple' else tuple(items)
        return seq, [22, [sarg(x, ob) for x in items]], 'bad-empty-item'
    if key == 'ants':
        items = rng.choice([['~m000', ''], ['', 'm000'], ['~m000', 3], [3], ['~m001', '~m000', '']])
        seq = list(items) if rng.random() < 0.6 else tuple(items)
        return seq, [22, [sarg(x, ob) for x in items]], 'bad-item'
    if key == 'pol':
        items = rng.choice([['h', 3], [7], ['HH', 1]])
        return list(items), [22, [sarg(x, ob) for x in items]], 'bad-nonstring'
    return None


def gen_xcriterion(rng, ob, key, spw, sub, mal=0.0):
    """spw / sub: the window and subarray under which the criterion will be evaluated (those of this call)."""
    s = ob.spec
    spw_ok = 0 <= spw < ob.nspw()
    sub_ok = 0 <= sub < ob.nsub()
    if mal and rng.random() < mal:
        n = {'dumps': ob.T, 'channels': len(ob.fz[spw]) if spw_ok else 4,
             'corrprods': len(ob.cps[sub]) if sub_ok else 3}.get(key, 0)
        r = gen_malformed(rng, ob, key, n)
        if r is not None:
            return r
    if key == 'dumps':
        v, w, f = gen_xindex(rng, ob.T)
        return v, xcore([0, w]), f
    if key == 'channels':
        v, w, f = gen_xindex(rng, len(ob.fz[spw]) if spw_ok else 4)
        return v, xcore([0, w]), f
    if key == 'timerange':
        v, w, f = base.gen_criterion(rng, ob, key)
        return v, xcore(w), f
    if key == 'freqrange':
        fz = ob.fz[spw] if spw_ok else ob.fz[0]
        lo, hi = min(fz), max(fz)
        a = rng.randint(lo - 6, hi + 2)
        b = rng.randint(a - 2, hi + 6)
        w = s['w']
        form = rng.choice(['tuple', 'tuple', 'list', 'array'])
        pair = (ob.fbase + a * w, ob.fbase + b * w)
        v = pair if form == 'tuple' else (list(pair) if form == 'list' else np.array(pair))
        return v, xcore([1, a, b]), form
    if key in ('scans', 'compscans'):
        vocab = STATES if key == 'scans' else LABELS[1:]
        nidx = len(s['sc_events']) - 1 if key == 'scans' else len(s['cs_events']) - 1
        k = rng.choice([0, 1, 1, 1, 2, 2, 3])
        items = []
        for _ in range(k):
            c = rng.random()
            if c < 0.28:
                z = rng.randint(-1, nidx)
                items.append(z if rng.random() < 0.7 else np.int64(z))
            elif c < 0.31:
                items.append(rng.choice(['', '~', ' ']))
            else:
                name = odd_spelling(rng, rng.choice(vocab + ['bogus']))
                items.append(('~' if c < 0.55 else '') + name)
        v, w, f = names_value(rng, ob, items)
        return v, w, f
    if key == 'targets':
        v, w, f = base.gen_criterion(rng, ob, key)
        return v, xcore(w), f
    if key == 'target_tags':
        k = rng.choice([0, 1, 1, 1, 2, 2, 3])
        items = [odd_spelling(rng, rng.choice(TAGS)) if rng.random() < 0.95 else rng.choice(['', 3]) for _ in range(k)]
        return names_value(rng, ob, items)
    if key == 'corrprods':
        cps = ob.cps[sub] if sub_ok else ob.cps[0]
        c = rng.random()
        if c < 0.15:
            return 'auto', xcore([5]), 'auto'
        if c < 0.3:
            return 'cross', xcore([6]), 'cross'
        if c < 0.5:
            k = rng.randint(1, 3)
            pairs = [rng.choice(cps) if rng.random() < 0.8 else (rng.choice(cps)[0], 'm999h') for _ in range(k)]
            w = xcore([7, [ob.input_id(a) + ob.input_id(b) for a, b in pairs]])
            form = rng.choice(['tuples', 'lists', 'array'])
            if form == 'lists':
                return [list(p) for p in pairs], w, 'pairs-lists'
            if form == 'array':
                return np.array(pairs), w, 'pairs-array'
            return list(pairs), w, 'pairs-tuples'
        v, w, f = gen_xindex(rng, len(cps))
        return v, xcore([0, w]), f
    if key == 'ants':
        k = rng.choice([0, 1, 1, 1, 2, 2, 3])
        allt = rng.random() < 0.4
        items = []
        for _ in range(k):
            a = rng.choice(ANTS)
            neg = allt or rng.random() < 0.1
            c = rng.random()
            if not neg and c < 0.2:
                items.append(ob.kant[a])
            elif c < 0.24:
                items.append(rng.choice(['', '~', ' ~' + a]))
            else:
                items.append(('~' if neg else '') + odd_spelling(rng, a))
        return names_value(rng, ob, items)
    if key == 'inputs':
        k = rng.choice([0, 1, 2, 2, 3, 4])
        items = [odd_spelling(rng, rng.choice(INPUTS + ['nope'])) if rng.random() < 0.96 else '' for _ in range(k)]
        return names_value(rng, ob, items)
    if key == 'pol':
        k = rng.choice([0, 1, 1, 1, 2, 2, 3])
        pool = ['h', 'v', 'hh', 'vv', 'hv', 'vh', 'H', 'V', 'HH', 'VV', 'Hv', 'vH', '', 'x', 'hx', 'xh', 'hvv', 'VHH', ' h', 0]
        wts = [4, 4, 4, 4, 4, 4, 2, 2, 2, 2, 2, 2, 1, 0.3, 0.3, 0.3, 0.5, 0.5, 0.3, 0.2]
        items = rng.choices(pool, wts, k=k)
        return names_value(rng, ob, items)
    if key in ('weights', 'flags'):
        v = rng.choice(['all', '', 'cam', 'static,cal_rfi', ['data_lost'], 'precision'])
        pool = ob.weight_ids
        return v, xcore([11, pool.setdefault(repr(v), len(pool) + 1)]), 'opaque'
    if key == 'strict':
        b = rng.random() < 0.5
        return b, xcore([11, int(b)]), 'bool'
    return 7, xcore([11, 7]), 'opaque'      # unknown keyword


def gen_window(rng, n, cur):
    """A value for spw= / subarray=: mostly another valid index, sometimes the current one or an illegal one."""
    c = rng.random()
    if c < 0.55:
        z = rng.randrange(n)
    elif c < 0.75:
        z = cur
    else:
        z = rng.choice([n, -1, -n, -n - 1, n + 1])
    form = rng.choice(['int', 'int', 'npint'])
    return (z if form == 'int' else np.int64(z)), xcore([11, int(z)]), form


def gen_xcall(rng, ob, cur, mal=0.0):
    """cur = [spw, subarray] currently selected on the implementation side (updated by the caller);
    mal = probability that a criterion is replaced by a malformed one (malformed stream)."""
    n = rng.choice([0, 1, 1, 1, 2, 2, 2, 3, 3])
    keys = []
    for _ in range(n):
        c = rng.random()
        if c < 0.72:
            k = rng.choice(TIME + FREQ + CORR)
        elif c < 0.80:
            k = rng.choice(['flags', 'weights'])
        elif c < 0.94:
            k = rng.choice(['spw', 'subarray'])
        elif c < 0.97:
            k = 'strict'
        else:
            k = rng.choice(['bogus', 'dump', 'antennas'])
        if k not in keys:
            keys.append(k)
    call = []
    spw, sub = cur
    vals = {}
    for k in keys:
        if k == 'spw':
            vals[k] = gen_window(rng, ob.nspw(), cur[0])
            spw = int(vals[k][0])
        elif k == 'subarray':
            vals[k] = gen_window(rng, ob.nsub(), cur[1])
            sub = int(vals[k][0])
    for k in keys:
        v, w, f = vals[k] if k in vals else gen_xcriterion(rng, ob, k, spw, sub, mal)
        call.append((k, v, w, f))
    reset = rng.choice(base.RESETS + ['tfb', 'X', 'TT', 'auto'])
    if reset is not None:
        call.insert(rng.randint(0, len(call)), ('reset', reset, xcore([10, codes(reset)]), 'reset'))
    return call


def wire_call(call):
    return [[codes(k), w] for (k, v, w, f) in call]


def py_call(call):
    return {k: v for (k, v, w, f) in call}


def describe_call(call):
    return {k: (v if isinstance(v, (int, str, float, bool, list)) and not isinstance(v, np.generic) else repr(v))
            for (k, v, w, f) in call}


# ---------------------------------------------------------------------------------------------------------------
# observation of the implementation

def observe(ob, d):
    def ids(cps):
        return [ob.input_id(str(a)) + ob.input_id(str(b)) for a, b in cps]
    return dict(tk=[int(x) for x in d._time_keep], fk=[int(x) for x in d._freq_keep], bk=[int(x) for x in d._corrprod_keep],
                keys=list(d._selection.keys()), wk=d._weights_keep if ob.compare_wf else None,
                flk=d._flags_keep if ob.compare_wf else None, spw=int(d.spw), sub=int(d.subarray),
                shape=[int(x) for x in d.shape], dumps=[int(x) for x in d.dumps], channels=[int(x) for x in d.channels],
                freqs=[float(x) for x in d.freqs], cps=ids(d.corr_products), inputs=[ob.input_id(str(x)) for x in d.inputs],
                ants=[ANTS.index(a.name) for a in d.ants], scans=[int(x) for x in d.scan_indices],
                compscans=[int(x) for x in d.compscan_indices], targets=[int(x) for x in d.target_indices],
                nts=len(d.timestamps), chanwidth=float(d.channel_width))


PUB = ['shape', 'dumps', 'channels', 'freqs', 'cps', 'inputs', 'ants', 'scans', 'compscans', 'targets']


def pub_from_wire(ob, p):
    shape, dumps, channels, freqs, cps, inputs, ants, scans, cscans, tgts = p
    return dict(shape=shape, dumps=dumps, channels=channels, freqs=[ob.fbase + z * ob.spec['w'] for z in freqs], cps=cps,
                inputs=inputs, ants=ants, scans=scans, compscans=cscans, targets=tgts)


def model_state(ob, m):
    """[tk, fk, bk, keys, wk, flk, spw, sub, pub] -> dict comparable with observe()."""
    tk, fk, bk, keys, wk, flk, spw, sub, pub = m
    out = dict(tk=tk, fk=fk, bk=bk, keys=[''.join(chr(c) for c in k) for k in keys], wk=wk, flk=flk, spw=spw, sub=sub)
    out.update(pub_from_wire(ob, pub))
    return out


def wf_matches(ob, val, mid):
    if isinstance(val, str) and val == 'all' and mid == 0:
        return True
    return ob.weight_ids.get(repr(val), -5) == mid


def compare_state(ctx, ob, call, case, cur, mst, when):
    """Tie: every component of the state the implementation is left in vs the model.  Returns True if equal."""
    ok = True
    bad = [k for k in ('tk', 'fk', 'bk') if cur[k] != mst[k]]
    if bad:
        ctx.disagree(xsignature(call, '%s:masks_differ_from_model:%s' % (when, ''.join(b[0].upper() for b in bad))), case,
                     {k: cur[k] for k in bad}, {k: mst[k] for k in bad}, 'selection masks differ from the model', kind='tie')
        ok = False
    if cur['keys'] != mst['keys']:
        ctx.disagree(xsignature(call, when + ':selection_keys'), case, cur['keys'], mst['keys'],
                     '_selection keys (order) differ from the model', kind='tie')
        ok = False
    if (cur['spw'], cur['sub']) != (mst['spw'], mst['sub']):
        ctx.disagree(xsignature(call, when + ':spw_subarray'), case, [cur['spw'], cur['sub']], [mst['spw'], mst['sub']],
                     'current spw / subarray differ from the model', kind='tie')
        ok = False
    for nm, key in ((('weights', 'wk'), ('flags', 'flk')) if ob.compare_wf else ()):
        if not wf_matches(ob, cur[key], mst[key]):
            ctx.disagree(xsignature(call, '%s:%s_keep' % (when, nm)), case, repr(cur[key]), mst[key],
                         '_%s_keep differs from the model' % nm, kind='tie')
            ok = False
    badp = [k for k in PUB if cur[k] != mst[k]]
    if badp:
        ctx.disagree(xsignature(call, '%s:public_attributes_differ_from_model:%s' % (when, ','.join(badp))), case,
                     {k: cur[k] for k in badp}, {k: mst[k] for k in badp},
                     'public attributes differ from the model of the end of select()', kind='tie')
        ok = False
    return ok


def xsignature(call, symptom):
    dims = ''.join(sorted({('T' if k in TIME else 'F' if k in FREQ else 'B') for (k, v, w, f) in call
                           if k in TIME + FREQ + CORR}))
    cls = {'weights': 'wf', 'flags': 'wf', 'strict': 'strict', 'spw': 'spw', 'subarray': 'subarray'}
    other = sorted({cls.get(k, 'unknown') for (k, v, w, f) in call if k not in TIME + FREQ + CORR and k != 'reset'})
    reset = [v for (k, v, w, f) in call if k == 'reset']
    rcls = 'absent' if not reset else ('auto' if reset[0] == 'auto' else 'stack' if reset[0] == '' else 'explicit')
    return 'x;dims=%s;other=%s;reset=%s;symptom=%s' % (dims or '-', ','.join(other) or '-', rcls, symptom)


def classify(exc):
    if exc is None:
        return 0
    if isinstance(exc, TypeError) and 'unexpected keyword' in str(exc):
        return 1
    if isinstance(exc, IndexError) and 'should be in range' in str(exc):
        return 3
    return 2


def run_xhistory(ctx, ob, history, mout, hid, note=True):
    """history: list of calls (already generated); mout = [initial model state, [[model, spec], ...]]."""
    hkey = repr(sorted((k, repr(v)) for k, v in hid.items()))
    d = ob.fresh()
    minit, mouts = mout
    case0 = dict(obs=ob.spec, history=[], hid=hid, step=-1)
    prev = observe(ob, d)
    if not compare_state(ctx, ob, [], case0, prev, model_state(ob, minit), 'constructor'):
        return
    # every call is all-or-nothing (decorated select): the spec is compared after EVERY call of the history
    clean = True
    for n, call in enumerate(history):
        mo, so = mouts[n]
        case = dict(obs=ob.spec, history=[describe_call(c) for c in history[:n + 1]], hid=hid, step=n)
        exc = None
        try:
            with warnings.catch_warnings():
                warnings.simplefilter('ignore')
                d.select(**py_call(call))
        except Exception as e:      # noqa: BLE001 - classified below
            exc = e
        ctx.traces_validated += 1
        for (k, v, w, f) in call:
            ctx.count('x:key=' + k)
            ctx.count('x:form=%s:%s' % (k, f))
        ctx.count('x:calls')
        if not call:
            ctx.count('x:key=(none)')
        icode = classify(exc)
        ctx.count('x:outcome=%s' % ['ok', 'strict_typeerror', 'raised_partway_or_other', 'range_indexerror'][icode])
        if icode != mo[0]:
            ctx.disagree(xsignature(call, 'status impl=%d model=%d' % (icode, mo[0])), case, repr(exc) if exc else 'ok', mo[0],
                         'implementation and model disagree on whether / how the call is rejected', spec=so[0], kind='tie')
            return
        if clean and icode != so[0]:
            ctx.disagree(xsignature(call, 'status impl=%d spec=%d' % (icode, so[0])), case, repr(exc) if exc else 'ok', mo[0],
                         'implementation and spec disagree on whether / how the call is rejected', spec=so[0])
            return
        cur = observe(ob, d)
        if icode == 2:
            # raised part-way: the call must leave the data set exactly as it was (theorem C02_failed_call_atomic; this is
            # checked against the observation BEFORE the call, so it does not depend on the model)
            changed = cur != prev
            stale = cur['nts'] != cur['shape'][0] or cur['shape'] != [sum(cur['tk']), sum(cur['fk']), sum(cur['bk'])]
            ctx.count('x:failed_call_%s' % ('changed_state' if changed else 'left_state'))
            if changed:
                ctx.disagree(KNOWN_NOT_ATOMIC, case, dict(shape=cur['shape'], timestamps=cur['nts'], keys=cur['keys'],
                                                          masks=[cur['tk'], cur['fk'], cur['bk']]),
                             dict(shape=prev['shape'], timestamps=prev['nts'], keys=prev['keys'],
                                  masks=[prev['tk'], prev['fk'], prev['bk']]),
                             'a select() call that raised left the data set changed%s'
                             % (' and inconsistent (shape vs timestamps / masks)' if stale else ''))
                return
        mst = model_state(ob, mo[1:])
        if not compare_state(ctx, ob, call, case, cur, mst, 'after_' + ['ok', 'typeerror', 'raise', 'indexerror'][icode]):
            return
        if icode in (1, 3):
            # documented rejections: nothing may change
            if cur != prev:
                ctx.disagree(xsignature(call, 'state_changed_by_rejected_call'), case, cur, prev,
                             'a call rejected with the documented TypeError / IndexError changed the data set')
            if note:
                ctx.note_case((hkey, n), nontrivial=True)
            continue
        if icode == 2:
            if note:
                ctx.note_case((hkey, n), nontrivial=True)
            # the history goes on: the next calls are compared with the documented rule as if nothing had happened
            # (C02_atomic_failed_call_invisible); a retained offender would show there (VALUES of retained keywords
            # are not observable directly)
            continue
        # accepted: property = public attributes vs the spec's masks
        sp = dict(tk=so[1], fk=so[2], bk=so[3], spw=so[4], sub=so[5])
        sp.update(pub_from_wire(ob, so[6]))
        bad = [k for k in PUB + ['spw', 'sub'] if cur[k] != sp[k]]
        if cur['nts'] != sum(sp['tk']):
            bad.append('nts')
        if bad:
            dimbad = ''.join(x for x, ks in (('T', ('dumps', 'nts', 'scans', 'compscans', 'targets')), ('F', ('channels', 'freqs')),
                                            ('B', ('cps', 'ants', 'inputs')), ('W', ('spw', 'sub'))) if any(k in bad for k in ks)) or 'shape'
            ctx.disagree(xsignature(call, 'selection_differs_from_spec:' + dimbad), case, {k: cur.get(k) for k in bad},
                         {k: sp.get(k, sum(sp['tk'])) for k in bad},
                         'selection after the call differs from the documented combination rule', spec=so[1:6])
            return
        full = all(so[1]) and all(so[2]) and all(so[3])
        empty = not (any(so[1]) and any(so[2]) and any(so[3]))
        if note:
            ctx.note_case((hkey, n), nontrivial=bool(call) and not full and not empty,
                          sample=dict(history=[describe_call(c) for c in history[:n + 1]], shape=list(cur['shape'])))
        prev = cur


# ---------------------------------------------------------------------------------------------------------------
# histories

def track(cur, call, ob):
    """Window / subarray the implementation will be on after the call IF it gets past the range checks (used only
    to size the criteria of later calls; the comparison never depends on it)."""
    kw = py_call(call)
    strict = kw.get('strict', True)
    if strict and any(k not in TIME + FREQ + CORR + ['spw', 'subarray', 'weights', 'flags', 'reset', 'strict'] for k in kw):
        return cur
    spw, sub = int(kw.get('spw', cur[0])), int(kw.get('subarray', cur[1]))
    if 0 <= spw < ob.nspw() and 0 <= sub < ob.nsub():
        return [spw, sub]
    return cur


def xrandom_histories(oseed, per_obs, small=False):
    """Observation and its histories as a deterministic function of oseed."""
    import random
    orng = random.Random(oseed)
    ob = XObservation(gen_xobs(orng, small=small))
    histories = []
    for _ in range(per_obs):
        cur = [0, 0]
        h = []
        # one history in four is a malformed stream: every criterion has a 30% chance of being one that raises
        mal = 0.3 if orng.random() < 0.25 else 0.0
        # one history in five on a multi-window / multi-subarray observation starts with a SWITCHING pair: a criterion on
        # the dimension a switch does not clear by itself (products for spw=, channels for subarray=), then a call that
        # switches AND names another criterion of that same dimension, default reset (replace, not stack)
        if (ob.nspw() > 1 or ob.nsub() > 1) and orng.random() < 0.2:
            for c in gen_switch_pair(orng, ob, cur):
                h.append(c)
                cur = track(cur, c, ob)
        for _ in range(orng.randint(1, 9)):
            c = gen_xcall(orng, ob, cur, mal)
            h.append(c)
            cur = track(cur, c, ob)
        histories.append(h)
    return ob, histories


def gen_switch_pair(rng, ob, cur):
    which = rng.choice([k for k, n in (('spw', ob.nspw()), ('subarray', ob.nsub())) if n > 1])
    third = CORR if which == 'spw' else FREQ
    spw, sub = cur
    k1 = rng.choice(third)
    first = [(k1,) + tuple(gen_xcriterion(rng, ob, k1, spw, sub))]
    if rng.random() < 0.3:
        k0 = rng.choice(TIME)
        first.append((k0,) + tuple(gen_xcriterion(rng, ob, k0, spw, sub)))
    n = ob.nspw() if which == 'spw' else ob.nsub()
    z = rng.choice([x for x in range(n) if x != cur[0 if which == 'spw' else 1]])
    if which == 'spw':
        spw = z
    else:
        sub = z
    second = [(which, z, xcore([11, z]), 'int-switch')]
    for k in rng.sample(third, rng.choice([1, 1, 2])):
        second.append((k,) + tuple(gen_xcriterion(rng, ob, k, spw, sub)))
    if rng.random() < 0.25:
        k0 = rng.choice(TIME)
        second.append((k0,) + tuple(gen_xcriterion(rng, ob, k0, spw, sub)))
    rng.shuffle(second)
    if rng.random() < 0.15:
        second.append(('reset', 'auto', xcore([10, codes('auto')]), 'reset'))
    return [first, second]


def model_xhistories(ctx, ob, histories):
    w = ob.wire()
    cases = [[XWIRE, [w, [wire_call(c) for c in h]]] for h in histories]
    return ctx.model(cases), cases


def run_random(ctx, nobs, per_obs, collect=None):
    rng = ctx.rng
    for i in range(nobs):
        oseed = rng.randrange(1 << 30)
        ob, histories = xrandom_histories(oseed, per_obs)
        mouts, cases = model_xhistories(ctx, ob, histories)
        if collect is not None and len(collect) < 40:
            collect += list(zip(cases[:2], mouts[:2]))
        for j, (h, mo) in enumerate(zip(histories, mouts)):
            run_xhistory(ctx, ob, h, mo, dict(kind='xrandom', oseed=oseed, per_obs=per_obs, j=j))
        ctx.count('x:observations')
        ctx.count('x:observations:nspw=%d,nsub=%d' % (ob.nspw(), ob.nsub()))


# ---------------------------------------------------------------------------------------------------------------
# _selection_to_list / _is_deselection on their own (wire_22)

def gen_names_arg(rng):
    alphabet = ['m000', 'm001', '~m000', '~m062', 'track', '', ' ', '~', ',', 'a b', ' x', 'x ', '\tq', 'HH', 'h', '~~z']
    c = rng.random()
    if c < 0.45:
        parts = [rng.choice(alphabet) for _ in range(rng.randint(0, 4))]
        text = rng.choice([',', ', ', ' ,', ';', ',,'][:4]).join(parts)
        return text, [21, [0, codes(text)]]
    if c < 0.85:
        items = [rng.choice(alphabet + [3, -1]) for _ in range(rng.randint(0, 4))]
        seq = list(items) if rng.random() < 0.6 else tuple(items)
        return seq, [22, [[0, codes(x)] if isinstance(x, str) else [1, x] for x in items]]
    z = rng.choice([0, 5, -2])
    return z, [21, [1, z]]


def run_helpers(ctx, n):
    """The two helpers of katdal.dataset called directly with generated arguments."""
    from katdal.dataset import _is_deselection, _selection_to_list
    rng = ctx.rng
    args = [gen_names_arg(rng) for _ in range(n)]
    outs = ctx.model([[22, w] for (_, w) in args])
    for (v, w), mo in zip(args, outs):
        ctx.count('x:helper_calls')
        case = dict(helper='_selection_to_list', value=v if isinstance(v, (str, int, list)) else repr(v),
                    hid=dict(kind='helper', wire=w, value=repr(v)))
        items = _selection_to_list(v)
        want = [[0, codes(x)] if isinstance(x, str) else [1, int(x)] for x in items]
        if mo[0] != 0 or mo[1] != want:
            ctx.disagree('x;helper=_selection_to_list;symptom=items_differ', case, items, mo, '_selection_to_list differs from the model',
                         kind='tie')
            continue
        try:
            des = int(_is_deselection(items))
        except (IndexError, TypeError):
            des = 2
        if des != mo[2]:
            ctx.disagree('x;helper=_is_deselection;symptom=differs', case, des, mo[2], '_is_deselection differs from the model',
                         kind='tie')
        ctx.traces_validated += 1


# ---------------------------------------------------------------------------------------------------------------
# witnesses of the findings of this extension

def _lit(v):
    """Python value of a witness literal: {'tuple': [...]} | {'npint': z} | plain JSON."""
    if isinstance(v, dict) and 'tuple' in v:
        return tuple(v['tuple'])
    if isinstance(v, dict) and 'npint' in v:
        return np.int64(v['npint'])
    return v


def run_xwitness(ctx, w):
    """{'x': 1, 'obs_seed': int, 'calls': [{key: literal}, ...]} with keys dumps / channels (int lists or tuples),
    spw / subarray (ints), scans (strings)."""
    import random
    ob = XObservation(gen_xobs(random.Random(w['obs_seed']), small=True))
    history = []
    for c in w['calls']:
        call = []
        for k, lit in c.items():
            v = _lit(lit)
            if k in ('dumps', 'channels'):
                call.append((k, v, xcore([0, [3, [int(x) for x in v]]]), 'witness'))
            elif k in ('spw', 'subarray'):
                call.append((k, v, xcore([11, int(v)]), 'witness'))
            elif k in NAMES_KEYS and isinstance(v, str):
                call.append((k, v, [21, [0, codes(v)]], 'witness'))
            elif k in NAMES_KEYS:
                call.append((k, v, [22, [sarg(x, ob) for x in v]], 'witness'))
            else:
                raise ValueError('witness keyword %s not supported' % k)
        history.append(call)
    mouts, _ = model_xhistories(ctx, ob, [history])
    run_xhistory(ctx, ob, history, mouts[0], dict(kind='witness', witness=w))


def replay(ctx, hid):
    if hid.get('kind') == 'xrandom':
        ob, histories = xrandom_histories(hid['oseed'], hid['per_obs'])
        h = histories[hid['j']]
        mouts, _ = model_xhistories(ctx, ob, [h])
        run_xhistory(ctx, ob, h, mouts[0], hid)
        return True
    if hid.get('kind') == 'xreal':
        import random
        import shutil
        x = base.build_real(hid['k'])
        try:
            ob = XDataSetObservation(x.d)
            orng = random.Random(8800 + hid['k'])
            for j in range(hid['j'] + 1):
                cur, h = [0, 0], []
                mal = 0.3 if orng.random() < 0.25 else 0.0
                for _ in range(orng.randint(1, 8)):
                    c = gen_xcall(orng, ob, cur, mal)
                    h.append(c)
                    cur = track(cur, c, ob)
            mouts, _ = model_xhistories(ctx, ob, [h])
            run_xhistory(ctx, ob, h, mouts[0], hid)
        finally:
            shutil.rmtree(x.tmp, ignore_errors=True)
        return True
    if hid.get('kind') == 'helper':
        return True
    return False
