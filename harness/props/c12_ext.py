"""C12, session 5: the paths from the public API down to the modelled core.

(h) `api`      SensorCache.get / cache[name] / _set_keep with `keep` in every documented form (bool mask, slice, int,
               index list, the constructor default), virtual-sensor TEMPLATES (regex subset of the registered ones)
               tried in dict order with recorder functions, and the katstore fallback against an in-process fake of
               `requests` - compared with Model/SensorApi.v (wire_124): every result, which template function was
               called with which keyword arguments, every query sent to the store (name, start, end), the names held
               by the cache afterwards and the raw samples of every getter.
(i) `registry` the REAL registries (dict order) of dataset.py / h5datav1-3.py / visdatav4.py with recorder functions:
               which template answers a name, with which bindings, registered function name (wire_123).
(j) `fill`     ConcatenatedSensorCache.get of a sensor absent from some parts, with arrays of float / int / bool dtype
               assigned directly, float / int / bool / str getters, initial_value of every type and forced
               categorical True / False, selected and unselected - compared with Model/SensorFill.v (wire_125/126):
               the concatenated result and what each part holds afterwards (kind, dtype, every value).
"""
import json
import types
from fractions import Fraction

import numpy as np

from props import c12 as base

codes, wq, unq, tval, L24 = base.codes, base.wq, base.unq, base.tval, base.L24


# ---------------------------------------------------------------------------------------------- encoding
def w_keep(k):
    if k is None:
        return [9]                                   # constructor default
    if k[0] == 'mask':
        return [0, [bool(b) for b in k[1]]]
    if k[0] == 'slice':
        return [1] + [[] if v is None else [int(v)] for v in k[1:4]]
    if k[0] == 'int':
        return [2, int(k[1])]
    if k[0] == 'idx':
        return [3, [int(i) for i in k[1]]]
    raise ValueError(k)


def py_keep(k):
    if k[0] == 'mask':
        return np.array(k[1], dtype=bool)
    if k[0] == 'slice':
        return slice(k[1], k[2], k[3])
    if k[0] == 'int':
        return int(k[1])
    if k[0] == 'idx':
        return [int(i) for i in k[1]]
    raise ValueError(k)


def w_xop(o):
    if o[0] == 'get':
        return [0, codes(o[1]), bool(o[2]), bool(o[3]), base.w_props(o[4])]
    if o[0] == 'item':
        return [6, codes(o[1])]
    if o[0] == 'setkeep':
        return [3, [] if o[1] is None else [w_keep(o[1])]]
    raise ValueError(o)


# ---------------------------------------------------------------------------------------------- fake katstore
class FakeStore:
    """Stands in for the `requests` module inside katdal.sensordata.  The store answers with the records of every
    sensor whose name STARTS WITH the requested name and whose sample time lies in the closed query window."""

    def __init__(self, records, fail=None):
        import requests
        self.exceptions = requests.exceptions
        self.records = records
        self.log = []
        self.fail = fail

    def Session(self):
        return _Session(self)


class _Resp:
    def __init__(self, store, data, code=200):
        self.store, self.data, self.status_code, self.reason = store, data, code, 'OK' if code == 200 else 'ERR'

    def __enter__(self):
        return self

    def __exit__(self, *a):
        return False

    def raise_for_status(self):
        if self.status_code >= 400:
            raise self.store.exceptions.HTTPError('status %d' % self.status_code)

    def json(self):
        return {'data': self.data}


class _Session:
    def __init__(self, store):
        self.store = store

    def __enter__(self):
        return self

    def __exit__(self, *a):
        return False

    def get(self, url, params=None):
        st = self.store
        st.log.append((url, params['sensor'], float(params['start_time']), float(params['end_time'])))
        if st.fail == 'connection':
            raise st.exceptions.ConnectionError('refused')
        if st.fail == 'http':
            return _Resp(st, [], 500)
        name, s, e = params['sensor'], float(params['start_time']), float(params['end_time'])
        return _Resp(st, [dict(sensor=r[0], value_time=r[1], value=r[2], status=r[3]) for r in st.records
                          if r[0].startswith(name) and s <= r[1] <= e])


# ---------------------------------------------------------------------------------------------- (h) api histories
def observe_x(fn, getters):
    try:
        r = fn()
    except KeyError:
        return ('err', 'key')
    except IndexError as e:
        return ('err', 'index', repr(e))
    except ValueError as e:
        return ('err', 'value', repr(e))
    except Exception as e:
        return ('err', 'other', repr(e))
    if isinstance(r, (np.floating, float)):
        return ('scalar', None if np.isnan(r) else Fraction(float(r)))
    return base.observe(lambda: r, getters)


def compare_x(obs, m, op):
    """m = [[0, res] | [1, kres], created]"""
    tag, body = m[0][0], m[0][1]
    if tag == 0:
        return base.compare_res(obs if obs[0] != 'err' or obs[1] != 'index' else ('err', 'other', obs[2]), body, op)
    k = body[0]
    if k == 0:
        want = [unq(x) for x in body[1]]
        if obs[0] == 'vals':
            return ('same', '') if obs[1] == want else ('diff', 'selected_values_differ')
        if obs[0] == 'arr' and not want and not obs[2]:
            return 'same', ''
        return 'diff', 'selected_' + (obs[0] if obs[0] != 'err' else 'raises_' + obs[1])
    if k == 1:
        if obs[0] == 'scalar':
            return ('same', '') if obs[1] == unq(body[1]) else ('diff', 'selected_scalar_differs')
        return 'diff', 'expected_scalar_got_' + (obs[0] if obs[0] != 'err' else 'err_' + obs[1])
    if k == 2:
        return ('same', '') if obs[0] == 'err' and obs[1] == 'index' else ('diff', 'expected_IndexError_got_' + obs[0])
    if k == 3:
        return ('same', '') if obs[0] == 'err' and obs[1] == 'value' else ('diff', 'expected_ValueError_got_' + obs[0])
    return 'skip', 'unknown'


def keep_form(k):
    return 'default' if k is None else k[0]


def run_api(ctx, case):
    """case: dict(kind='api', cache, keep, templates, dp, store, server, fail, ops)"""
    import katdal.sensordata as sd
    from katdal.sensordata import SensorCache
    c = case['cache']
    e = c['epoch']
    server = [(n, tval(e, k), Fraction(v), st) for (n, k, v, st) in case['server']]
    wire = [124, [1, base.w_cache(dict(c, virt=[], keep=[])), w_keep(case['keep']),
                  [codes(t) for t in case['templates']], wq(Fraction(case['dp'], 4)),
                  [] if case['store'] is None else [codes(case['store'])],
                  [[codes(n), wq(t), wq(v), codes(st)] for (n, t, v, st) in server],
                  [w_xop(o) for o in case['ops']]]]
    mo = ctx.model([wire])[0]
    if mo[0] != 1:
        ctx.count('api_skipped:template_outside_subset')
        return False
    mres, mqueries, mraw, mstore = mo[1], mo[2], mo[3], mo[4]
    impl = base.Impl()
    calls = []
    fake = FakeStore([(n, float(t), float(v), st) for (n, t, v, st) in server], fail=case.get('fail'))
    real_requests = sd.requests
    nontrivial = False
    cur_keep = [case['keep']]
    sig = lambda o, src, sym: 'kind=api;op=%s;keep=%s;src=%s;symptom=%s' % (o[0] if o else 'final', keep_form(cur_keep[0]),
                                                                             src, sym)
    try:
        sd.requests = fake
        names_of = {}
        for (n, gid) in c['raw']:
            names_of.setdefault(gid, n)
        getters = [impl.getter(g, e, names_of.get(i, 'g%d' % i)) for i, g in enumerate(c['getters'])]
        raw = {n: getters[gid] for (n, gid) in c['raw']}
        ts = np.array([float(tval(e, k)) for k in c['ts']])

        def recorder(tid):
            def create(cache, name, **kw):
                calls.append((tid, dict(kw)))
                cache[name] = arr = (tid + 1) * np.asarray(cache.timestamps[:], dtype=float)
                return arr
            return create
        virtual = {t: recorder(i) for i, t in enumerate(case['templates'])}
        kwargs = dict(props={k: base.py_kwargs(p) for (k, p) in c['props']}, virtual=virtual, store=case['store'])
        if case['keep'] is not None:
            kwargs['keep'] = py_keep(case['keep'])
        sc = SensorCache(raw, ts, case['dp'] / 4.0, **kwargs)
        nq = 0
        for i, o in enumerate(case['ops']):
            ncalls = len(calls)
            if o[0] == 'get':
                obs = observe_x(lambda: sc.get(o[1], select=bool(o[2]), extract=bool(o[3]), **base.py_kwargs(o[4])), getters)
            elif o[0] == 'item':
                obs = observe_x(lambda: sc[o[1]], getters)
            else:
                obs = observe_x(lambda: sc._set_keep(None if o[1] is None else py_keep(o[1])), getters)
                if o[1] is not None:
                    cur_keep[0] = o[1]
            if fake.fail and len(fake.log) > nq:
                # documented: ConnectionError if the store cannot be reached, RuntimeError if the API interaction failed
                want = 'ConnectionError' if fake.fail == 'connection' else 'RuntimeError'
                if not (obs[0] == 'err' and obs[1] == 'other' and obs[2].startswith(want)):
                    ctx.disagree(sig(o, 'store', 'store_failure_not_reported'), dict(case, failing_op=i), base._j(obs), want,
                                 'a failing sensor store must raise %s' % want)
                ctx.count('api_store_failure')
                return nontrivial
            m = mres[i]
            created = m[1]
            src = 'template' if created else ('store' if len(fake.log) > nq else
                                              ('raw' if o[0] != 'setkeep' and o[1] in dict(c['raw']) else 'other'))
            nq = len(fake.log)
            # which template function was called, with which keyword arguments
            got_calls = calls[ncalls:]
            want_calls = [(created[0], {''.join(map(chr, v)): ''.join(map(chr, w)) for (v, w) in created[1]})] if created else []
            if got_calls != want_calls:
                ctx.disagree(sig(o, 'template', 'template_call'), dict(case, failing_op=i), base._j(got_calls), base._j(want_calls),
                             'op %d %r: virtual sensor function calls (template index, keyword arguments) differ' % (i, o[:2]))
                return nontrivial
            if m[0][0] == 0 and m[0][1][0] == 2 and m[0][1][1] >= len(getters):
                # a fresh getter from the store: compare the samples it serves
                if obs[0] != 'getterobj':
                    ctx.disagree(sig(o, 'store', 'expected_fresh_getter'), dict(case, failing_op=i), base._j(obs), m,
                                 'extract=False on the store fallback must return the getter')
                    return nontrivial
                t, v, s = base.snapshot(obs[1])
                want = base.model_store_samples([mstore[m[0][1][1]]])[0]
                if (t, v, s) != (want[0], want[1], want[2]):
                    ctx.disagree(sig(o, 'store', 'store_samples'), dict(case, failing_op=i),
                                 [[str(x) for x in t], [str(x) for x in v], s],
                                 [[str(x) for x in want[0]], [str(x) for x in want[1]], want[2]],
                                 'samples taken from the store differ (name filter / query window)')
                    return nontrivial
                ctx.count('api_src=store_raw')
                continue
            verdict, sym = compare_x(obs, m, o)
            if verdict == 'skip':
                ctx.count('api_skipped:' + sym)
                return nontrivial
            if verdict == 'diff':
                ctx.disagree(sig(o, src, sym), dict(case, failing_op=i), base._j(obs), m,
                             'result of op %d %r differs from the model (keep %s)' % (i, o[:2], keep_form(cur_keep[0])))
                return nontrivial
            if m[0][0] == 1 or (m[0][0] == 0 and m[0][1][0] == 0 and m[0][1][1]):
                nontrivial = True
            ctx.count('api_op=%s' % o[0])
            ctx.count('api_src=%s' % src)
            if o[0] != 'setkeep' and ((o[0] == 'item') or o[2]):
                ctx.count('api_keep=%s' % keep_form(cur_keep[0]))
        # every query sent to the store
        got_q = [(n, Fraction(s), Fraction(en)) for (_, n, s, en) in fake.log]
        want_q = [(''.join(map(chr, q[0])), unq(q[1]), unq(q[2])) for q in mqueries]
        if got_q != want_q:
            ctx.disagree(sig(None, 'store', 'queries'), case, [[n, str(s), str(en)] for (n, s, en) in got_q],
                         [[n, str(s), str(en)] for (n, s, en) in want_q],
                         'queries sent to the sensor store differ (decision / window / repeated query)')
            return nontrivial
        # the documented window, stated here independently of the source-derived constants: ten minutes (600 s) plus a
        # dump period before the first dump, a minute (60 s) plus a dump period after the last one
        doc_q = [(n, tval(e, c['ts'][0]) - Fraction(case['dp'], 4) - 600, tval(e, c['ts'][-1]) + Fraction(case['dp'], 4) + 60)
                 for (n, _, _) in got_q]
        if got_q != doc_q:
            ctx.disagree(sig(None, 'store', 'query_window_vs_documented'), case, [[n, str(s), str(en)] for (n, s, en) in got_q],
                         [[n, str(s), str(en)] for (n, s, en) in doc_q],
                         'query window differs from [first dump - dump period - 600 s, last dump + dump period + 60 s]')
            return nontrivial
        bad_url = [u for (u, _, _, _) in fake.log if u != 'http://%s/katstore/api/query' % case['store']]
        if bad_url:
            ctx.disagree(sig(None, 'store', 'url'), case, bad_url, None, 'unexpected store URL')
            return nontrivial
        # names held by the cache afterwards
        got_names = sorted(sc.keys())
        want_names = sorted(''.join(map(chr, kv[0])) for kv in mraw)
        if got_names != want_names:
            ctx.disagree(sig(None, 'other', 'cache_names'), case, got_names, want_names,
                         'names held by the cache after the history differ')
            return nontrivial
        base.check_store(ctx, 'api', c, getters, c['getters'], mstore[:len(getters)], case)
        ctx.traces_validated += 1
        if fake.log:
            ctx.count('api_with_store_query')
    finally:
        sd.requests = real_requests
        impl.close()
    return nontrivial


T_POOL = ['Timestamps/mjd', 'Antennas/{ant}/az', 'Antennas/{ant}/el', 'Antennas/{ant}/[uvw]', 'Antennas/{ant}/basis_[uvw]',
          'Antennas/{ant}/target_[xy]_{projection}_{coordsys}', 'Antennas/{ant}/ra', '{a}/{b}', '{a}_{b}', 'x{v}', '{v}',
          'wind_{w}', 'a/{v}', '{g}/x', 'Antennas/{ant}/a', 'w[ix]nd']
V_POOL = ['m000', 'm0_1', 'a', 'array', 'x_y', 'ARC', 'azel', 'b', 'wind', 'x']
STORE_NAMES = ['wind_speed', 'wind_speed_x', 'wind', 'x', '_t', 'class', 'a/x', '9a', 'a.b', 'Antennas_m000_az', 'xa']


def instance(rng, t):
    """a name generated by the template t (variables from V_POOL, one character of each class)"""
    import re
    out, i = '', 0
    while i < len(t):
        if t[i] == '{':
            j = t.index('}', i)
            out += rng.choice(V_POOL)
            i = j + 1
        elif t[i] == '[':
            j = t.index(']', i)
            out += rng.choice(t[i + 1:j])
            i = j + 1
        else:
            out += t[i]
            i += 1
    return out


def mutate_name(rng, n):
    r = rng.random()
    if r < 0.35 or not n:
        return n
    if r < 0.5:
        return n + rng.choice(['imuth', '_x', '/y', 'x', '2'])           # extends a match
    if r < 0.58:
        return rng.choice(['x', '_', 'A']) + n                            # something in front
    if r < 0.68:
        i = rng.randrange(len(n))
        return n[:i] + '/' + n[i:]                                        # a slash inside
    if r < 0.76:
        i = rng.randrange(len(n))
        return n[:i] + n[i + 1:]                                          # a character dropped
    if r < 0.84:
        i = rng.randrange(len(n))
        return n[:i] + (n[i].upper() if n[i].islower() else n[i].lower()) + n[i + 1:]
    if r < 0.92:
        i = rng.randrange(len(n))
        return n[:i] + rng.choice('uvwxyz_/0') + n[i + 1:]
    return n[:rng.randrange(len(n))]                                      # truncated


def gen_keep(rng, T):
    r = rng.random()
    if r < 0.3:
        return ['mask', [rng.random() < 0.6 for _ in range(T if rng.random() < 0.9 else max(0, T + rng.choice([-1, 1])))]]
    if r < 0.6:
        pick = lambda: None if rng.random() < 0.35 else rng.randint(-T - 2, T + 2)
        return ['slice', pick(), pick(), rng.choice([None, None, 1, 2, 3, -1, -2, -3, 0 if rng.random() < 0.3 else 1])]
    if r < 0.75:
        return ['int', rng.randint(-T - 1, T)]
    return ['idx', [rng.randint(-T - (1 if rng.random() < 0.15 else 0), T - (0 if rng.random() < 0.15 else 1))
                    for _ in range(rng.randint(0, 5))]]


def gen_server(rng, k0, kn, lo, hi):
    """Records of the fake store.  float64 np.interp stays exact: per sensor the records near the dumps lie within
    24 grid steps of each other, and every readable record far away (near the ends of the query window - just inside,
    on and just outside them) carries the value V0 that the first and the last surviving near record carry too
    (slope 0 across the long gaps)."""
    out, v0s = [], {}
    for n in rng.sample(['wind_speed', 'wind_speed_x', 'x', '_t', 'wind', 'class'], rng.randint(1, 4)):
        v0s[n] = rng.randint(-40, 40) * L24
        near = []
        for _ in range(rng.randint(0, 5)):
            k = rng.choice(near)[1] if near and rng.random() < 0.3 else rng.randint(k0 - 4, k0 + 20)
            near.append([n, k, rng.randint(-40, 40) * L24, rng.choice(base.STATUSES[:3] * 3 + base.STATUSES), True])
        far = []
        for _ in range(rng.randint(0, 4)):
            k = rng.choice([lo - 1, lo, lo + 1, hi - 1, hi, hi + 1, rng.randint(lo - 40, lo + 40), rng.randint(hi - 40, hi + 40)])
            if k0 - 8 <= k <= k0 + 24:
                continue
            far.append([n, k, v0s[n], rng.choice(base.STATUSES[:3] * 3 + base.STATUSES), False])
        out += near + far
    rng.shuffle(out)
    if rng.random() < 0.4:
        out.sort(key=lambda r: r[1])
    # in the FINAL order: the first and the last surviving near record of every sensor carry V0
    for n, v0 in v0s.items():
        last = {}
        for i, r in enumerate(out):
            if r[0] == n and r[4]:
                last[r[1]] = i
        alive = sorted(k for k, i in last.items() if out[i][3][:7] in base.DOC_VALID)
        for k in alive[:1] + alive[-1:]:
            out[last[k]][2] = v0
    return [tuple(r[:4]) for r in out]


def gen_api(rng):
    c = base.gen_cache(rng, kinds=('simple', 'rec'), names=['a/x', 'wind_speed', 'Antennas/m000/az', 'xa', 'a/y'],
                       allow_virtual=False)
    for g in c['getters']:
        if g['dtype'] not in ('float', 'int'):
            g['dtype'] = 'float'
    T = len(c['ts'])
    templates = rng.sample(T_POOL, rng.randint(0, 4))
    store = rng.choice([None, None, '', 'cam:8080', 'cam:8080', 'cam:8080'])
    dp = rng.choice([1, 2, 4, 8, 16])
    k0, kn = c['ts'][0], c['ts'][-1]
    lo, hi = k0 - dp - 2400, kn + dp + 240
    server = gen_server(rng, k0, kn, lo, hi) if store else []
    names = [n for (n, _) in c['raw']] + [instance(rng, t) for t in templates] * 2 + rng.sample(STORE_NAMES, 3) + ['zz/none']
    ops = []
    for _ in range(rng.randint(1, 8)):
        r = rng.random()
        nm = mutate_name(rng, rng.choice(names)) if rng.random() < 0.6 else rng.choice(names)
        if r < 0.45:
            select = rng.random() < 0.5
            extract = True if select and rng.random() < 0.9 else rng.random() < 0.8
            ops.append(('get', nm, select, extract, base.gen_props(rng, 0.3, numeric_only=True)))
        elif r < 0.8:
            ops.append(('item', nm))
        else:
            ops.append(('setkeep', None if rng.random() < 0.15 else gen_keep(rng, T)))
    keep = None if rng.random() < 0.2 else gen_keep(rng, T)
    fail = None if rng.random() < 0.95 or not store else rng.choice(['connection', 'http'])
    return dict(kind='api', cache=c, keep=keep, templates=templates, dp=dp, store=store, server=server, fail=fail, ops=ops)


def scripted_api():
    g = dict(kind='simple', dtype='float', status=True, swidth=12, ustatus=False,
             samples=[(0, 0, 'nominal'), (8, 8 * L24, 'nominal'), (16, 4 * L24, 'warn')])
    c = dict(epoch=1500000000, getters=[g], raw=[('a/x', 0), ('Antennas/m000/az', 0)], ts=[0, 2, 4, 6, 8, 12, 16], keep=[],
             props=[], virt=[], gname=None)
    T = 7
    keeps = [None, ['slice', 1, None, 2], ['slice', None, None, -1], ['slice', -3, 100, None], ['slice', None, None, 0],
             ['int', -1], ['int', 7], ['idx', [0, 2, -1, 0]], ['idx', [7]], ['idx', []], ['mask', [True] * 6],
             ['mask', [True, False] * 3 + [True]]]
    out = []
    for k in keeps:
        out.append(dict(kind='api', cache=c, keep=k, templates=['Antennas/{ant}/az', 'Antennas/{ant}/[uvw]'], dp=4, store=None,
                        server=[], fail=None,
                        ops=[('item', 'a/x'), ('get', 'a/x', True, True, {}), ('get', 'a/x', False, True, {}),
                             ('item', 'Antennas/m000/az'), ('item', 'Antennas/m001/az'), ('item', 'Antennas/m001/azimuth'),
                             ('item', 'Antennas/m0/01/az'), ('item', 'Antennas/m001/w'), ('get', 'Antennas/m001/az', True, False, {}),
                             ('setkeep', ['mask', [False, True, True, False, False, False, True]]), ('item', 'Antennas/m001/az'),
                             ('setkeep', None), ('item', 'a/x')]))
    k0, kn, dp = 0, 16, 4
    lo, hi = k0 - dp - 2400, kn + dp + 240
    srv = [('wind_speed', lo - 1, 5 * L24, 'nominal'), ('wind_speed', lo, 5 * L24, 'nominal'), ('wind_speed', 4, 3 * L24, 'unknown'),
           ('wind_speed', 2, 5 * L24, 'nominal'), ('wind_speed', 8, 9 * L24, 'warn'), ('wind_speed', 12, 5 * L24, 'warn'),
           ('wind_speed_x', 8, 7 * L24, 'nominal'), ('wind_speed', hi, 5 * L24, 'error'),
           ('wind_speed', hi + 1, 5 * L24, 'nominal'), ('wind', 8, 11 * L24, 'nominal')]
    for store in (None, '', 'cam:8080'):
        out.append(dict(kind='api', cache=c, keep=['slice', None, None, 2], templates=['Antennas/{ant}/az'], dp=dp, store=store,
                        server=srv, fail=None,
                        ops=[('get', 'wind_speed', False, False, {}), ('item', 'wind_speed'), ('item', 'wind_speed'),
                             ('get', 'wind', False, True, {}), ('item', 'wind_spee'), ('item', 'a/z'), ('item', 'a/x'),
                             ('item', 'Antennas/m9/az'), ('get', 'wind_speed_x', True, True, {'off': 2})]))
    return out


# ---------------------------------------------------------------------------------------------- (i) real registries
REG_MODULES = {'dataset': ('katdal.dataset', 'DEFAULT_VIRTUAL_SENSORS'), 'h5datav1': ('katdal.h5datav1', 'VIRTUAL_SENSORS'),
               'h5datav2': ('katdal.h5datav2', 'VIRTUAL_SENSORS'), 'h5datav3': ('katdal.h5datav3', 'VIRTUAL_SENSORS'),
               'visdatav4': ('katdal.visdatav4', 'VIRTUAL_SENSORS')}


def run_registry(ctx, cases):
    """cases: dict(kind='registry', module, name)"""
    import importlib
    from katdal.sensordata import SensorCache
    outs = ctx.model([[123, [2, codes(c['module']), codes(c['name'])]] for c in cases])
    for c, m in zip(cases, outs):
        mod, var = REG_MODULES[c['module']]
        reg = getattr(importlib.import_module(mod), var)
        calls = []

        def recorder(t, f):
            def create(cache, name, **kw):
                calls.append((t, f.__name__, dict(kw)))
                cache[name] = arr = np.zeros(len(cache.timestamps))
                return arr
            return create
        sc = SensorCache({}, np.arange(3.0), 1.0, virtual={t: recorder(t, f) for t, f in reg.items()})
        try:
            sc.get(c['name'])
            got = calls[0] if calls else ('no call',)
        except KeyError:
            got = None
        except Exception as e:
            got = ('raised', repr(e))
        if m[0] == 0:
            ctx.disagree('kind=registry;module=%s;symptom=template_outside_subset' % c['module'], c, None, m,
                         'a registered template is outside the modelled regex subset')
            continue
        if m[0] == 1:
            want = None
        else:
            want = (''.join(map(chr, m[4])), ''.join(map(chr, m[3])),
                    {''.join(map(chr, v)): ''.join(map(chr, w)) for (v, w) in m[2]})
        if got != want:
            rel = 'no_match_expected' if want is None else ('missed_match' if got is None else 'other_template_or_bindings')
            ctx.disagree('kind=registry;module=%s;rel=%s;symptom=resolution_differs' % (c['module'], rel), c, base._j(got),
                         base._j(want), 'virtual sensor name %r resolved differently (template, function, bindings)' % c['name'])
        ctx.traces_validated += 1
        ctx.note_case(('registry', c['module'], c['name']), nontrivial=want is not None,
                      sample=dict(kind='registry', module=c['module'], name=c['name']))
        ctx.count('registry_%s' % ('match' if want is not None else 'nomatch'))


def gen_registry(rng):
    import importlib
    module = rng.choice(sorted(REG_MODULES))
    mod, var = REG_MODULES[module]
    reg = list(getattr(importlib.import_module(mod), var))
    pool = reg + ['Antennas/{ant}/az', 'Antennas/{ant}/el', 'Correlator/Inputs/{inp}/applied_gain']
    return dict(kind='registry', module=module, name=mutate_name(rng, instance(rng, rng.choice(pool))))


def scripted_registry():
    names = ['Antennas/m000/az', 'Antennas/m000/el', 'Antennas/m000/azimuth', 'Antennas/m000/radec', 'Antennas/m000/ra',
             'Antennas/m0/00/az', 'Antennas//az', 'antennas/m000/az', 'xAntennas/m000/az', 'Timestamps/mjd', 'Timestamps/mjd2',
             'Antennas/array/basis_u', 'Antennas/m000/u', 'Antennas/m000/x', 'Antennas/m000/target_x_ARC_azel',
             'Antennas/m000/target_y_SIN_radec', 'Antennas/m000/target_z_SIN_radec', 'Antennas/m000/target_x_A_B_C',
             'Antennas/m000/target_x__azel', 'Correlator/Inputs/m000h/applied_delay', 'Correlator/Inputs/m000h/applied_phase',
             'Correlator/Inputs/m000h/applied_gain', 'Correlator/Inputs/m000h/applied_gains', 'Antennas/m000/parangle',
             'Antennas/m000/lst', 'Antennas/m000/dec', 'Antennas/m000/w', 'Antennas/m000/basis_w', 'Antennas/m000/basis_x']
    return [dict(kind='registry', module=m, name=n) for m in sorted(REG_MODULES) for n in names]


# ---------------------------------------------------------------------------------------------- (j) dtype-aware fill
DT = {'float': 0, 'int': 1, 'str': 2, 'bool': 3}
KIND_OF = {0: 'f', 1: 'i', 2: 'U', 3: 'b'}


def w_part(p):
    n, st = p['n'], p['state']
    if st[0] == 'missing':
        return [n, 0]
    if st[0] == 'arr':
        return [n, 1, DT[st[1]], [wq(v) for v in st[2]]]
    return [n, 2, DT[st[1]], wq(st[2])]


def w_fprops(p):
    cat = [] if p.get('cat') is None else [bool(p['cat'])]
    i = p.get('init')
    if i is None:
        init = []
    elif i[0] == 'float':
        init = [[0, wq(i[1])]]
    elif i[0] == 'int':
        init = [[1, int(i[1])]]
    elif i[0] == 'bool':
        init = [[2, bool(i[1])]]
    else:
        init = [[3, i[1] == '']]
    return [cat, init]


def fill_kwargs(p):
    kw = {}
    if p.get('cat') is not None:
        kw['categorical'] = bool(p['cat'])
    i = p.get('init')
    if i is not None:
        kw['initial_value'] = {'float': lambda v: float(Fraction(v)), 'int': int, 'bool': bool, 'str': str}[i[0]](i[1])
    return kw


def num_of(x):
    """array element / categorical value as the number the model carries"""
    if isinstance(x, (bool, np.bool_)):
        return Fraction(int(x))
    if isinstance(x, (str, np.str_, bytes)):
        return Fraction(0 if len(x) == 0 else 1)
    if isinstance(x, (float, np.floating)):
        return None if np.isnan(x) else Fraction(float(x))
    return Fraction(int(x))


def describe(r):
    from katdal.categorical import CategoricalData
    if isinstance(r, CategoricalData):
        return ('cat', r.dtype.kind, [num_of(getattr(u, 'unwrapped', u)) for u in r.unique_values])
    if isinstance(r, np.ndarray):
        return ('arr', r.dtype.kind, [num_of(x) for x in r.tolist()])
    return ('other', repr(r))


def fval_num(f):
    k = f[0]
    if k == 0:
        return unq(f[1])
    if k == 1:
        return Fraction(f[1])
    if k == 2:
        return Fraction(1 if f[1] else 0)
    if k == 3:
        return Fraction(0 if f[1] else 1)
    return None


def part_matches(m, d):
    """model per-part result vs description of what the part returns"""
    if m[0] == 0:
        return d == ('err', 'key')
    if m[0] == 1:
        return d[0] == 'arr' and d[1] == KIND_OF[m[1]] and d[2] == [unq(x) for x in m[2]]
    if m[0] == 2:
        if d[0] != 'cat' or d[1] != KIND_OF[m[1]]:
            return False
        return len(m) < 3 or d[2] == [fval_num(m[2])]
    return True


def run_fill(ctx, case):
    """case: dict(kind='fill', parts=[dict(n, state, keep)], props, select)"""
    from katdal.concatdata import ConcatenatedSensorCache
    from katdal.sensordata import SensorCache, SimpleSensorGetter
    parts, p = case['parts'], case['props']
    mo = ctx.model([[125, [[w_part(x) for x in parts], w_fprops(p)]],
                    [126, [[w_part(x) for x in parts], w_fprops(p), [[bool(b) for b in x['keep']] for x in parts]]]])
    (mparts, mres), msel = mo[0], mo[1]
    caches = []
    t0 = 0.0
    for x in parts:
        n, st = x['n'], x['state']
        ts = t0 + np.arange(n, dtype=float)
        t0 += 100.0
        raw = {}
        if st[0] == 'get':
            v = {'float': float(Fraction(st[2])), 'int': int(st[2]), 'bool': bool(st[2]), 'str': 's%d' % st[2]}[st[1]]
            raw['x'] = SimpleSensorGetter('x', np.array([ts[0] - 5.0, ts[-1] + 5.0]), np.array([v, v]))
        sc = SensorCache(raw, ts, 1.0, keep=np.array(x['keep'], dtype=bool))
        if st[0] == 'arr':
            dt = {'float': np.float64, 'int': np.int64, 'bool': np.bool_}[st[1]]
            sc['x'] = np.array([float(Fraction(v)) if st[1] == 'float' else int(v) for v in st[2]], dtype=dt)
        caches.append(sc)
    keep = np.concatenate([np.array(x['keep'], dtype=bool) for x in parts])
    cc = ConcatenatedSensorCache(caches, keep=keep)
    sel = bool(case['select'])
    try:
        r = describe(cc.get('x', select=sel, **fill_kwargs(p)))
    except KeyError:
        r = ('err', 'key')
    except Exception as e:
        r = ('err', 'other', repr(e))
    form = 'dtypes=%s;init=%s;cat=%s;select=%d' % ('+'.join(sorted({x['state'][0][0] + (x['state'][1][0] if x['state'][0] != 'missing' else '')
                                                                  for x in parts})),
                                                  p['init'][0] if p.get('init') else 'none', p.get('cat'), sel)
    sig = lambda sym: 'kind=fill;%s;symptom=%s' % (form, sym)
    j = lambda d: json.loads(json.dumps(d, default=str))
    k = mres[0]
    bad = None
    if k == 0:
        bad = None if r == ('err', 'key') else 'expected_KeyError'
    elif k == 1:
        bad = None if r[0] == 'err' and r[1] != 'key' else 'expected_exception'
    elif k == 2:
        if mres[1] and mres[1][0] == 2:
            # promoted to a string array: numbers print as non-empty strings; only '' (the default filler) maps to 0
            want = []
            for x, mp in zip(parts, mparts):
                vals = [unq(v) if mp[1] == 2 else Fraction(1) for v in mp[2]]
                want += [v for v, b in zip(vals, x['keep']) if b] if sel else vals
        elif sel:
            want = [unq(x) for x in msel[0]] if msel else None
        else:
            want = [unq(x) for x in mres[2]]
        if r[0] != 'arr':
            bad = 'expected_array_got_' + r[0]
        elif mres[1] and r[1] != KIND_OF[mres[1][0]]:
            bad = 'result_dtype'
        elif want is not None and mres[1] and r[2] != want:
            bad = 'values_differ'
    elif k == 3:
        bad = None if r[0] == ('arr' if sel else 'cat') else 'expected_categorical_got_' + r[0]
    elif k == 4:
        if not sel:
            bad = None if r[0] == 'err' else 'expected_exception_on_mixed'
    if bad:
        ctx.disagree(sig(bad), case, j(r), mres, 'ConcatenatedSensorCache.get of a sensor absent from some parts differs from the model')
        return False
    # what every part holds afterwards (the fillers are written back)
    if k not in (0, 1):
        for i, (sc, m) in enumerate(zip(caches, mparts)):
            try:
                d = describe(sc.get('x'))
            except KeyError:
                d = ('err', 'key')
            except Exception as e:
                d = ('err', 'other', repr(e))
            if not part_matches(m, d):
                missing = parts[i]['state'][0] == 'missing'
                ctx.disagree(sig('filler_written_back' if missing else 'present_part_changed'), dict(case, failing_part=i), j(d), m,
                             'part %d holds something else than the model after the read' % i)
                return False
    ctx.traces_validated += 1
    ctx.count('fill_result=%s' % {0: 'KeyError', 1: 'error', 2: 'array', 3: 'categorical', 4: 'mixed'}[k])
    ctx.count('fill_init=%s' % (p['init'][0] if p.get('init') else 'none'))
    return k == 2 and any(x['state'][0] == 'missing' for x in parts)


def gen_fill(rng):
    parts = []
    fam = rng.choice(['float', 'int', 'bool', 'num', 'num', 'cat', 'any'])
    for _ in range(rng.randint(2, 4)):
        n = rng.randint(1, 3)
        r = rng.random()
        if r < 0.4:
            st = ('missing',)
        else:
            dts = {'float': ['float'], 'int': ['int'], 'bool': ['bool'], 'num': ['float', 'int', 'bool'],
                   'cat': ['int', 'bool', 'str', 'float'], 'any': ['float', 'int', 'bool', 'str']}[fam]
            dt = rng.choice(dts)
            if dt == 'str' or (fam in ('cat', 'any') and rng.random() < 0.6):
                st = ('get', dt, rng.randint(0, 3) * (L24 if dt == 'float' else 1) if dt != 'bool' else rng.randint(0, 1))
            else:
                st = ('arr', dt, [rng.randint(0, 1) if dt == 'bool' else rng.randint(-9, 9) * (L24 if dt == 'float' else 1)
                                  for _ in range(n)])
        parts.append(dict(n=n, state=st, keep=[rng.random() < 0.6 for _ in range(n)]))
    if all(x['state'][0] == 'missing' for x in parts) and rng.random() < 0.8:
        parts[0]['state'] = ('arr', 'float', [L24] * parts[0]['n'])
    p = {}
    r = rng.random()
    if r < 0.5:
        p['init'] = rng.choice([('float', rng.randint(-5, 5) * L24), ('float', 3), ('int', 7), ('int', 0), ('bool', True),
                                ('bool', False), ('str', 'x'), ('str', '')])
    if rng.random() < 0.3:
        p['cat'] = rng.random() < 0.5
    return dict(kind='fill', parts=parts, props=p, select=rng.random() < 0.35)


def scripted_fill():
    out = []
    A = lambda dt, vals: ('arr', dt, vals)
    for st in [A('float', [L24, 2 * L24]), A('int', [4, 5]), A('bool', [1, 0]), ('get', 'float', 3 * L24), ('get', 'int', 3),
               ('get', 'bool', 1), ('get', 'str', 1)]:
        for p in [{}, {'init': ('float', 7 * L24)}, {'init': ('int', 7)}, {'init': ('bool', True)}, {'init': ('str', 'x')},
                  {'cat': False}, {'cat': True}, {'init': ('int', 0), 'cat': False}]:
            for sel in (False, True):
                out.append(dict(kind='fill', props=p, select=sel,
                                parts=[dict(n=2, state=st, keep=[True, False]), dict(n=3, state=('missing',), keep=[False, True, True])]))
    out.append(dict(kind='fill', props={}, select=False,
                    parts=[dict(n=1, state=('missing',), keep=[True]), dict(n=2, state=A('int', [4, 5]), keep=[True, True]),
                           dict(n=1, state=A('bool', [1]), keep=[True]), dict(n=2, state=('missing',), keep=[True, False])]))
    out.append(dict(kind='fill', props={}, select=False,
                    parts=[dict(n=1, state=('missing',), keep=[True]), dict(n=2, state=('missing',), keep=[True, True])]))
    return out


# ---------------------------------------------------------------------------------------------- entry points
def tuplify(case):
    """restore the tuples a JSON round trip turned into lists"""
    case = json.loads(json.dumps(case, default=str))
    if case['kind'] == 'api':
        c = case['cache']
        for g in c['getters']:
            g['samples'] = [tuple(s) for s in g['samples']]
        c['raw'] = [tuple(r) for r in c['raw']]
        fixp = lambda p: dict(p, init=tuple(p['init'])) if p.get('init') is not None else p
        c['props'] = [(k, fixp(p)) for (k, p) in c['props']]
        case['server'] = [tuple(s) for s in case['server']]
        case['ops'] = [tuple(o[:4]) + (fixp(o[4]),) if o[0] == 'get' else tuple(o) for o in case['ops']]
    elif case['kind'] == 'fill':
        for x in case['parts']:
            x['state'] = tuple(x['state'])
        if case['props'].get('init') is not None:
            case['props']['init'] = tuple(case['props']['init'])
    case.pop('failing_op', None)
    case.pop('failing_part', None)
    return case


def run_case(ctx, case):
    case = tuplify(case)
    if case['kind'] == 'api':
        return run_api(ctx, case)
    if case['kind'] == 'registry':
        return run_registry(ctx, [case])
    if case['kind'] == 'fill':
        return run_fill(ctx, case)
    if case['kind'] == 'v4delay':
        case['ops'] = [tuple(o) for o in case['ops']]
        return run_v4delay(ctx, case)


def run(ctx):
    rng = ctx.rng
    for case in scripted_api() + [gen_api(rng) for _ in range(ctx.scale(750, 12000))]:
        nt = run_api(ctx, case)
        ctx.note_case(('api', json.dumps(case, sort_keys=True, default=str)), nontrivial=nt,
                      sample=dict(kind='api', keep=keep_form(case['keep']), templates=case['templates'], store=case['store'],
                                  ops=[o[:2] for o in case['ops']][:5]))
        ctx.count('api')
    run_registry(ctx, scripted_registry() + [gen_registry(rng) for _ in range(ctx.scale(450, 8000))])
    for case in scripted_fill() + [gen_fill(rng) for _ in range(ctx.scale(550, 9000))]:
        nt = run_fill(ctx, case)
        ctx.note_case(('fill', json.dumps(case, sort_keys=True, default=str)), nontrivial=nt,
                      sample=dict(kind='fill', parts=[x['state'][:2] for x in case['parts']], props=case['props']))
        ctx.count('fill')
    for case in [gen_v4delay(rng) for _ in range(ctx.scale(250, 4000))]:
        nt = run_v4delay(ctx, case)
        ctx.note_case(('v4delay', json.dumps(case, sort_keys=True, default=str)), nontrivial=nt,
                      sample=dict(kind='v4delay', nupdates=len(case['ups']), ndumps=len(case['ts']), ops=case['ops']))
        ctx.count('v4delay')


# ---------------------------------------------------------------------------------------------- (k) v4 applied_delay / applied_phase
V4_TOL = 1e-9


def run_v4delay(ctx, case):
    """case: dict(kind='v4delay', S, F, ups=[(count, delay, rate, phase, phase_rate)] as Fraction strings, ts, keep, raw_times,
    ops=[(which, select)]): the REAL visdatav4._calc_delay through SensorCache.get on the v4 registry"""
    import katdal.visdatav4 as v4
    from katdal.categorical import CategoricalData, ComparableArrayWrapper
    from katdal.sensordata import SensorCache, SimpleSensorGetter
    fr = lambda x: Fraction(x)
    S, F = fr(case['S']), fr(case['F'])
    ups = [tuple(fr(x) for x in u) for u in case['ups']]
    ts = [fr(t) for t in case['ts']]
    outs = ctx.model([[127, [w, wq(S), wq(F), [[wq(x) for x in u] for u in ups], [wq(t) for t in ts]]] for w in (True, False)])
    vals = np.empty(len(ups), dtype=object)
    for i, u in enumerate(ups):
        vals[i] = ComparableArrayWrapper(tuple([int(u[0])] + [float(x) for x in u[1:]]))
    T = len(ts)
    raw = {'i0_acv_m000h_delay': SimpleSensorGetter('i0_acv_m000h_delay', np.array([float(x) for x in case['raw_times']]), vals)}
    sc = SensorCache(raw, np.array([float(t) for t in ts]), 2.0, keep=np.array(case['keep'], dtype=bool),
                     virtual=v4.VIRTUAL_SENSORS, props={})
    sc['Correlator/antenna_channelised_voltage_stream'] = CategoricalData(['i0_acv'], [0, T])
    sc['Correlator/sync_time'] = CategoricalData([float(S)], [0, T])
    sc['Correlator/scale_factor_timestamp'] = CategoricalData([float(F)], [0, T])
    nontrivial = False
    for i, (which, select) in enumerate(case['ops']):
        name = 'Correlator/Inputs/m000h/applied_%s' % ('delay' if which else 'phase')
        m, spec = outs[0 if which else 1]
        sig = lambda sym: 'kind=v4delay;sensor=%s;selected=%d;symptom=%s' % ('delay' if which else 'phase', select, sym)
        try:
            got = sc.get(name, select=bool(select))
        except Exception as e:
            if m[0] == 2:
                ctx.count('v4delay_rejected')
                return nontrivial
            ctx.disagree(sig('raises'), dict(case, failing_op=i), repr(e), m, 'applied_%s raised' % ('delay' if which else 'phase'))
            return nontrivial
        if m[0] != 0:
            ctx.count('v4delay_skipped')
            return nontrivial
        want = [unq(x) for x in m[1]]
        doc = [unq(x) for x in spec]
        if select:
            want = [w for w, b in zip(want, case['keep']) if b]
            doc = [w for w, b in zip(doc, case['keep']) if b]
        ok = isinstance(got, np.ndarray) and len(got) == len(want) and all(
            abs(float(g) - float(w)) <= V4_TOL * max(1.0, abs(float(w))) for g, w in zip(got, want))
        okd = isinstance(got, np.ndarray) and len(got) == len(doc) and all(
            abs(float(g) - float(w)) <= V4_TOL * max(1.0, abs(float(w))) for g, w in zip(got, doc))
        if not ok or not okd:
            ctx.disagree(sig('values_differ' if isinstance(got, np.ndarray) and len(got) == len(want) else 'shape_differs'),
                         dict(case, failing_op=i), [float(x) for x in np.atleast_1d(got)][:12], [float(x) for x in want][:12],
                         'applied_%s differs from the latest update advanced at its rate' % ('delay' if which else 'phase'),
                         spec=[float(x) for x in doc][:12], kind='property' if not okd else 'tie')
            return nontrivial
        nontrivial = nontrivial or len(want) > 0
        ctx.count('v4delay_op=%s%s' % ('delay' if which else 'phase', '+select' if select else ''))
    held = sorted(k for k in sc.keys() if k.startswith('Correlator/Inputs/'))
    if case['ops'] and held != ['Correlator/Inputs/m000h/applied_delay', 'Correlator/Inputs/m000h/applied_phase']:
        ctx.disagree('kind=v4delay;symptom=names_stored', case, held, None, 'both applied_delay and applied_phase must be stored')
    ctx.traces_validated += 1
    return nontrivial


def gen_v4delay(rng):
    T = rng.randint(1, 8)
    base_t = rng.choice([1000, 5000])
    grid, k = [], 0
    for _ in range(T):
        k += rng.choice([2, 2, 2, 4, 6])
        grid.append(Fraction(base_t) + Fraction(k, 1))
    F = rng.choice([1024, 2048, 4096])
    S = Fraction(base_t - rng.choice([100, 500]))
    n = rng.randint(1, 5)
    # update times on an 1/8 s lattice offset by 1/16 s from the dumps' whole seconds, so that no dump falls into the
    # microsecond before an update; from before the first dump to after the last one
    t = Fraction(base_t) + Fraction(rng.randint(-6, 3) * 8 + 1, 16)
    ups = []
    for i in range(n):
        count = (t - S) * F
        ups.append((count, Fraction(rng.randint(-50, 50), 8), Fraction(rng.randint(-8, 8), 64),
                    Fraction(rng.randint(-50, 50), 8), Fraction(rng.randint(-8, 8), 64)))
        t += Fraction(rng.randint(1, 40), 8)
    keep = [rng.random() < 0.6 for _ in range(T)]
    ops = [(rng.random() < 0.5, rng.random() < 0.4) for _ in range(rng.randint(1, 4))]
    return dict(kind='v4delay', S=str(S), F=str(F), ups=[[str(x) for x in u] for u in ups], ts=[str(x) for x in grid], keep=keep,
                raw_times=[float(base_t - 50 + 3 * i) for i in range(n)], ops=ops)
