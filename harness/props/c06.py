"""C06 — Lost data become zeros flagged data_lost, exactly where they were lost (correspondence + search)."""
import itertools

import numpy as np

from fixtures import c06store as fx
from fixtures import v4 as fv4

RULE = ('a case is one chunk store: T<=10 dumps, F<=8 channels, B<=6 products (4 or 12 through a full data set), four '
        'independently drawn chunkings (uneven / all size 1 / single chunk; weights_channel 2-D), per-array dump counts '
        'differing by up to 3 or an array without any dump (phantom chunks), a subset of chunk files deleted per array '
        '(empty .. all), a unit-step preselection of dumps and/or channels given as raw slice bounds (None, negative, past '
        'the end, empty), loaded through ChunkStoreVisFlagsWeights, TelstateDataSource(...).data (flags optionally from an '
        'attached sdp.flags stream) or VisibilityDataV4; compared element by element on vis, weights, flags with the '
        'extracted model and spec.  HISTORIES: one reader store object serves 2-4 loads while chunk files are removed / '
        'written (other values, over present chunks) by another store object; raw index elements (step None/1) and a '
        'malformed stream (step 2/-1/0, integers, lists, a third element, unknown preselect keys); the same on a '
        'DictChunkStore (arrays absent / holding only their first dumps / arriving later, every load repeated, store memory '
        'compared afterwards).  OPTIONS: two loads (complete store, then with chunks deleted) under van_vleck off/autocorr x '
        'stored_weights_are_scaled True/False (x applycal through a v4 data set), baseline-axis chunking.  Non-trivial: at '
        'least one chunk absent (deleted, never written or phantom) inside a non-empty window; distinct by (geometry, '
        'chunkings, loss set / history, preselection, path, options).  Side checks: intersect_1d / intersect_chunks against '
        'dask.array.rechunk.intersect_chunks; _prune_chunks (per axis and as a whole on raw / malformed N-d indices), '
        'TelstateDataSource preselect validation, get_dask_array(errors=...) block by block, _apply_data_lost, '
        '_upgrade_chunk_info + _align_chunk_info and DictChunkStore.get_chunk against their models.')
ASSUMPTIONS = ['chunk sizes are positive (zero-size chunks only arise from an empty preselection, where no element exists)',
               'stored values are exactly representable (small integers); weights are compared exactly',
               'under van_vleck / weight power scaling / applycal the elements NOT affected by a loss are compared with the '
               'load of the complete store through the same options (same code, same inputs); lost elements with exact '
               'constants (0, float32(bad_weight) * stored weight)',
               'the Van Vleck lookup table is strictly increasing (only its first node and the np.interp call are tied)',
               'through VisibilityDataV4 only non-empty preselections (a data set without dumps or channels cannot be constructed)',
               'a view store holds each array up to a chunk boundary of its dump chunking (a partly present chunk is a '
               'malformed store: BadChunk, outside the property)',
               'dask graph assembly, numpy slicing assignment and NpyFileChunkStore file naming are exercised, not modelled']

NAMES = fx.ARRAYS


# ----------------------------------------------------------------------------- generators

def rnd_chunks(rng, n, style=None):
    style = style or rng.choice(['rand', 'rand', 'ones', 'single', 'even'])
    if n == 0:
        return []
    if style == 'ones':
        return [1] * n
    if style == 'single':
        return [n]
    if style == 'even':
        c = rng.randint(1, n)
        out = [c] * (n // c)
        if n % c:
            out.append(n % c)
        return out
    out = []
    left = n
    while left:
        c = rng.randint(1, left)
        out.append(c)
        left -= c
    return out


def rnd_bound(rng, n):
    r = rng.random()
    if r < 0.1:
        return None
    if r < 0.2:
        return rng.randint(-n - 1, -1)
    if r < 0.25:
        return n + rng.randint(0, 2)
    return rng.randint(0, n)


def rnd_window(rng, n):
    r = rng.random()
    if r < 0.25:
        return None
    if r < 0.8:   # mostly non-empty
        a, b = sorted(rng.sample(range(n + 1), 2)) if n >= 1 else (0, 0)
        return [a, b]
    return [rnd_bound(rng, n), rnd_bound(rng, n)]


def gen_case(rng, path=None, small=False):
    path = path or rng.choice(['vfw', 'vfw', 'source'])
    T = rng.randint(1, 5 if small else 10)
    F = rng.randint(1, 4 if small else 8)
    B = rng.choice([4, 12] if path == 'v4' else [1, 2, 3, 4, 6])
    if path == 'v4':
        T = max(T, 2)
    l1 = path in ('source', 'v4') and rng.random() < 0.6
    nd = {k: T for k in NAMES}
    if rng.random() < 0.5:
        if path == 'v4':
            if l1:
                nd['flags'] = max(1, T + rng.randint(-3, 3))
        elif path == 'source' and l1 and rng.random() < 0.5:
            nd['flags'] = max(1, T + rng.randint(-3, 3))
        else:
            for k in NAMES:
                if rng.random() < 0.4:
                    nd[k] = max(1, T - rng.randint(1, 3))
    if path != 'v4' and rng.random() < 0.04:
        nd[rng.choice(NAMES)] = 0          # an array (or the attached flags stream) for which no dump was written at all
    chunks = {}
    for k in NAMES:
        chunks[k] = [rnd_chunks(rng, nd[k]), rnd_chunks(rng, F)]
        if k != 'weights_channel':
            chunks[k].append(rnd_chunks(rng, B))
    identical = rng.random() < 0.25
    if identical:
        # the usual MeerKAT layout: vis, flags, weights chunked identically (weights_channel: the same on its two axes)
        base = [rnd_chunks(rng, T), rnd_chunks(rng, F), rnd_chunks(rng, B)]
        for k in NAMES:
            tch = base[0] if nd[k] == T else rnd_chunks(rng, nd[k])
            chunks[k] = [list(tch), list(base[1])] + ([list(base[2])] if k != 'weights_channel' else [])
    lost = {}
    mode = rng.choice(['none', 'few', 'some', 'half', 'all', 'one-array'])
    only = rng.choice(NAMES)
    if identical and rng.random() < 0.7:
        mode, only = 'one-array', rng.choice(['correlator_data', 'weights'])
    for k in NAMES:
        idxs = fx.all_chunk_indices(chunks[k])
        if path == 'v4' and k == 'flags' and not l1 and False:
            continue
        p = {'none': 0.0, 'few': 0.1, 'some': 0.3, 'half': 0.5, 'all': 1.0, 'one-array': 0.5 if k == only else 0.0}[mode]
        lost[k] = [list(map(int, i)) for i in idxs if rng.random() < p]
    npre = rng.choice([0, 1, 2, 2])
    pre = [rnd_window(rng, max(nd.values())), rnd_window(rng, F)][:npre]
    if path == 'v4':     # a data set object needs at least one dump and one channel
        dims = [max(nd.values()), F]
        pre = [None if (w is not None and norm_window(w, n) and norm_window(w, n)[0] == norm_window(w, n)[1]) else w
               for w, n in zip(pre, dims)]
    case = dict(F=F, B=B, nd=nd, chunks=chunks, lost=lost, pre=pre, path=path, l1=l1, seed=rng.randint(0, 10 ** 6))
    if identical:
        case['identical'] = True
    if path == 'source':
        lay = rng.choice([None, 'legacy', 'legacy', 'mixed'])
        if lay:
            case['layout'] = lay
        if l1 and rng.random() < 0.6:
            case['decoy'] = True
        oth = rng.choice([[], [], ['before'], ['after']])
        if oth:
            case['others'] = oth
    return case


# ----------------------------------------------------------------------------- model side

def norm_window(w, n):
    """Raw slice bounds -> what _prune_chunks sees: None for a full slice (dask normalises it to slice(None)),
    else slice.indices."""
    if w is None:
        return []
    lo, hi, _ = slice(w[0], w[1]).indices(n)
    hi = max(lo, hi)            # dask.array.slicing.normalize_index
    if lo == 0 and hi >= n:
        return []
    return [lo, hi]


def empty_window(case):
    dims = [max(case['nd'].values()), case['F']]
    return any(w is not None and norm_window(w, n) and norm_window(w, n)[0] == norm_window(w, n)[1]
               for w, n in zip(case['pre'], dims))


def enc_vis(a):
    a = np.asarray(a)
    return (np.rint(a.real).astype(np.int64) * 256 + np.rint(a.imag).astype(np.int64))


def wire_case(case, vals):
    Tmax = max(case['nd'].values())
    dims = [Tmax, case['F']]
    win = [norm_window(w, n) for w, n in zip(case['pre'], dims)]
    chunks = [case['chunks'][k] for k in NAMES]
    lost = []
    for k in NAMES:
        ch = case['chunks'][k]
        lost.append([[int(s.start) for s in fx.chunk_slices(ch, idx)] for idx in case['lost'].get(k, [])])
    data = [enc_vis(vals['correlator_data']).ravel().tolist(), vals['flags'].ravel().astype(int).tolist(),
            vals['weights'].ravel().astype(int).tolist(), vals['weights_channel'].ravel().astype(int).tolist()]
    return [6, [chunks, win, lost, data]]


def py_spec(case, vals):
    """Independent numpy statement of the spec (used for replay without a model binary and as a cross-check)."""
    Tmax = max(case['nd'].values())
    F, B = case['F'], case['B']
    full = {}
    miss = {}
    for k in NAMES:
        shp = (Tmax, F) if k == 'weights_channel' else (Tmax, F, B)
        a = np.zeros(shp, vals[k].dtype)
        a[:case['nd'][k]] = vals[k]
        m = np.zeros(shp, bool)
        m[case['nd'][k]:] = True
        for idx in case['lost'].get(k, []):
            m[fx.chunk_slices(case['chunks'][k], idx)] = True
        full[k], miss[k] = a, m
    sel = tuple(slice(None) if w is None else slice(w[0], w[1]) for w in case['pre'])
    sel = sel + (slice(None),) * (2 - len(sel))
    mv = miss['correlator_data']
    mw = miss['weights'] | miss['weights_channel'][..., None]
    ev = np.where(mv, 0, full['correlator_data'])[sel]
    ew = np.where(mw, 0, full['weights'].astype(np.float32) * full['weights_channel'][..., None])[sel]
    ef = (np.where(miss['flags'], 8, full['flags']) | np.where(mv | mw, 8, 0)).astype(np.uint8)[sel]
    return dict(vis=enc_vis(ev), weights=ew.astype(np.int64), flags=ef.astype(np.int64)), (mv | mw | miss['flags'])[sel]


# ----------------------------------------------------------------------------- comparison

def case_features(case):
    npre = ''.join(('t' if i == 0 else 'f') for i, w in enumerate(case['pre']) if w is not None) or 'none'
    dumps = 'equal' if len(set(case['nd'].values())) == 1 else 'differ'
    return 'path=%s;pre=%s;dumps=%s' % (case['path'], npre, dumps)


def classify(obs, impl, exp):
    impl = np.asarray(impl)
    exp = np.asarray(exp)
    if impl.shape != exp.shape:
        return 'shape'
    bad = impl != exp
    if obs == 'flags':
        i8, e8 = impl & 8, exp & 8
        if np.any((i8 == 0) & (e8 != 0)):
            return 'data_lost_not_set'
        if np.any((i8 != 0) & (e8 == 0)):
            return 'data_lost_spurious'
        return 'other_bits_changed'
    if np.any(bad & (exp == 0)):
        return 'lost_not_zeroed'
    if np.any(bad & (impl == 0)):
        return 'present_zeroed'
    return 'wrong_value'


def first_bad(impl, exp):
    impl = np.asarray(impl)
    exp = np.asarray(exp)
    if impl.shape != exp.shape:
        return dict(impl_shape=list(impl.shape), expected_shape=list(exp.shape))
    at = np.argwhere(impl != exp)[0].tolist()
    return dict(at=at, impl=int(impl[tuple(at)]), expected=int(exp[tuple(at)]), n_bad=int((impl != exp).sum()))


def check_store(ctx, case, mout=None, tag='c06'):
    """Run one case through katdal and compare with model / spec.  mout = parsed output of wire_6 (or None)."""
    tmp = fv4.scratch_dir(tag)
    feats = case_features(case)
    try:
        try:
            out, dchunks, vals = fx.observe(case, tmp)
        except Exception as e:    # the property says loading still succeeds
            if empty_window(case):
                if case['path'] == 'v4':
                    return None      # a VisibilityDataV4 without dumps / channels cannot be built: not this property
                feats = 'window=empty'
            ctx.disagree('%s;symptom=raises:%s' % (feats, type(e).__name__), case, repr(e)[:300], None,
                         'loading a store with absent chunks raised')
            return None
    finally:
        fx.rmtree(tmp)
    pys, anylost = py_spec(case, vals)
    check_dtypes(ctx, feats, case, out, first_blocks(case))
    impl = dict(vis=enc_vis(out['vis']), weights=np.asarray(out['weights']).astype(np.float64),
                flags=np.asarray(out['flags']).astype(np.int64))
    if not np.array_equal(impl['weights'], np.rint(impl['weights'])):
        ctx.disagree('%s;obs=weights;symptom=non_integral' % feats, case, None, None, 'weights are not the exact products')
    impl['weights'] = impl['weights'].astype(np.int64)
    shape = pys['vis'].shape
    if mout is not None and mout != [-999]:
        mshape = tuple(mout[0])
        model = dict(vis=mout[2], weights=mout[4], flags=mout[6])
        spec = dict(vis=mout[3], weights=mout[5], flags=mout[7])
        n = int(np.prod(mshape))
        if mshape != shape and not (n == 0 and int(np.prod(shape)) == 0):
            ctx.disagree('%s;symptom=model_shape' % feats, case, list(shape), list(mshape), 'model window shape differs',
                         kind='tie')
            return None
        for obs in ('vis', 'weights', 'flags'):
            m = np.array(model[obs], dtype=np.int64).reshape(shape)
            s = np.array(spec[obs], dtype=np.int64).reshape(shape)
            if not np.array_equal(s, pys[obs]):
                ctx.disagree('%s;obs=%s;symptom=coq_spec_vs_numpy_spec' % (feats, obs), case, first_bad(pys[obs], s), None,
                             'extracted spec differs from the numpy statement of the spec', kind='tie')
            if impl[obs].shape != shape or not np.array_equal(impl[obs], m):
                ctx.disagree('%s;obs=%s;tie;symptom=%s' % (feats, obs, classify(obs, impl[obs], m)), case,
                             first_bad(impl[obs], m), None, 'katdal differs from the model on ' + obs, kind='tie')
            if impl[obs].shape != shape or not np.array_equal(impl[obs], s):
                ctx.disagree('%s;obs=%s;symptom=%s' % (feats, obs, classify(obs, impl[obs], s)), case,
                             first_bad(impl[obs], s), None, 'katdal differs from the spec on ' + obs,
                             spec=first_bad(impl[obs], s))
        if dchunks is not None and n:
            mch = [[[c for c in ax if c] for ax in a] for a in mout[1]]
            ich = [[[c for c in ax if c] for ax in a] for a in dchunks]
            if mch != ich:
                ctx.disagree('%s;symptom=dask_chunks' % feats, case, ich, mch,
                             'chunks of get_dask_array differ from prune+slice model', kind='tie')
    else:
        for obs in ('vis', 'weights', 'flags'):
            if impl[obs].shape != shape or not np.array_equal(impl[obs], pys[obs]):
                ctx.disagree('%s;obs=%s;symptom=%s' % (feats, obs, classify(obs, impl[obs], pys[obs])), case,
                             first_bad(impl[obs], pys[obs]), None, 'katdal differs from the spec on ' + obs)
    ctx.traces_validated += 1
    return bool(anylost.any())


def canon(case):
    return (case['F'], case['B'], sorted(case['nd'].items()), sorted((k, v) for k, v in case['chunks'].items()),
            sorted((k, v) for k, v in case['lost'].items()), case['pre'], case['path'], case.get('l1'),
            case.get('layout'), case.get('decoy'), repr(case.get('others')))


def run_cases(ctx, cases, tag='c06'):
    mouts = None
    if ctx.model_ok:
        wired = [wire_case(c, fx.make_values(c)) for c in cases]
        mouts = ctx.model(wired)
    for i, case in enumerate(cases):
        nt = check_store(ctx, case, mouts[i] if mouts else None, tag)
        nlost = sum(len(v) for v in case['lost'].values())
        ctx.note_case(canon(case), nontrivial=bool(nt),
                      sample=dict(F=case['F'], B=case['B'], nd=case['nd'], chunks=case['chunks'], n_lost=nlost,
                                  pre=case['pre'], path=case['path'], l1=case.get('l1')))
        ctx.count('path=' + case['path'])
        ctx.count('pre=' + str(len([w for w in case['pre'] if w is not None])))
        ctx.count('dumps=' + ('equal' if len(set(case['nd'].values())) == 1 else 'differ'))
        ctx.count('lost=' + ('0' if nlost == 0 else '1-3' if nlost <= 3 else '4+'))
        ctx.count('l1=%d' % int(bool(case.get('l1'))))
        count_layout(ctx, case, '')
        if 0 in case['nd'].values():
            ctx.count('an_array_without_any_dump')


# ----------------------------------------------------------------------------- side ties

def compositions(n):
    if n == 0:
        yield []
        return
    for first in range(1, n + 1):
        for rest in compositions(n - first):
            yield [first] + rest


def dask_intersections(old, new):
    from dask.array.rechunk import intersect_chunks
    res = []
    for pcs in intersect_chunks(tuple(map(tuple, old)), tuple(map(tuple, new))):
        res.append([[[int(i), int(s.start), int(s.stop)] for (i, s) in pc] for pc in pcs])
    return res


def tie_intersect(ctx):
    pairs = []
    nmax = 6 if ctx.tier == 'quick' else 8
    for n in range(1, nmax + 1):
        comps = list(compositions(n))
        pairs += [(o, nw) for o in comps for nw in comps]
    for _ in range(ctx.scale(300, 3000)):
        n = ctx.rng.randint(1, 40)
        pairs.append((rnd_chunks(ctx.rng, n), rnd_chunks(ctx.rng, n)))
    mouts = ctx.model([[61, [o, nw]] for o, nw in pairs]) if ctx.model_ok else []
    for (o, nw), m in zip(pairs, mouts):
        d = [[pc[0] for pc in pcs] for pcs in dask_intersections([o], [nw])]
        if d != m:
            ctx.disagree('tie=intersect_1d', dict(old=o, new=nw), d, m, 'intersect_1d differs from dask', kind='tie')
    ctx.extra['intersect_1d_pairs_vs_dask'] = len(mouts)
    nd = []
    for _ in range(ctx.scale(150, 1500)):
        k = ctx.rng.randint(1, 3)
        dims = [ctx.rng.randint(1, 6) for _ in range(k)]
        nd.append(([rnd_chunks(ctx.rng, n) for n in dims], [rnd_chunks(ctx.rng, n) for n in dims]))
    mouts = ctx.model([[63, [o, nw]] for o, nw in nd]) if ctx.model_ok else []
    for (o, nw), m in zip(nd, mouts):
        d = dask_intersections(o, nw)
        if d != m:
            ctx.disagree('tie=intersect_chunks', dict(old=o, new=nw), d[:2], m[:2], 'intersect_chunks differs from dask',
                         kind='tie')
    ctx.extra['intersect_nd_pairs_vs_dask'] = len(mouts)


def tie_prune(ctx):
    from katdal.chunkstore import _prune_chunks
    cases = []
    nmax = 5 if ctx.tier == 'quick' else 7
    for n in range(1, nmax + 1):
        for comp in compositions(n):
            for lo in range(0, n + 1):
                for hi in range(lo, n + 1):
                    if (lo, hi) != (0, n):
                        cases.append((comp, lo, hi))
    for _ in range(ctx.scale(300, 3000)):
        n = ctx.rng.randint(1, 40)
        lo, hi = sorted((ctx.rng.randint(0, n), ctx.rng.randint(0, n)))
        if (lo, hi) != (0, n):
            cases.append((rnd_chunks(ctx.rng, n), lo, hi))
    mouts = ctx.model([[62, [c, [lo, hi]]] for c, lo, hi in cases]) if ctx.model_ok else []
    for (c, lo, hi), m in zip(cases, mouts):
        try:
            ch, idx, off = _prune_chunks((tuple(c),), (slice(lo, hi),))
            impl = [list(map(int, ch[0])), int(idx[0].start), int(idx[0].stop), int(off[0])]
        except Exception as e:
            impl = repr(e)
        if impl != m[:4]:
            ctx.disagree('tie=prune_chunks', dict(chunks=c, lo=lo, hi=hi), impl, m[:4],
                         '_prune_chunks differs from prune_axis', kind='tie')
            continue
        # the property of _prune_chunks itself: same data, existing boundaries, minimal
        cs, st, sp, off = m[:4]
        ok = off + st == lo and sp - st == hi - lo
        if hi > lo:
            offs = np.cumsum([0] + c).tolist()
            ok = ok and off in offs and (off + sum(cs)) in offs and cs == c[offs.index(off):offs.index(off + sum(cs))]
            ok = ok and cs[0] > st and sum(cs) - cs[-1] < sp
        if not ok:
            ctx.disagree('what=prune_property', dict(chunks=c, lo=lo, hi=hi), impl, None,
                         '_prune_chunks does not select the same data with a minimal set of existing chunks')
    ctx.extra['prune_cases_vs_impl'] = len(mouts)


# ----------------------------------------------------------------------------- exhaustive small geometry

def exhaustive_cases(ctx):
    """Every subset of absent chunks for a 2x2x1-chunk geometry of each array (thorough tier)."""
    base = dict(F=3, B=2, nd={k: 3 for k in NAMES}, pre=[], path='vfw', l1=False, seed=7,
                chunks={'correlator_data': [[2, 1], [1, 2], [2]], 'flags': [[1, 2], [2, 1], [2]],
                        'weights': [[2, 1], [3], [1, 1]], 'weights_channel': [[3], [1, 2]]})
    per = {k: fx.all_chunk_indices(base['chunks'][k]) for k in NAMES}
    cases = []
    for sv in range(1 << len(per['correlator_data'])):
        for sf in range(1 << len(per['flags'])):
            for sw in (0, 1, 2, 3):
                for swc in (0, 1, 2, 3):
                    c = dict(base)
                    c['lost'] = {
                        'correlator_data': [list(i) for n, i in enumerate(per['correlator_data']) if sv >> n & 1],
                        'flags': [list(i) for n, i in enumerate(per['flags']) if sf >> n & 1],
                        'weights': [list(i) for n, i in enumerate(per['weights']) if sw >> n & 1],
                        'weights_channel': [list(i) for n, i in enumerate(per['weights_channel']) if swc >> n & 1]}
                    cases.append(c)
    return cases


# ----------------------------------------------------------------------------- round 2: raw indices, options, histories

def enc_opt(v):
    return [] if v is None else [int(v)]


def enc_elt(e):
    if e[0] == 's':
        return [0, enc_opt(e[1]), enc_opt(e[2]), enc_opt(e[3])]
    if e[0] == 'i':
        return [1, int(e[1])]
    return [2]


def dec_model_elt(m):
    """Index element as returned by wire_65 -> the elt encoding of the fixtures."""
    if m[0] == 0:
        o = [x[0] if x else None for x in m[1:4]]
        return ['s'] + o
    if m[0] == 1:
        return ['i', m[1]]
    return ['o']


def rnd_raw_bound(rng, n):
    r = rng.random()
    if r < 0.15:
        return None
    if r < 0.35:
        return rng.randint(-n - 2, -1)
    if r < 0.45:
        return n + rng.randint(0, 2)
    return rng.randint(0, n)


def rnd_elt(rng, n, malformed=False):
    if malformed:
        k = rng.choice(['step', 'step', 'int', 'other'])
        if k == 'step':
            return ['s', rnd_raw_bound(rng, n), rnd_raw_bound(rng, n), rng.choice([2, -1, 0, 3])]
        if k == 'int':
            return ['i', rng.randint(-n, n - 1)]
        return ['o']
    r = rng.random()
    if r < 0.15:
        return ['s', None, None, rng.choice([None, 1])]
    if r < 0.65:    # mostly a non-empty, in-range window
        a, b = sorted(rng.sample(range(n + 1), 2)) if n >= 1 else (0, 0)
        return ['s', a, b, rng.choice([None, None, 1])]
    if r < 0.75:    # empty on a possible chunk boundary
        a = rng.randint(0, n)
        return ['s', a, a, None]
    return ['s', rnd_raw_bound(rng, n), rnd_raw_bound(rng, n), rng.choice([None, 1])]


def elt_kind(e):
    if e[0] != 's':
        return 'nonslice'
    if e[3] not in (None, 1):
        return 'step'
    if e[1] is None and e[2] is None:
        return 'full'
    if (e[1] is not None and e[1] < 0) or (e[2] is not None and e[2] < 0):
        return 'negative'
    if e[1] is None or e[2] is None:
        return 'open'
    return 'plain'


def tie_prune_raw(ctx, given=None):
    """_prune_chunks as a whole (index normalisation, unit-step test, per-axis pruning, error branch) against
    prune_chunks, on N-d chunk specs and raw index tuples; a malformed stream must be refused by both."""
    from katdal.chunkstore import _prune_chunks
    from fixtures.c06store import dec_elt
    rng = ctx.rng
    cases = [(c['chunks'], c['index'], False) for c in given] if given else []
    for _ in range(0 if given else ctx.scale(700, 8000)):
        ndim = rng.randint(1, 3)
        dims = [rng.randint(1, 12) for _ in range(ndim)]
        chunks = [rnd_chunks(rng, n) for n in dims]
        mal = rng.random() < 0.25
        k = rng.randint(0, ndim)
        idx = [rnd_elt(rng, dims[i]) for i in range(k)]
        if mal:
            if rng.random() < 0.3:
                idx = [rnd_elt(rng, dims[i]) for i in range(ndim)] + [['s', None, None, None]] * rng.randint(1, 2)
            else:
                j = rng.randint(0, ndim - 1)
                idx = [rnd_elt(rng, dims[i]) for i in range(max(k, j + 1))]
                idx[j] = rnd_elt(rng, dims[j], malformed=True)
        cases.append((chunks, idx, mal))
    mouts = ctx.model([[64, [c, [enc_elt(e) for e in idx]]] for c, idx, _ in cases]) if ctx.model_ok else []
    for (chunks, idx, mal), m in zip(cases, mouts):
        case = dict(chunks=chunks, index=idx, kind='prune_raw')
        try:
            ch, ix, off = _prune_chunks(tuple(tuple(c) for c in chunks), tuple(dec_elt(e) for e in idx))
            impl = [[list(map(int, c)), [] if i == slice(None) else [int(i.start), int(i.stop)], int(o)]
                    for c, i, o in zip(ch, ix, off)]
        except Exception as e:     # noqa: BLE001
            impl = 'raises:' + type(e).__name__
        ctx.count('prune_raw=' + ('malformed' if mal else 'valid'))
        for e in idx:
            ctx.count('prune_raw_elt=' + elt_kind(e))
        if m == [-999]:
            if not isinstance(impl, str):
                ctx.disagree('tie=prune_chunks_raw;symptom=malformed_index_answered', case, impl, m,
                             '_prune_chunks answered an index the model refuses', kind='tie')
        elif impl != m:
            ctx.disagree('tie=prune_chunks_raw;symptom=%s' % ('raises' if isinstance(impl, str) else 'differs'), case, impl, m,
                         '_prune_chunks differs from prune_chunks on a raw index', kind='tie')
    ctx.extra['prune_raw_cases_vs_impl'] = len(mouts)


def tie_preselect(ctx, given=None):
    """TelstateDataSource(preselect=...) accepts / refuses exactly as preselect_index does (validation only: no store)."""
    import katsdptelstate
    from katdal.datasources import TelstateDataSource
    from fixtures.c06store import dec_elt
    rng = ctx.rng
    view = katsdptelstate.TelescopeState().view('c06')
    cases = [c['preselect'] for c in given] if given else []
    for _ in range(0 if given else ctx.scale(300, 3000)):
        keys = rng.choice([[], ['dumps'], ['channels'], ['dumps', 'channels'], ['channels', 'dumps']])
        pre = [[k, rnd_elt(rng, 6)] for k in keys]
        r = rng.random()
        if r < 0.2 and pre:
            pre[rng.randrange(len(pre))][1] = rnd_elt(rng, 6, malformed=True)
        elif r < 0.35:
            pre.insert(rng.randint(0, len(pre)), [rng.choice(['ants', 'dump', 'corrprods', 'Channels', 'spw']), rnd_elt(rng, 6)])
        cases.append(pre)
    mouts = ctx.model([[65, [[[ord(c) for c in k], enc_elt(e)] for k, e in pre]] for pre in cases]) if ctx.model_ok else []
    for pre, m in zip(cases, mouts):
        try:
            src = TelstateDataSource(view, 'cb', 'sdp_l0', chunk_store=None, timestamps=np.arange(6.),
                                     preselect={k: dec_elt(e) for k, e in pre})
            impl = 'accepted'
            nts = len(src.timestamps)
        except IndexError:
            impl = 'IndexError'
        except Exception as e:     # noqa: BLE001
            impl = 'raises:' + type(e).__name__
        want = 'IndexError' if m == [-999] else 'accepted'
        ctx.count('preselect=' + want)
        if impl != want:
            ctx.disagree('tie=preselect;impl=%s;model=%s' % (impl.split(':')[0], want), dict(preselect=pre, kind='preselect'),
                         impl, want, 'TelstateDataSource validates preselect differently from preselect_index', kind='tie')
        elif want == 'accepted' and pre:
            d = dict(pre)
            e = d.get('dumps', ['s', None, None, None])
            if nts != len(range(6)[slice(e[1], e[2], e[3])]):
                ctx.disagree('tie=preselect;symptom=timestamps', dict(preselect=pre, kind='preselect'), nts, None,
                             'number of timestamps differs from the preselected dumps', kind='tie')
    ctx.extra['preselect_cases_vs_impl'] = len(mouts)


def classify_block(obj, stored, name):
    from katdal.chunkstore import PlaceholderChunk
    if isinstance(obj, Exception):
        return [3], None
    if isinstance(obj, PlaceholderChunk):
        return [1], tuple(obj.shape)
    a = np.asarray(obj)
    if a.shape == stored.shape and np.array_equal(a, stored):
        return [0], a.shape
    if a.size and np.all(a == a.flat[0]) and float(a.flat[0].real) == int(a.flat[0].real):
        return [2, int(a.flat[0].real)], a.shape
    return ['other'], a.shape


def tie_getters(ctx):
    """get_dask_array(errors=...) block by block on a store with absent chunks, against read_block / getter_of;
    also the shape of every block (PlaceholderChunk.__getitem__ included) against the prune+slice model."""
    rng = ctx.rng
    n = 0
    for _ in range(ctx.scale(10, 120)):
        case = gen_case(rng, path='vfw', small=True)
        case['nd'] = {k: max(1, max(case['nd'].values())) for k in NAMES}
        for k in NAMES:
            case['chunks'][k][0] = rnd_chunks(rng, case['nd'][k])
            case['lost'][k] = [list(map(int, i)) for i in fx.all_chunk_indices(case['chunks'][k]) if rng.random() < 0.4]
        tmp = fv4.scratch_dir('c06get')
        try:
            store, info, vals = fx.build_store(case, tmp)
            T, F = case['nd']['flags'], case['F']
            for name in rng.sample(NAMES, 2):
                dims = [T, F]
                pre = [rnd_window(rng, T), rnd_window(rng, F)][:rng.choice([0, 1, 2])]
                win = [norm_window(w, d) for w, d in zip(pre, dims)]
                if any(w and w[0] == w[1] for w in win):
                    continue
                index = fx.to_slices(pre)
                ch = case['chunks'][name]
                mch = ctx.model([[62, [c, w]] if w else [62, [c, [0, sum(c)]]] for c, w in
                                 zip(ch, win + [[]] * (len(ch) - len(win)))]) if ctx.model_ok else None
                for errors in ['placeholder', 'dryrun', 'raise', 0, 8, 5, 'ignore', '', 'Raise']:
                    is_str = isinstance(errors, str)
                    try:
                        blocks, arr = fx.blocks_under(store, info, name, index, errors)
                    except ValueError:
                        blocks, arr = None, None
                    except Exception as e:     # noqa: BLE001
                        ctx.disagree('tie=getters;errors=%r;symptom=raises:%s' % (errors, type(e).__name__),
                                     dict(case, kind='getters', array=name, index_pre=pre), repr(e)[:200], None,
                                     'get_dask_array raised', kind='tie')
                        continue
                    queries = []
                    metas = []
                    if blocks is None:
                        queries.append([66, [int(is_str), [ord(c) for c in errors] if is_str else [], 0 if is_str else errors, 1]])
                        metas.append(None)
                    else:
                        full = vals[name]
                        sel = full[index]
                        offs = [fx.offsets(c) for c in arr.chunks]
                        # which stored chunk is behind each block: through the chunk that contains its first element
                        glo = [w[0] if w else 0 for w in win] + [0] * (full.ndim - len(win))
                        for bi, obj in blocks:
                            sl = tuple(slice(int(o[i]), int(o[i + 1])) for o, i in zip(offs, bi))
                            first = [g + s.start for g, s in zip(glo, sl)]
                            cidx = [int(np.searchsorted(np.cumsum(c), f, side='right')) for c, f in zip(ch, first)]
                            present = cidx not in case['lost'][name]
                            queries.append([66, [int(is_str), [ord(c) for c in errors] if is_str else [],
                                                 0 if is_str else errors, int(present)]])
                            metas.append((bi, obj, sel[sl], tuple(s.stop - s.start for s in sl)))
                    mo = ctx.model(queries) if ctx.model_ok else []
                    for q, meta, m in zip(queries, metas, mo):
                        n += 1
                        ctx.count('getters_errors=%r' % (errors,))
                        if meta is None:
                            if m != [3]:
                                ctx.disagree('tie=getters;errors=%r;symptom=valueerror' % (errors,),
                                             dict(case, kind='getters', array=name, index_pre=pre), 'ValueError', m,
                                             'get_dask_array refuses an errors value the model accepts', kind='tie')
                            continue
                        bi, obj, stored, shp = meta
                        got, gshape = classify_block(obj, stored, name)
                        if got == [0] and len(m) == 2 and m[0] == 2 and np.all(np.asarray(stored) == m[1]):
                            got = m      # the stored values happen to equal the fill value: indistinguishable
                        if got != m:
                            ctx.disagree('tie=getters;errors=%r;block=%s;model=%s' % (errors, got[0], m[0]),
                                         dict(case, kind='getters', array=name, index_pre=pre, block=list(bi)), got, m,
                                         'a block of get_dask_array(errors=...) is not what read_block says', kind='tie')
                        elif gshape is not None and tuple(gshape) != shp:
                            ctx.disagree('tie=getters;errors=%r;symptom=block_shape' % (errors,),
                                         dict(case, kind='getters', array=name, index_pre=pre, block=list(bi)), list(gshape),
                                         list(shp), 'shape of a (placeholder) block differs from the sliced chunk', kind='tie')
                if mch is not None and arr is not None:
                    pass
        finally:
            fx.rmtree(tmp)
    ctx.extra['getter_blocks_vs_impl'] = n


def tie_apply_data_lost(ctx, given=None):
    """_apply_data_lost called directly: arbitrary (chunk, slices) lists, placeholder and present chunks mixed, against
    apply_data_lost; the input array must not be modified."""
    from katdal.chunkstore import PlaceholderChunk
    from katdal.vis_flags_weights import _apply_data_lost
    rng = ctx.rng
    cases = [(c['orig'], c['shape'], c['lost']) for c in given] if given else []
    for _ in range(0 if given else ctx.scale(250, 2500)):
        nd_ = rng.randint(1, 3)
        shape = [rng.randint(1, 4) for _ in range(nd_)]
        orig = [rng.randint(0, 255) for _ in range(int(np.prod(shape)))]
        lost = []
        for _ in range(rng.choice([0, 0, 1, 2, 3, 5])):
            sl = []
            for d in shape:
                a, b = sorted((rng.randint(0, d), rng.randint(0, d)))
                sl.append([a, b])
            lost.append([int(rng.random() < 0.6), sl])
        cases.append((orig, shape, lost))
    mouts = ctx.model([[69, [o, sh, l]] for o, sh, l in cases]) if ctx.model_ok else []
    for (orig, shape, lost), m in zip(cases, mouts):
        arr = np.array(orig, np.uint8).reshape(shape)
        keep = arr.copy()
        flat = []
        for ph, sl in lost:
            sls = tuple(slice(a, b) for a, b in sl)
            flat += [PlaceholderChunk(tuple(shape), np.uint8, 'x') if ph else np.zeros(shape, np.uint8), sls]
        case = dict(orig=orig, shape=shape, lost=lost, kind='apply_data_lost')
        try:
            res = _apply_data_lost(arr, flat)
        except Exception as e:     # noqa: BLE001
            ctx.disagree('tie=apply_data_lost;symptom=raises:%s' % type(e).__name__, case, repr(e)[:200], None,
                         '_apply_data_lost raised', kind='tie')
            continue
        ctx.count('apply_data_lost=%s' % ('none' if not lost else 'placeholder' if any(p for p, _ in lost) else 'present-only'))
        if not np.array_equal(arr, keep):
            ctx.disagree('obs=flags;what=apply_data_lost;symptom=input_modified', case, arr.ravel().tolist(), orig,
                         '_apply_data_lost modified the stored flags chunk it was given')
        got = np.asarray(res).astype(np.int64).ravel().tolist()
        if got != m:
            bad = [i for i, (x, y) in enumerate(zip(got, m)) if x != y][:1]
            ctx.disagree('obs=flags;what=apply_data_lost;symptom=%s' % classify('flags', np.array(got), np.array(m)), case,
                         dict(at=bad, impl=got, expected=m), m, '_apply_data_lost differs from apply_data_lost')
    ctx.extra['apply_data_lost_cases_vs_impl'] = len(mouts)


def rnd_info(rng, nd_, F, B, ndim=3):
    shape = [nd_, F, B][:ndim]
    return [shape, [rnd_chunks(rng, n) for n in shape]]


def tie_chunk_info(ctx, given=None):
    """_upgrade_chunk_info + _align_chunk_info on chunk_info dicts (shape and chunks fields; mismatching trailing shapes
    and records whose shape field disagrees with the chunks as the malformed stream) against source_info."""
    import copy
    from katdal.datasources import _align_chunk_info, _upgrade_chunk_info
    rng = ctx.rng
    cases = [(c['l0'], c['l1']) for c in given] if given else []
    for _ in range(0 if given else ctx.scale(300, 3000)):
        F, B = rng.randint(1, 5), rng.randint(1, 4)
        T = rng.randint(1, 8)
        l0 = []
        for k in NAMES:
            n = T if rng.random() < 0.6 else max(1, T + rng.randint(-3, 3))
            l0.append(rnd_info(rng, n, F, B, 2 if k == 'weights_channel' else 3))
        l1 = []
        r = rng.random()
        if r < 0.6:
            n1 = max(1, T + rng.randint(-3, 4))
            l1 = rnd_info(rng, n1, F, B)
            if rng.random() < 0.15:
                l1 = rnd_info(rng, n1, F + rng.choice([0, 1]), B + rng.choice([1, 2]))
        if rng.random() < 0.1:     # shape field not the sum of the chunks: the code believes the shape field
            i = rng.randrange(4)
            l0[i][0] = [l0[i][0][0] + rng.choice([-1, 1, 2])] + l0[i][0][1:]
        cases.append((l0, l1))
    mouts = ctx.model([[68, [l0, l1]] for l0, l1 in cases]) if ctx.model_ok else []
    for (l0, l1), m in zip(cases, mouts):
        def mk(i):
            return {'prefix': 'p', 'dtype': '<f4', 'shape': tuple(i[0]), 'chunks': tuple(tuple(c) for c in i[1])}
        info = {k: mk(i) for k, i in zip(NAMES, l0)}
        case = dict(l0=l0, l1=l1, kind='chunk_info')
        ctx.count('chunk_info=' + ('l0-only' if not l1 else 'flags-longer' if l1[0][0] > max(i[0][0] for i in l0) else
                                   'flags-shorter-or-equal'))
        try:
            if l1:
                info = _upgrade_chunk_info(info, {'flags': mk(l1)})
            info = _align_chunk_info(copy.deepcopy(info))
            impl = [[list(map(int, info[k]['shape'])), [list(map(int, c)) for c in info[k]['chunks']]] for k in NAMES]
        except ValueError:
            impl = [-999]
        except Exception as e:     # noqa: BLE001
            impl = 'raises:' + type(e).__name__
        if impl != m:
            sym = 'refusal' if (impl == [-999] or m == [-999]) else 'raises' if isinstance(impl, str) else \
                'dumps' if [i[0][0] for i in impl] != [i[0][0] for i in m] else 'chunks'
            ctx.disagree('tie=chunk_info;symptom=%s' % sym, case, impl, m,
                         '_upgrade_chunk_info / _align_chunk_info differ from source_info', kind='tie')
    ctx.extra['chunk_info_cases_vs_impl'] = len(mouts)


def tie_view_store_get(ctx, given=None):
    """DictChunkStore.get_chunk (a store that serves views): found / ChunkNotFound / BadChunk against dict_get_chunk."""
    from katdal.chunkstore import BadChunk, ChunkNotFound
    from katdal.chunkstore_dict import DictChunkStore
    rng = ctx.rng
    cases = [(c['shape'], c['slices']) for c in given] if given else []
    for _ in range(0 if given else ctx.scale(400, 4000)):
        shape = [rng.randint(1, 5) for _ in range(rng.randint(1, 3))]
        sl = []
        for n in shape:
            r = rng.random()
            if r < 0.6:
                a, b = sorted((rng.randint(0, n), rng.randint(0, n)))
            elif r < 0.8:
                a = n + rng.randint(0, 2)
                b = a + rng.randint(0, 2)
            else:
                a = rng.randint(0, n)
                b = n + rng.randint(0, 2)
            sl.append([a, b])
        cases.append((shape, sl))
    mouts = ctx.model([[601, [sh, sl]] for sh, sl in cases]) if ctx.model_ok else []
    for (shape, sl), m in zip(cases, mouts):
        arr = np.arange(int(np.prod(shape)), dtype=np.int32).reshape(shape)
        store = DictChunkStore(x=arr)
        slices = tuple(slice(a, b) for a, b in sl)
        try:
            ch = store.get_chunk('x', slices, arr.dtype)
            impl = 0 if (np.array_equal(ch, arr[slices]) and (ch.size == 0 or np.shares_memory(ch, arr))) else 'copy'
        except ChunkNotFound:
            impl = 1
        except BadChunk:
            impl = 2
        except Exception as e:     # noqa: BLE001
            impl = 'raises:' + type(e).__name__
        ctx.count('view_get=' + {0: 'found', 1: 'not_found', 2: 'malformed'}.get(m, str(m)))
        if impl != m:
            ctx.disagree('tie=view_store_get;impl=%s;model=%s' % (impl, m), dict(shape=shape, slices=sl, kind='view_get'), impl, m,
                         'DictChunkStore.get_chunk differs from dict_get_chunk', kind='tie')
    ctx.extra['view_store_get_cases_vs_impl'] = len(mouts)


# ---- processing options between the chunk store and the user (van_vleck, weight power scaling, applycal)

def gen_option_case(rng, path=None):
    path = path or rng.choice(['vfw', 'vfw', 'source', 'v4'])
    T, F = rng.randint(2, 4), rng.randint(1, 3)
    if path == 'v4':
        ants = rng.choice([['m000'], ['m000', 'm001']])
        prods = [list(p) for p in fv4.bls_ordering_for(ants)]
    else:
        ants = []
        n_in = rng.choice([1, 2, 2])
        labels = ['m000h', 'm000v'][:n_in]
        prods = [[a, a] for a in labels] + [[a, b] for a in labels for b in labels if a != b and rng.random() < 0.8]
        prods += [[labels[0], labels[0]]] if rng.random() < 0.2 else []      # a repeated autocorrelation: the last one counts
        rng.shuffle(prods)
    B = len(prods)
    chunks = {k: [rnd_chunks(rng, T), rnd_chunks(rng, F)] + ([] if k == 'weights_channel' else [rnd_chunks(rng, B)])
              for k in NAMES}
    p = rng.choice([0.15, 0.3, 0.5, 1.0])
    only = rng.choice(list(NAMES) + ['correlator_data', 'correlator_data', None, None, None])
    lost = {k: [list(map(int, i)) for i in fx.all_chunk_indices(chunks[k])
                if rng.random() < (p if only in (None, k) else 0.0)] for k in NAMES}
    pre = []
    for n in [T, F][:rng.choice([0, 0, 1, 2])]:
        a, b = sorted(rng.sample(range(n + 1), 2))
        pre.append([a, b] if rng.random() < 0.8 else None)
    applycal = bool(path == 'v4' and rng.random() < 0.5)
    scaled = True if applycal else rng.random() < 0.45
    return dict(kind='options', path=path, T=T, F=F, B=B, ants=ants, prods=prods, chunks=chunks, lost=lost, pre=pre,
                van_vleck=rng.choice(['off', 'autocorr', 'autocorr']), scaled=scaled, applycal=applycal,
                seed=rng.randint(0, 10 ** 6), nd={k: T for k in NAMES}, l1=False)


def _option_loader(case, tmp):
    """Returns (load() -> dict(vis, weights, flags), lose()): the same reader store serves both loads."""
    import dask
    from katdal.chunkstore_npy import NpyFileChunkStore
    from katdal.vis_flags_weights import ChunkStoreVisFlagsWeights
    from katdal.datasources import TelstateDataSource
    vals = fx.make_values(case)
    pre = case['pre']
    if case['path'] == 'v4':
        from fixtures import c13cal
        kw = dict(van_vleck=case['van_vleck'])
        pk = {}
        if len(pre) > 0 and pre[0] is not None:
            pk['dumps'] = slice(pre[0][0], pre[0][1])
        if len(pre) > 1 and pre[1] is not None:
            pk['channels'] = slice(pre[1][0], pre[1][1])
        if pk:
            kw['preselect'] = pk
        okw = {}
        extra = {}
        if case['applycal']:
            ants = case['ants']
            g = [[[2, 0] if (i + j) % 2 == 0 else [0, 4] for j in range(len(ants))] for i in range(2)]
            cal = dict(antlist=ants, pol_ordering=['h', 'v'], center_freq=1284e6, bandwidth=856e6 / 1024 * case['F'],
                       n_chans=case['F'], products={'G': [[-1, g]]})
            extra = dict(telstate_hook=c13cal.cal_hook(cal), archived_override=['sdp_l0', 'cal'])
            okw = dict(applycal=['l1.G'])
        x = fv4.build_v4(T=case['T'], F=case['F'], ants=tuple(case['ants']), arrays={k: vals[k] for k in NAMES},
                         chunks={k: tuple(tuple(c) for c in case['chunks'][k]) for k in NAMES}, tmp=tmp,
                         seed=case['seed'], need_weights_power_scale=not case['scaled'], source_kwargs=kw,
                         open_kwargs=okw, acts=((0, 'track'),), construct=False, **extra)
        store, info = x.store, x.chunk_info

        def load():
            with dask.config.set(scheduler='sync'):
                d = fv4.reopen(x, kw, okw)
                return dict(vis=np.asarray(d.vis[:]), weights=np.asarray(d.weights[:]), flags=np.asarray(d.raw_flags[:]))
    else:
        store = NpyFileChunkStore(tmp)
        info = {k: fx.write_array(store, 'cb-sdp-l0', k, vals[k], case['chunks'][k], []) for k in NAMES}
        prods = [tuple(p) for p in case['prods']]
        if case['path'] == 'vfw':
            def load():
                with dask.config.set(scheduler='sync'):
                    v = ChunkStoreVisFlagsWeights(store, {k: dict(i) for k, i in info.items()}, corrprods=prods,
                                                  stored_weights_are_scaled=case['scaled'], van_vleck=case['van_vleck'],
                                                  preselect_index=fx.to_slices(pre))
                    return dict(vis=v.vis.compute(), weights=v.weights.compute(), flags=v.flags.compute())
        else:
            import katsdptelstate
            from katdal.datasources import view_l0_capture_stream
            ts = katsdptelstate.TelescopeState()
            cs = ts.view(ts.join('cb', 'sdp_l0'))
            sv = ts.view('sdp_l0')
            cs['chunk_info'] = info
            cs['first_timestamp'] = 10.0
            sv['sync_time'] = 1600000000.0
            sv['int_time'] = 2.0
            sv['bls_ordering'] = np.array(prods)
            sv['need_weights_power_scale'] = not case['scaled']
            sv['stream_type'] = 'sdp.vis'
            ts['sdp_archived_streams'] = ['sdp_l0']
            view, cbid, sn = view_l0_capture_stream(ts, 'cb', 'sdp_l0')
            pk = {}
            if len(pre) > 0 and pre[0] is not None:
                pk['dumps'] = slice(pre[0][0], pre[0][1])
            if len(pre) > 1 and pre[1] is not None:
                pk['channels'] = slice(pre[1][0], pre[1][1])

            def load():
                with dask.config.set(scheduler='sync'):
                    v = TelstateDataSource(view, cbid, sn, chunk_store=store, van_vleck=case['van_vleck'],
                                           preselect=pk or None).data
                    return dict(vis=v.vis.compute(), weights=v.weights.compute(), flags=v.flags.compute())

    def lose():
        import os
        for k in NAMES:
            i = info[k]
            for idx in case['lost'].get(k, []):
                sl = fx.chunk_slices([list(c) for c in i['chunks']], idx)
                os.remove(os.path.join(store.path, i['prefix'], k, '_'.join('%05d' % s.start for s in sl) + '.npy'))
    return load, lose, vals


def auto_positions(prods):
    """corrprod_to_autocorr as the property needs it: position of the LAST (a, a) product per input"""
    pos = {}
    for i, (a, b) in enumerate(prods):
        if a == b:
            pos[a] = i
    return [pos[a] for a, _ in prods], [pos[b] for _, b in prods]


def check_option_case(ctx, case, tag='c06opt'):
    tmp = fv4.scratch_dir(tag)
    feats = 'options;path=%s;vv=%s;scaled=%d;applycal=%d' % (case['path'], case['van_vleck'], int(case['scaled']),
                                                              int(case['applycal']))
    try:
        try:
            load, lose, vals = _option_loader(case, tmp)
            r0 = load()
            lose()
            r = load()
        except Exception as e:     # noqa: BLE001
            ctx.disagree('%s;symptom=raises:%s' % (feats, type(e).__name__), case, repr(e)[:300], None,
                         'loading a store with absent chunks raised under a processing option')
            return None
    finally:
        fx.rmtree(tmp)
    pys, anylost = py_spec(case, vals)
    # masks inside the window
    T, F, B = case['T'], case['F'], case['B']
    miss = {}
    for k in NAMES:
        m = np.zeros((T, F) if k == 'weights_channel' else (T, F, B), bool)
        for idx in case['lost'].get(k, []):
            m[fx.chunk_slices(case['chunks'][k], idx)] = True
        miss[k] = m
    sel = tuple(slice(None) if w is None else slice(w[0], w[1]) for w in case['pre'])
    sel = sel + (slice(None),) * (2 - len(sel))
    mv = miss['correlator_data'][sel]
    mw = (miss['weights'] | miss['weights_channel'][..., None])[sel]
    i1, i2 = auto_positions(case['prods'])
    a1, a2 = mv[..., i1], mv[..., i2]
    have_corrprods = 1
    combos = sorted({(int(v), int(x), int(y), int(w)) for v, x, y, w in zip(mv.ravel(), a1.ravel(), a2.ravel(), mw.ravel())})
    mo = ctx.model([[60, [have_corrprods, int(case['scaled'])] + list(c)] for c in combos]) if ctx.model_ok else None
    if mo is None:
        divided = not case['scaled']
        table = {c: [0 if c[0] else 1, 0 if c[3] else (1 if divided and (c[1] or c[2]) else 2), 1, 2 ** 32] for c in combos}
    else:
        table = dict(zip(combos, mo))
    vcls = np.array([table[(int(v), int(x), int(y), int(w))][0] for v, x, y, w in
                     zip(mv.ravel(), a1.ravel(), a2.ravel(), mw.ravel())]).reshape(mv.shape)
    wcls = np.array([table[(int(v), int(x), int(y), int(w))][1] for v, x, y, w in
                     zip(mv.ravel(), a1.ravel(), a2.ravel(), mw.ravel())]).reshape(mv.shape)
    num, den = (table[combos[0]][2], table[combos[0]][3]) if combos else (1, 2 ** 32)
    bad = np.float32(num) / np.float32(den)
    if r['vis'].shape != mv.shape or r0['vis'].shape != mv.shape or r['weights'].shape != mv.shape or r['flags'].shape != mv.shape:
        ctx.disagree('%s;symptom=shape' % feats, case, [list(r['vis'].shape), list(r['weights'].shape), list(r['flags'].shape)],
                     list(mv.shape), 'shape of a load under processing options')
        return None
    # visibilities: exactly zero where their own chunk is lost, as without the loss elsewhere
    ev = np.where(vcls == 0, np.complex64(0), r0['vis'])
    if not np.array_equal(r['vis'], ev):
        at = np.argwhere(r['vis'] != ev)[0].tolist()
        sym = 'lost_not_zeroed' if vcls[tuple(at)] == 0 else 'present_changed'
        ctx.disagree('%s;obs=vis;symptom=%s' % (feats, sym), case,
                     dict(at=at, impl=repr(r['vis'][tuple(at)]), expected=repr(ev[tuple(at)]), product=case['prods'][at[2]]),
                     None, 'visibilities of a load with lost chunks under van_vleck=%s' % case['van_vleck'],
                     spec=dict(at=at, expected=repr(ev[tuple(at)])))
    # weights: zero / bad_weight * stored weight / as without the loss
    sw = (vals['weights'].astype(np.float32) * vals['weights_channel'][..., None])[sel]
    ew = np.where(wcls == 0, np.float32(0), np.where(wcls == 1, bad * sw, r0['weights'])).astype(np.float32)
    if not np.array_equal(np.asarray(r['weights'], np.float32), ew):
        at = np.argwhere(np.asarray(r['weights'], np.float32) != ew)[0].tolist()
        sym = {0: 'lost_not_zeroed', 1: 'not_the_bad_weight', 2: 'present_changed'}[int(wcls[tuple(at)])]
        ctx.disagree('%s;obs=weights;symptom=%s' % (feats, sym), case,
                     dict(at=at, impl=float(r['weights'][tuple(at)]), expected=float(ew[tuple(at)]), product=case['prods'][at[2]]),
                     None, 'weights of a load with lost chunks (stored_weights_are_scaled=%s)' % case['scaled'],
                     spec=dict(at=at, expected=float(ew[tuple(at)])))
    # flags: the options do not touch them
    fl = np.asarray(r['flags']).astype(np.int64)
    if not np.array_equal(fl, pys['flags']):
        ctx.disagree('%s;obs=flags;symptom=%s' % (feats, classify('flags', fl, pys['flags'])), case,
                     first_bad(fl, pys['flags']), None, 'flags of a load with lost chunks under processing options',
                     spec=first_bad(fl, pys['flags']))
    ctx.traces_validated += 1
    return bool(anylost.any())


def tie_options(ctx, given=None):
    rng = ctx.rng
    cases = list(given) if given else [gen_option_case(rng) for _ in range(ctx.scale(26, 300))] + \
        [gen_option_case(rng, path='v4') for _ in range(ctx.scale(4, 40))]
    for case in cases:
        nt = check_option_case(ctx, case)
        ctx.note_case(('options', repr(sorted(case.items(), key=lambda kv: kv[0]))), nontrivial=bool(nt),
                      sample=dict(kind='options', path=case['path'], van_vleck=case['van_vleck'], scaled=case['scaled'],
                                  applycal=case['applycal'], prods=case['prods'], chunks=case['chunks']))
        ctx.count('options_path=' + case['path'])
        ctx.count('options_van_vleck=' + case['van_vleck'])
        ctx.count('options_scaled=%d' % int(case['scaled']))
        ctx.count('options_applycal=%d' % int(case['applycal']))
        ctx.count('options_lost_vis=%d' % int(bool(case['lost']['correlator_data'])))
    ctx.extra['option_cases_vs_impl'] = len(cases)


# ---- histories

def gen_history(rng, small=True):
    path = rng.choice(['vfw', 'vfw', 'source'])
    case = gen_case(rng, path=path, small=small)
    case.pop('lost', None)
    case.pop('pre', None)
    case['kind'] = 'history'
    T, F = max(case['nd'].values()), case['F']
    allidx = {k: [list(map(int, i)) for i in fx.all_chunk_indices(case['chunks'][k])] for k in NAMES}
    p0 = rng.choice([0.0, 0.0, 0.15, 0.4])
    case['absent0'] = {k: [i for i in allidx[k] if rng.random() < p0] for k in NAMES}
    steps = []
    absent = {k: [list(i) for i in case['absent0'][k]] for k in NAMES}

    def rnd_index(malformed=False):
        if path == 'source':
            keys = rng.choice([[], ['dumps'], ['channels'], ['dumps', 'channels']])
            d = {k: rnd_elt(rng, T if k == 'dumps' else F) for k in keys}
            if malformed and d:
                k = rng.choice(sorted(d))
                d[k] = rnd_elt(rng, T if k == 'dumps' else F, malformed=True)
            elif malformed:
                d['scans'] = ['s', None, None, None]
            return d
        k = rng.choice([0, 1, 2, 2])
        idx = [rnd_elt(rng, [T, F][i]) for i in range(k)]
        if malformed:
            if rng.random() < 0.3:
                idx = [rnd_elt(rng, T), rnd_elt(rng, F), ['s', None, None, None]]     # weights_channel has two axes
            else:
                idx = [rnd_elt(rng, T), rnd_elt(rng, F)]
                idx[rng.randrange(2)] = rnd_elt(rng, T, malformed=True)
        return idx

    ver = 0
    for _ in range(rng.randint(2, 4)):
        # some chunks go, some arrive (possibly with new values), then a load
        for _ in range(rng.choice([0, 1, 2, 4])):
            k = rng.choice([n for n in NAMES if allidx[n]])
            i = rng.choice(allidx[k])
            steps.append(['del', k, i])
            if i not in absent[k]:
                absent[k].append(i)
        cands = [(k, i) for k in NAMES for i in absent[k]]
        rng.shuffle(cands)
        for k, i in cands[:rng.choice([0, 1, 2, 6])]:
            if rng.random() < 0.4 and ver < 2:
                ver += 1
            steps.append(['put', k, i, rng.randint(0, ver)])
            absent[k].remove(i)
        if rng.random() < 0.15:     # a present chunk is overwritten
            k = rng.choice(NAMES)
            pres = [i for i in allidx[k] if i not in absent[k]]
            if pres and ver < 2:
                ver += 1
                steps.append(['put', k, rng.choice(pres), ver])
        steps.append(['load', rnd_index(malformed=rng.random() < 0.08)])
    case['steps'] = steps
    case['versions'] = ver + 1
    return case


def gen_view_history(rng):
    """A history on a DictChunkStore: arrays are absent, hold only their first dumps (trailing dumps missing, by whole
    chunks), arrive or grow later (possibly with new values); every load is followed by a second look."""
    case = gen_history(rng, small=True)
    case['store'] = 'dict'
    case.pop('absent0', None)
    T, F = max(case['nd'].values()), case['F']
    bounds = {k: [0] + [int(x) for x in np.cumsum(case['chunks'][k][0])] for k in NAMES}

    def rnd_held(k):
        r = rng.random()
        return bounds[k][-1] if r < 0.5 else 0 if r < 0.7 else rng.choice(bounds[k])
    case['held0'] = {k: rnd_held(k) for k in NAMES}
    loads = [s for s in case['steps'] if s[0] == 'load']
    steps = []
    ver = 0
    for ld in loads:
        steps.append(ld)
        if rng.random() < 0.5:
            steps.append(ld)                      # the same load again through the same store
        for k in rng.sample(NAMES, rng.choice([1, 1, 2, 4])):
            if rng.random() < 0.3 and ver < 2:
                ver += 1
            steps.append(['arr', k, bounds[k][-1] if rng.random() < 0.6 else rnd_held(k), rng.randint(0, ver)])
        steps.append(['load', ld[1] if rng.random() < 0.5 else ([] if case['path'] == 'vfw' else {})])
    case['steps'] = steps
    case['versions'] = ver + 1
    return case


def history_numpy_spec(case, present, values, index_np):
    """Independent numpy statement of the spec at one point of a history.  present: {array: {chunk index tuple: version}}"""
    Tmax = max(case['nd'].values())
    F, B = case['F'], case['B']
    full, miss = {}, {}
    for k in NAMES:
        shp = (Tmax, F) if k == 'weights_channel' else (Tmax, F, B)
        a = np.zeros(shp, fx.DTYPES[k])
        m = np.ones(shp, bool)
        for idx, ver in present[k].items():
            sl = fx.chunk_slices(case['chunks'][k], idx)
            a[sl] = values[ver][k][sl]
            m[sl] = False
        full[k], miss[k] = a, m
    mv = miss['correlator_data']
    mw = miss['weights'] | miss['weights_channel'][..., None]
    ev = np.where(mv, 0, full['correlator_data'])[index_np]
    ew = np.where(mw, 0, full['weights'].astype(np.float32) * full['weights_channel'][..., None])[index_np]
    ef = (np.where(miss['flags'], 8, full['flags']) | np.where(mv | mw, 8, 0)).astype(np.uint8)[index_np]
    return dict(vis=enc_vis(ev), weights=ew.astype(np.int64), flags=ef.astype(np.int64)), (mv | mw | miss['flags'])[index_np]


def run_history(ctx, case, tag='c06h'):
    """Replays one history through katdal (ONE reader store object) and compares every load with the model."""
    tmp = fv4.scratch_dir(tag)
    feats = 'path=%s;history' % case['path']
    nontrivial = False
    try:
        view = case.get('store') == 'dict'
        h = fx.ViewHistory(case) if view else fx.History(case, tmp)
        if view:
            feats = 'store=dict;' + feats
        nload = 0
        for si, st in enumerate(case['steps']):
            if st[0] == 'del':
                h.delete(st[1], st[2])
                continue
            if st[0] == 'put':
                h.put(st[1], st[2], st[3])
                continue
            if st[0] == 'arr':
                h.set_array(st[1], st[2], st[3])
                continue
            present = {k: {} for k in NAMES}
            for op in h.ops:
                if op[0] == 1:
                    present[NAMES[op[1]]][tuple(self_idx(case, NAMES[op[1]], op[2]))] = op[3]
                else:
                    present[NAMES[op[1]]].pop(tuple(self_idx(case, NAMES[op[1]], op[2])), None)
            index = st[1]
            nload += 1
            where = 'load=%d' % nload
            # ---- model
            if case['path'] == 'source':
                m65 = ctx.model([[65, [[[ord(c) for c in k], enc_elt(e)] for k, e in index.items()]]])[0] if ctx.model_ok else None
                midx = None if (m65 is None or m65 == [-999]) else [dec_model_elt(x) for x in m65]
                np_index = (fx.dec_elt(index.get('dumps', ['s', None, None, None])),
                            fx.dec_elt(index.get('channels', ['s', None, None, None])))
            else:
                midx = index
                np_index = tuple(fx.dec_elt(e) for e in index)
                m65 = 0
            mout = None
            if ctx.model_ok and midx is not None:
                datas = []
                for v in range(case['versions']):
                    vv = h.values(v)
                    datas.append([enc_vis(vv['correlator_data']).ravel().tolist(), vv['flags'].ravel().astype(int).tolist(),
                                  vv['weights'].ravel().astype(int).tolist(), vv['weights_channel'].ravel().astype(int).tolist()])
                mout = ctx.model([[67, [[case['chunks'][k] for k in NAMES], [enc_elt(e) for e in midx], h.ops, datas]]])[0]
            rejected = ctx.model_ok and (m65 == [-999] or mout == [-999])
            ctx.count('history_load=' + ('malformed' if rejected else 'valid'))
            # ---- katdal
            try:
                out, held, _ = h.load(index)
                if view and h.unchanged():
                    ctx.disagree('%s;obs=flags;symptom=store_memory_modified' % feats, case, h.unchanged(), where,
                                 'a load modified arrays owned by the chunk store')
            except Exception as e:     # noqa: BLE001
                if rejected:
                    continue
                ctx.disagree('%s;symptom=raises:%s' % (feats, type(e).__name__), case, repr(e)[:300], where,
                             'a load in a history of the chunk store raised')
                return nontrivial
            try:
                pys, anylost = history_numpy_spec(case, present, h.vals, np_index)
            except Exception:     # noqa: BLE001   (an index numpy itself refuses)
                pys, anylost = None, None
            impl = dict(vis=enc_vis(out['vis']), weights=np.rint(np.asarray(out['weights']).astype(np.float64)).astype(np.int64),
                        flags=np.asarray(out['flags']).astype(np.int64))
            if rejected:
                # the property only demands that a malformed index is not answered wrongly
                for obs in ('vis', 'weights', 'flags'):
                    if pys is None or impl[obs].shape != pys[obs].shape or not np.array_equal(impl[obs], pys[obs]):
                        ctx.disagree('%s;obs=%s;symptom=malformed_index_answered_wrongly' % (feats, obs), case, where, None,
                                     'an index the model refuses was answered with data that is not the selection')
                continue
            if out['vis'].size:
                check_dtypes(ctx, feats, case, out, None)
            if mout is None:
                model = spec = None
            else:
                shape = pys['vis'].shape
                if tuple(mout[0]) != shape and not (int(np.prod(mout[0])) == 0 and int(np.prod(shape)) == 0):
                    ctx.disagree('%s;symptom=model_shape' % feats, case, list(shape), list(mout[0]),
                                 'model window shape differs (%s)' % where, kind='tie')
                    return nontrivial
                model = dict(vis=mout[2], weights=mout[4], flags=mout[6])
                spec = dict(vis=mout[3], weights=mout[5], flags=mout[7])
                io = dict(vis=mout[8], weights=mout[9], flags=mout[10])
            if case['path'] == 'source' and midx is not None and held != tuple(fx.dec_elt(e) for e in midx):
                ctx.disagree('%s;symptom=preselect_index' % feats, case, repr(held), midx,
                             'preselect_index held by katdal differs from the model (%s)' % where, kind='tie')
            for obs in ('vis', 'weights', 'flags'):
                shape = pys[obs].shape
                if impl[obs].shape != shape or not np.array_equal(impl[obs], pys[obs]):
                    ctx.disagree('%s;obs=%s;symptom=%s' % (feats, obs, 'shape' if impl[obs].shape != shape else
                                                           classify(obs, impl[obs], pys[obs])), case,
                                 dict(first_bad(impl[obs], pys[obs]), load=nload), None,
                                 'katdal differs from the spec on %s at %s of a history' % (obs, where),
                                 spec=first_bad(impl[obs], pys[obs]))
                if model is None:
                    continue
                mm = np.array(model[obs], dtype=np.int64).reshape(shape)
                ss = np.array(spec[obs], dtype=np.int64).reshape(shape)
                ii = np.array([x[0] if x else -10 ** 9 for x in io[obs]], dtype=np.int64).reshape(shape)
                if not np.array_equal(ss, pys[obs]):
                    ctx.disagree('%s;obs=%s;symptom=coq_spec_vs_numpy_spec' % (feats, obs), case,
                                 dict(first_bad(pys[obs], ss), load=nload), None,
                                 'extracted spec differs from the numpy statement of the spec', kind='tie')
                if impl[obs].shape == shape and not np.array_equal(impl[obs], mm):
                    ctx.disagree('%s;obs=%s;tie;symptom=%s' % (feats, obs, classify(obs, impl[obs], mm)), case,
                                 dict(first_bad(impl[obs], mm), load=nload), None,
                                 'katdal differs from the model on %s at %s of a history' % (obs, where), kind='tie')
                if not np.array_equal(ii, mm):
                    ctx.disagree('%s;obs=%s;symptom=io_model' % (feats, obs), case, dict(first_bad(ii, mm), load=nload), None,
                                 'getter-level model differs from the core model', kind='tie')
            ctx.traces_validated += 1
            if anylost is not None and anylost.any():
                nontrivial = True
    finally:
        fx.rmtree(tmp)
    return nontrivial


def self_idx(case, name, ident):
    """chunk index tuple from the chunk's start coordinates"""
    return [fx.offsets(c).index(s) for c, s in zip(case['chunks'][name], ident)]


def canon_history(case):
    return ('history', case['F'], case['B'], sorted(case['nd'].items()), sorted((k, v) for k, v in case['chunks'].items()),
            sorted((k, v) for k, v in case.get('absent0', case.get('held0', {})).items()), repr(case['steps']), case['path'],
            case.get('l1'), case.get('store'), case.get('layout'), case.get('decoy'), repr(case.get('others')))


def run_histories(ctx, cases, tag='c06h'):
    for case in cases:
        nt = run_history(ctx, case, tag)
        nput = sum(1 for s in case['steps'] if s[0] in ('put', 'arr'))
        ndel = sum(1 for s in case['steps'] if s[0] == 'del')
        ctx.count('history_store=' + case.get('store', 'npy'))
        nload = sum(1 for s in case['steps'] if s[0] == 'load')
        ctx.note_case(canon_history(case), nontrivial=bool(nt),
                      sample=dict(kind='history', path=case['path'], nd=case['nd'], chunks=case['chunks'], steps=case['steps'][:8]))
        ctx.count('history_path=' + case['path'])
        ctx.count('history_loads=%d' % nload)
        ctx.count('history_puts=' + ('0' if not nput else '1-2' if nput <= 2 else '3+'))
        ctx.count('history_dels=' + ('0' if not ndel else '1-2' if ndel <= 2 else '3+'))
        ctx.count('history_l1=%d' % int(bool(case.get('l1'))))
        count_layout(ctx, case, 'history_')
        for s in case['steps']:
            if s[0] == 'load':
                for e in (s[1].values() if isinstance(s[1], dict) else s[1]):
                    ctx.count('history_elt=' + elt_kind(e))



# ----------------------------------------------------------------------------- round 3: dtypes, names, prefixes

DT_CODE = {'uint8': 0, 'float32': 1, 'float64': 2, 'complex64': 3, 'complex128': 4}
DECLARED = {'correlator_data': 3, 'flags': 0, 'weights': 0, 'weights_channel': 1}
DT_TABLE = {}


def dt_table(ctx):
    """What the model delivers for an array whose FIRST block is (present?, cut by the window?) followed by a healthy
    block: {(array number, present, cut): dtype code}; 'weights' = dtype of weights * weights_channel.  Without a model
    (failing-input search) the declared dtypes."""
    if DT_TABLE.get('ok') == bool(ctx.model_ok) and DT_TABLE:
        return DT_TABLE
    DT_TABLE.clear()
    DT_TABLE['ok'] = bool(ctx.model_ok)
    keys = [(a, pr, cut) for a in range(4) for pr in (0, 1) for cut in (0, 1)]
    outs = None
    if ctx.model_ok:
        try:
            outs = ctx.model([[602, [a, DECLARED[NAMES[a]], [[pr, cut, [[5, 0]]], [1, 0, [[7, 0]]]]]] for a, pr, cut in keys]
                             + [[605, [DECLARED['weights'], DECLARED['weights_channel']]]])
        except Exception:     # noqa: BLE001   (a driver built before these wires existed)
            outs = None
    for i, k in enumerate(keys):
        if outs is not None and outs[i] != [-999] and outs[i][1] == [[[5, 0]], [[7, 0]]]:
            DT_TABLE[k] = outs[i][0]
        else:
            DT_TABLE[k] = DECLARED[NAMES[k[0]]] if outs is None else -1
    DT_TABLE['weights'] = outs[-1] if outs is not None else 1
    return DT_TABLE


def first_blocks(case):
    """Per array: (first block of the selection present?, cut by the window?) - None if the selection is empty."""
    dims = [max(case['nd'].values()), case['F']]
    wins = []
    for ax in range(2):
        w = case['pre'][ax] if ax < len(case['pre']) else None
        nw = norm_window(w, dims[ax]) if w is not None else []
        wins.append(nw or [0, dims[ax]])
    if any(lo >= hi for lo, hi in wins):
        return None
    res = {}
    for name in NAMES:
        ch = case['chunks'][name]
        idx, cut = [], False
        present = True
        for ax in range(len(ch)):
            lo, hi = wins[ax] if ax < 2 else (0, case['B'])
            offs = fx.offsets(ch[ax])
            if ax == 0 and lo >= offs[-1]:
                present = False          # a phantom dump
                idx.append(None)
                continue
            j = max(i for i in range(len(ch[ax])) if offs[i] <= lo)
            idx.append(j)
            if offs[j] != lo or hi < offs[j + 1]:
                cut = True
        if present and [int(i) for i in idx] in [list(map(int, l)) for l in case['lost'].get(name, [])]:
            present = False
        res[name] = (int(present), int(cut))
    return res


def check_dtypes(ctx, feats, case, out, fb):
    """The dtype of what katdal delivers against the model's (wire_602 / wire_605)."""
    tab = dt_table(ctx)
    known = fb is not None
    if fb is None:
        fb = {n: (1, 0) for n in NAMES}
    for n in NAMES:
        if known:
            ctx.count('first_block[%s]=%s%s' % (n, 'present' if fb[n][0] else 'lost', '+cut' if fb[n][1] else ''))
    exp = {'vis': tab[(0,) + fb['correlator_data']], 'flags': tab[(1,) + fb['flags']], 'weights': tab['weights']}
    for obs in ('vis', 'flags', 'weights'):
        got = DT_CODE.get(str(np.asarray(out[obs]).dtype), -2)
        if got != exp[obs]:
            first = {'vis': 'correlator_data', 'flags': 'flags', 'weights': 'weights'}[obs]
            ctx.disagree('%s;obs=%s;first_block=%s%s;symptom=dtype' % (feats, obs, 'n/a' if not known else 'present' if fb[first][0]
                                                                       else 'lost', '+cut' if fb[first][1] else ''),
                         case, str(np.asarray(out[obs]).dtype), exp[obs],
                         'dtype of the delivered %s differs from the stored dtype' % obs, spec=exp[obs])


def count_layout(ctx, case, pre):
    if case['path'] == 'source':
        ctx.count(pre + 'layout=' + str(case.get('layout') or 'prefix'))
        if case.get('l1'):
            ctx.count(pre + 'flags_stream=' + ('legacy' if case.get('layout') else 'prefix')
                      + ('+decoy' if case.get('decoy') else '') + ('+others' if case.get('others') else ''))
    if case.get('identical'):
        lost = case.get('lost')
        if lost is not None:
            lv, lw = bool(lost.get('correlator_data')), bool(lost.get('weights'))
            ctx.count(pre + 'identical_chunkings;lost_from=' + ('both' if lv and lw else 'vis_only' if lv else
                                                                'weights_only' if lw else 'neither'))
        else:
            ctx.count(pre + 'identical_chunkings')


def tie_names(ctx, given=None):
    """get_dask_array's names: which of the four arrays of a store share a dask name (they must not), against wire_603;
    and the model's key resolution (every key of array a resolves to array a)."""
    from katdal.chunkstore_dict import DictChunkStore
    rng = ctx.rng
    cases = given or []
    if not given:
        for _ in range(ctx.scale(60, 600)):
            T, F, B = rng.randint(1, 6), rng.randint(1, 5), rng.randint(1, 3)
            same = rng.random() < 0.6
            base = [rnd_chunks(rng, T), rnd_chunks(rng, F), rnd_chunks(rng, B)]
            chunks = {k: ([list(c) for c in base] if same else [rnd_chunks(rng, T), rnd_chunks(rng, F), rnd_chunks(rng, B)])
                      for k in NAMES}
            chunks['weights_channel'] = chunks['weights_channel'][:2]
            prefixes = {k: rng.choice(['p0', 'p0', 'p1']) for k in NAMES}
            pre = [rnd_window(rng, T), rnd_window(rng, F)][:rng.choice([0, 1, 2])]
            cases.append(dict(kind='names', T=T, F=F, B=B, chunks=chunks, prefixes=prefixes, pre=pre,
                              same_dtype=rng.random() < 0.5))
    for case in cases:
        store = DictChunkStore()
        dims = [case['T'], case['F']]
        index = fx.to_slices(case['pre'])
        arrs, names = [], []
        for a, k in enumerate(NAMES):
            dt = np.uint8 if case['same_dtype'] else fx.DTYPES[k]
            d = store.get_dask_array(store.join(case['prefixes'][k], k), tuple(tuple(c) for c in case['chunks'][k]), dt,
                                     index=index, errors='dryrun')
            names.append(d.name)
            win = [norm_window(w, n) if w is not None else [] for w, n in zip(case['pre'], dims)]
            blocks = [list(map(int, i)) for i in np.ndindex(*d.numblocks)]
            arrs.append([int(case['prefixes'][k][1:]), a, 1, case['chunks'][k], 0 if case['same_dtype'] else DECLARED[k],
                         win, [0] * len(case['chunks'][k]), blocks])
        impl = [[int(names[i] == names[j]) for j in range(4)] for i in range(4)]
        ctx.traces_validated += 1
        ctx.count('names:chunkings=' + ('identical' if case['chunks']['correlator_data'] == case['chunks']['weights'] else 'differ')
                  + (';same_dtype' if case['same_dtype'] else ''))
        ctx.note_case(('names', repr(sorted(case.items()))), nontrivial=True)
        if any(impl[i][j] for i in range(4) for j in range(4) if i != j):
            ctx.disagree('tie=dask_names;symptom=two_arrays_share_a_name', case, impl, None,
                         'two arrays of one store carry the same dask name: their graph keys collide')
        if ctx.model_ok and wires_present(ctx):
            m = ctx.model([[603, arrs]])[0]
            if m == [-999] or m[1] != impl:
                ctx.disagree('tie=dask_names;symptom=name_equality', case, impl, None if m == [-999] else m[1],
                             'which arrays share a dask name differs from the model', kind='tie')
            elif any(r != [a, J] for a, (res, arr) in enumerate(zip(m[0], arrs)) for r, J in zip(res, arr[7])):
                ctx.disagree('tie=dask_names;symptom=model_resolution', case, None, m[0],
                             'the model resolves a key to another array / block', kind='tie')


PFX = {None: None}


def tie_prefixes(ctx, given=None):
    """TelstateDataSource: the prefix under which each array is looked for, for random placements of chunk_info,
    'prefix' and chunk_name over the telstate namespaces, against wire_604 (source_entries)."""
    import katsdptelstate
    from katdal.chunkstore_dict import DictChunkStore
    from katdal.datasources import TelstateDataSource, view_l0_capture_stream
    rng = ctx.rng
    cases = given or []
    SN = {0: 'sdp_l0', 5: 'sdp_l1_flags', 6: 'sdp_l1_flags_other', 3: 'sdp_cal'}
    if not given:
        for _ in range(ctx.scale(150, 1500)):
            T = rng.randint(1, 4)
            cn = {}
            for ns in ([0, 0], [1, 0], [2, 0], [0, 5], [2, 5], [3, 0]):
                if rng.random() < (0.5 if ns[0] == 0 else 0.15):
                    cn[repr(ns)] = rng.randint(10, 14)
            def ent(key, T_, F_=2):     # noqa: E306
                return [key, rng.choice([None, None, rng.randint(20, 23)]), [[T_, F_, 1], [[T_], [F_], [1]]]]
            l0 = [ent(k, T) for k in (0, 1, 2)] + [[3, rng.choice([None, 24]), [[T, 2], [[T], [2]]]]]
            streams, ci = [0], {repr([0, 0]): l0}
            st, src = {repr([2, 0]): 0}, {}
            for s in rng.sample([3, 5, 6], rng.randint(0, 3)):
                streams.append(s)
                if s == 3:
                    st[repr([2, 3])] = 2
                else:
                    if rng.random() < 0.9:
                        st[repr([2, s])] = 1
                    if rng.random() < 0.9:
                        src[repr([2, s])] = [0] if (s == 5 or rng.random() < 0.2) else [9]
                    if rng.random() < 0.9:
                        ci[repr([0, s])] = [ent(1, rng.randint(1, 5), 2 if rng.random() < 0.9 else 3)]
            rng.shuffle(streams)
            cases.append(dict(kind='prefixes', cn=cn, st=st, src=src, ci=ci, archived=streams if rng.random() < 0.9 else None,
                              upgrade=rng.random() < 0.85))
    for case in cases:
        ts = katsdptelstate.TelescopeState()

        def view(ns):
            kind, s = ns
            return ts.view(ts.join('cb', SN[s])) if kind == 0 else ts.view('cb') if kind == 1 else ts.view(SN[s]) if kind == 2 else ts
        for k, v in case['cn'].items():
            view(eval(k))['chunk_name'] = 'p%d' % v
        for k, v in case['st'].items():
            view(eval(k))['stream_type'] = {0: 'sdp.vis', 1: 'sdp.flags', 2: 'sdp.cal'}[v]
        for k, v in case['src'].items():
            view(eval(k))['src_streams'] = ['sdp_l0' if x == 0 else 'sdp_l0_other' for x in v]
        for k, v in case['ci'].items():
            info = {}
            for key, pfx, (shape, chunks) in v:
                e = {'dtype': np.lib.format.dtype_to_descr(np.dtype(fx.DTYPES[NAMES[key]])), 'shape': tuple(shape),
                     'chunks': tuple(tuple(c) for c in chunks)}
                if pfx is not None:
                    e['prefix'] = 'p%d' % pfx
                info[NAMES[key]] = e
            view(eval(k))['chunk_info'] = info
        if case['archived'] is not None:
            ts['sdp_archived_streams'] = [SN[s] for s in case['archived']]
        ts.view('sdp_l0')['bls_ordering'] = np.array([('m000h', 'm000h')])
        ts.view('sdp_l0')['sync_time'] = 1.0
        ts.view('sdp_l0')['int_time'] = 1.0
        ts.view(ts.join('cb', 'sdp_l0'))['first_timestamp'] = 1.0
        try:
            v, cb, sn = view_l0_capture_stream(ts, 'cb', 'sdp_l0')
            src = TelstateDataSource(v, cb, sn, chunk_store=DictChunkStore(), upgrade_flags=case['upgrade'])
            impl = sorted((NAMES.index(k), int(i['prefix'][1:])) for k, i in src.data.chunk_info.items())
        except Exception as e:     # noqa: BLE001   (KeyError / ValueError on the unchanged tree)
            impl = 'raises:' + type(e).__name__
        tab = lambda d, conv: [[eval(k), conv(x)] for k, x in sorted(d.items())]     # noqa: E731
        wire = [tab(case['cn'], int), tab(case['st'], int), tab(case['src'], list),
                tab(case['ci'], lambda es: [[k, [] if p is None else [p], inf] for k, p, inf in es]),
                [] if case['archived'] is None else [case['archived']], 0, int(case['upgrade'])]
        m = ctx.model([[604, wire]])[0]
        model = 'raises' if m == [-999] else sorted((e[0], e[1][0]) for e in m)
        ctx.traces_validated += 1
        nflag = sum(1 for s in (case['archived'] or []) if s in (5, 6))
        ctx.count('prefixes:flag_streams=%d;%s' % (nflag, 'raises' if model == 'raises' else 'ok'))
        ctx.note_case(('prefixes', repr(sorted(case.items()))), nontrivial=model != 'raises')
        if (model == 'raises') != isinstance(impl, str) or (model != 'raises' and model != impl):
            ctx.disagree('tie=prefixes;impl=%s;model=%s' % ('raises' if isinstance(impl, str) else 'prefixes',
                                                            'raises' if model == 'raises' else 'prefixes'),
                         case, impl, model, 'the prefix each array is looked for under differs from the model',
                         kind='tie')

# ----------------------------------------------------------------------------- entry points

def run_findings(ctx):
    for f in ctx.findings:
        w = f.get('witness')
        if w and w.get('kind') == 'history':
            run_histories(ctx, [w], tag='c06kf')
        elif w:
            run_cases(ctx, [w], tag='c06kf')


W3 = {}


def wires_present(ctx):
    """The round-3 wires may be missing from a driver that was built before them (fall-back driver after a broken tie)."""
    if 'ok' not in W3:
        try:
            W3['ok'] = bool(ctx.model_ok) and ctx.model([[605, [0, 1]]])[0] == 1
        except Exception:     # noqa: BLE001
            W3['ok'] = False
    return W3['ok']


def run(ctx):
    if not wires_present(ctx):
        ctx.extra['round3_wires'] = 'missing from the model driver in use'
    run_findings(ctx)
    if ctx.model_ok:
        tie_intersect(ctx)
        tie_prune(ctx)
        tie_prune_raw(ctx)
        tie_preselect(ctx)
        tie_apply_data_lost(ctx)
        tie_chunk_info(ctx)
        tie_getters(ctx)
        tie_view_store_get(ctx)
        if wires_present(ctx):
            tie_prefixes(ctx)
    tie_names(ctx)
    rng = ctx.rng
    hist = [gen_history(rng) for _ in range(ctx.scale(100, 1500))]
    run_histories(ctx, hist)
    run_histories(ctx, [gen_view_history(rng) for _ in range(ctx.scale(40, 500))], tag='c06v')
    tie_options(ctx)
    cases = [gen_case(rng) for _ in range(ctx.scale(320, 6000))]
    cases += [gen_case(rng, small=True) for _ in range(ctx.scale(100, 1500))]
    cases += [gen_case(rng, path='v4', small=True) for _ in range(ctx.scale(6, 200))]
    for i in range(0, len(cases), 200):
        run_cases(ctx, cases[i:i + 200])
    if ctx.tier == 'thorough':
        ex = exhaustive_cases(ctx)
        for i in range(0, len(ex), 256):
            run_cases(ctx, ex[i:i + 256], tag='c06ex')
        ctx.extra['exhaustive_loss_subsets_2x2x1'] = len(ex)
        if ctx.model_ok:
            sample = [wire_case(c, fx.make_values(c)) for c in cases[:40]]
            from vh import core
            a = core.run_model_in_coq(sample, 'c06')
            b = ctx.model(sample)
            if a != b:
                ctx.disagree('tie=extraction', dict(n=len(sample)), None, None, 'vm_compute and extracted model differ',
                             kind='tie')
            ctx.extra['extraction_crosscheck_cases'] = len(sample)
    ctx.exhaustive = False


def replay(ctx, doc):
    case = doc.get('case', {})
    kind = case.get('kind')
    if kind == 'history':
        run_histories(ctx, [case], tag='c06rp')
    elif kind == 'options':
        tie_options(ctx, [case])
    elif kind == 'names':
        tie_names(ctx, [case])
    elif kind == 'prefixes':
        tie_prefixes(ctx, [case])
    elif kind == 'view_get':
        tie_view_store_get(ctx, [case])
        ctx.note_case(('view_get', repr(case)))
    elif kind == 'prune_raw':
        tie_prune_raw(ctx, [case])
        ctx.note_case(('prune_raw', repr(case)))
    elif kind == 'preselect':
        tie_preselect(ctx, [case])
        ctx.note_case(('preselect', repr(case)))
    elif kind == 'apply_data_lost':
        tie_apply_data_lost(ctx, [case])
        ctx.note_case(('adl', repr(case)))
    elif kind == 'chunk_info':
        tie_chunk_info(ctx, [case])
        ctx.note_case(('chunk_info', repr(case)))
    elif kind == 'getters':
        tie_getters(ctx)
        ctx.note_case(('getters', repr(case.get('chunks'))))
    elif 'chunks' in case and 'path' in case:
        run_cases(ctx, [case], tag='c06rp')
    elif 'old' in case:
        m = ctx.model([[61, [case['old'], case['new']]]])[0]
        d = [[pc[0] for pc in pcs] for pcs in dask_intersections([case['old']], [case['new']])]
        if d != m:
            ctx.disagree('tie=intersect_1d', case, d, m, 'intersect_1d differs from dask', kind='tie')
        ctx.note_case(('i1d', case['old'], case['new']))
    else:
        tie_prune(ctx)
