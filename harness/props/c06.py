"""C06 — Lost data become zeros flagged data_lost, exactly where they were lost (correspondence + search)."""
import itertools

import numpy as np

from fixtures import c06store as fx
from fixtures import v4 as fv4

RULE = ('a case is one chunk store: T<=10 dumps, F<=8 channels, B<=6 products (4 or 12 through a full data set), four '
        'independently drawn chunkings (uneven / all size 1 / single chunk; weights_channel 2-D), per-array dump counts '
        'differing by up to 3 (phantom chunks), a subset of chunk files deleted per array (empty .. all), a unit-step '
        'preselection of dumps and/or channels given as raw slice bounds (None, negative, past the end, empty), loaded '
        'through ChunkStoreVisFlagsWeights, TelstateDataSource(...).data (flags optionally from an attached sdp.flags '
        'stream) or VisibilityDataV4; compared element by element on vis, weights, flags with the extracted model and '
        'spec.  Non-trivial: at least one chunk absent (deleted or phantom) inside a non-empty window; distinct by '
        '(geometry, chunkings, loss set, preselection, path).  Side checks: intersect_1d / intersect_chunks against '
        'dask.array.rechunk.intersect_chunks, prune_axis against katdal.chunkstore._prune_chunks and the chunks of '
        'get_dask_array.')
ASSUMPTIONS = ['chunk sizes are positive (zero-size chunks only arise from an empty preselection, where no element exists)',
               'stored values are exactly representable (small integers); weights are compared exactly',
               'van_vleck off, stored weights already scaled (weights = weights * weights_channel)',
               'through VisibilityDataV4 only non-empty preselections (a data set without dumps or channels cannot be constructed)',
               'dask graph assembly, numpy slicing assignment and NpyFileChunkStore file naming are exercised, not modelled']

NAMES = fx.ARRAYS


# ----------------------------------------------------------------------------- generators

def rnd_chunks(rng, n, style=None):
    style = style or rng.choice(['rand', 'rand', 'ones', 'single', 'even'])
    if n == 0:
        return []
    if style == 'ones':
        return [1] * n
    if style == 'single':
        return [n]
    if style == 'even':
        c = rng.randint(1, n)
        out = [c] * (n // c)
        if n % c:
            out.append(n % c)
        return out
    out = []
    left = n
    while left:
        c = rng.randint(1, left)
        out.append(c)
        left -= c
    return out


def rnd_bound(rng, n):
    r = rng.random()
    if r < 0.1:
        return None
    if r < 0.2:
        return rng.randint(-n - 1, -1)
    if r < 0.25:
        return n + rng.randint(0, 2)
    return rng.randint(0, n)


def rnd_window(rng, n):
    r = rng.random()
    if r < 0.25:
        return None
    if r < 0.8:   # mostly non-empty
        a, b = sorted(rng.sample(range(n + 1), 2)) if n >= 1 else (0, 0)
        return [a, b]
    return [rnd_bound(rng, n), rnd_bound(rng, n)]


def gen_case(rng, path=None, small=False):
    path = path or rng.choice(['vfw', 'vfw', 'source'])
    T = rng.randint(1, 5 if small else 10)
    F = rng.randint(1, 4 if small else 8)
    B = rng.choice([4, 12] if path == 'v4' else [1, 2, 3, 4, 6])
    if path == 'v4':
        T = max(T, 2)
    l1 = path in ('source', 'v4') and rng.random() < 0.6
    nd = {k: T for k in NAMES}
    if rng.random() < 0.5:
        if path == 'v4':
            if l1:
                nd['flags'] = max(1, T + rng.randint(-3, 3))
        elif path == 'source' and l1 and rng.random() < 0.5:
            nd['flags'] = max(1, T + rng.randint(-3, 3))
        else:
            for k in NAMES:
                if rng.random() < 0.4:
                    nd[k] = max(1, T - rng.randint(1, 3))
    chunks = {}
    for k in NAMES:
        chunks[k] = [rnd_chunks(rng, nd[k]), rnd_chunks(rng, F)]
        if k != 'weights_channel':
            chunks[k].append(rnd_chunks(rng, B))
    lost = {}
    mode = rng.choice(['none', 'few', 'some', 'half', 'all', 'one-array'])
    only = rng.choice(NAMES)
    for k in NAMES:
        idxs = fx.all_chunk_indices(chunks[k])
        if path == 'v4' and k == 'flags' and not l1 and False:
            continue
        p = {'none': 0.0, 'few': 0.1, 'some': 0.3, 'half': 0.5, 'all': 1.0, 'one-array': 0.5 if k == only else 0.0}[mode]
        lost[k] = [list(map(int, i)) for i in idxs if rng.random() < p]
    npre = rng.choice([0, 1, 2, 2])
    pre = [rnd_window(rng, max(nd.values())), rnd_window(rng, F)][:npre]
    if path == 'v4':     # a data set object needs at least one dump and one channel
        dims = [max(nd.values()), F]
        pre = [None if (w is not None and norm_window(w, n) and norm_window(w, n)[0] == norm_window(w, n)[1]) else w
               for w, n in zip(pre, dims)]
    return dict(F=F, B=B, nd=nd, chunks=chunks, lost=lost, pre=pre, path=path, l1=l1, seed=rng.randint(0, 10 ** 6))


# ----------------------------------------------------------------------------- model side

def norm_window(w, n):
    """Raw slice bounds -> what _prune_chunks sees: None for a full slice (dask normalises it to slice(None)),
    else slice.indices."""
    if w is None:
        return []
    lo, hi, _ = slice(w[0], w[1]).indices(n)
    hi = max(lo, hi)            # dask.array.slicing.normalize_index
    if lo == 0 and hi >= n:
        return []
    return [lo, hi]


def empty_window(case):
    dims = [max(case['nd'].values()), case['F']]
    return any(w is not None and norm_window(w, n) and norm_window(w, n)[0] == norm_window(w, n)[1]
               for w, n in zip(case['pre'], dims))


def enc_vis(a):
    a = np.asarray(a)
    return (np.rint(a.real).astype(np.int64) * 256 + np.rint(a.imag).astype(np.int64))


def wire_case(case, vals):
    Tmax = max(case['nd'].values())
    dims = [Tmax, case['F']]
    win = [norm_window(w, n) for w, n in zip(case['pre'], dims)]
    chunks = [case['chunks'][k] for k in NAMES]
    lost = []
    for k in NAMES:
        ch = case['chunks'][k]
        lost.append([[int(s.start) for s in fx.chunk_slices(ch, idx)] for idx in case['lost'].get(k, [])])
    data = [enc_vis(vals['correlator_data']).ravel().tolist(), vals['flags'].ravel().astype(int).tolist(),
            vals['weights'].ravel().astype(int).tolist(), vals['weights_channel'].ravel().astype(int).tolist()]
    return [6, [chunks, win, lost, data]]


def py_spec(case, vals):
    """Independent numpy statement of the spec (used for replay without a model binary and as a cross-check)."""
    Tmax = max(case['nd'].values())
    F, B = case['F'], case['B']
    full = {}
    miss = {}
    for k in NAMES:
        shp = (Tmax, F) if k == 'weights_channel' else (Tmax, F, B)
        a = np.zeros(shp, vals[k].dtype)
        a[:case['nd'][k]] = vals[k]
        m = np.zeros(shp, bool)
        m[case['nd'][k]:] = True
        for idx in case['lost'].get(k, []):
            m[fx.chunk_slices(case['chunks'][k], idx)] = True
        full[k], miss[k] = a, m
    sel = tuple(slice(None) if w is None else slice(w[0], w[1]) for w in case['pre'])
    sel = sel + (slice(None),) * (2 - len(sel))
    mv = miss['correlator_data']
    mw = miss['weights'] | miss['weights_channel'][..., None]
    ev = np.where(mv, 0, full['correlator_data'])[sel]
    ew = np.where(mw, 0, full['weights'].astype(np.float32) * full['weights_channel'][..., None])[sel]
    ef = (np.where(miss['flags'], 8, full['flags']) | np.where(mv | mw, 8, 0)).astype(np.uint8)[sel]
    return dict(vis=enc_vis(ev), weights=ew.astype(np.int64), flags=ef.astype(np.int64)), (mv | mw | miss['flags'])[sel]


# ----------------------------------------------------------------------------- comparison

def case_features(case):
    npre = ''.join(('t' if i == 0 else 'f') for i, w in enumerate(case['pre']) if w is not None) or 'none'
    dumps = 'equal' if len(set(case['nd'].values())) == 1 else 'differ'
    return 'path=%s;pre=%s;dumps=%s' % (case['path'], npre, dumps)


def classify(obs, impl, exp):
    impl = np.asarray(impl)
    exp = np.asarray(exp)
    if impl.shape != exp.shape:
        return 'shape'
    bad = impl != exp
    if obs == 'flags':
        i8, e8 = impl & 8, exp & 8
        if np.any((i8 == 0) & (e8 != 0)):
            return 'data_lost_not_set'
        if np.any((i8 != 0) & (e8 == 0)):
            return 'data_lost_spurious'
        return 'other_bits_changed'
    if np.any(bad & (exp == 0)):
        return 'lost_not_zeroed'
    if np.any(bad & (impl == 0)):
        return 'present_zeroed'
    return 'wrong_value'


def first_bad(impl, exp):
    impl = np.asarray(impl)
    exp = np.asarray(exp)
    if impl.shape != exp.shape:
        return dict(impl_shape=list(impl.shape), expected_shape=list(exp.shape))
    at = np.argwhere(impl != exp)[0].tolist()
    return dict(at=at, impl=int(impl[tuple(at)]), expected=int(exp[tuple(at)]), n_bad=int((impl != exp).sum()))


def check_store(ctx, case, mout=None, tag='c06'):
    """Run one case through katdal and compare with model / spec.  mout = parsed output of wire_6 (or None)."""
    tmp = fv4.scratch_dir(tag)
    feats = case_features(case)
    try:
        try:
            out, dchunks, vals = fx.observe(case, tmp)
        except Exception as e:    # the property says loading still succeeds
            if empty_window(case):
                if case['path'] == 'v4':
                    return None      # a VisibilityDataV4 without dumps / channels cannot be built: not this property
                feats = 'window=empty'
            ctx.disagree('%s;symptom=raises:%s' % (feats, type(e).__name__), case, repr(e)[:300], None,
                         'loading a store with absent chunks raised')
            return None
    finally:
        fx.rmtree(tmp)
    pys, anylost = py_spec(case, vals)
    impl = dict(vis=enc_vis(out['vis']), weights=np.asarray(out['weights']).astype(np.float64),
                flags=np.asarray(out['flags']).astype(np.int64))
    if not np.array_equal(impl['weights'], np.rint(impl['weights'])):
        ctx.disagree('%s;obs=weights;symptom=non_integral' % feats, case, None, None, 'weights are not the exact products')
    impl['weights'] = impl['weights'].astype(np.int64)
    shape = pys['vis'].shape
    if mout is not None and mout != [-999]:
        mshape = tuple(mout[0])
        model = dict(vis=mout[2], weights=mout[4], flags=mout[6])
        spec = dict(vis=mout[3], weights=mout[5], flags=mout[7])
        n = int(np.prod(mshape))
        if mshape != shape and not (n == 0 and int(np.prod(shape)) == 0):
            ctx.disagree('%s;symptom=model_shape' % feats, case, list(shape), list(mshape), 'model window shape differs',
                         kind='tie')
            return None
        for obs in ('vis', 'weights', 'flags'):
            m = np.array(model[obs], dtype=np.int64).reshape(shape)
            s = np.array(spec[obs], dtype=np.int64).reshape(shape)
            if not np.array_equal(s, pys[obs]):
                ctx.disagree('%s;obs=%s;symptom=coq_spec_vs_numpy_spec' % (feats, obs), case, first_bad(pys[obs], s), None,
                             'extracted spec differs from the numpy statement of the spec', kind='tie')
            if impl[obs].shape != shape or not np.array_equal(impl[obs], m):
                ctx.disagree('%s;obs=%s;tie;symptom=%s' % (feats, obs, classify(obs, impl[obs], m)), case,
                             first_bad(impl[obs], m), None, 'katdal differs from the model on ' + obs, kind='tie')
            if impl[obs].shape != shape or not np.array_equal(impl[obs], s):
                ctx.disagree('%s;obs=%s;symptom=%s' % (feats, obs, classify(obs, impl[obs], s)), case,
                             first_bad(impl[obs], s), None, 'katdal differs from the spec on ' + obs,
                             spec=first_bad(impl[obs], s))
        if dchunks is not None and n:
            mch = [[[c for c in ax if c] for ax in a] for a in mout[1]]
            ich = [[[c for c in ax if c] for ax in a] for a in dchunks]
            if mch != ich:
                ctx.disagree('%s;symptom=dask_chunks' % feats, case, ich, mch,
                             'chunks of get_dask_array differ from prune+slice model', kind='tie')
    else:
        for obs in ('vis', 'weights', 'flags'):
            if impl[obs].shape != shape or not np.array_equal(impl[obs], pys[obs]):
                ctx.disagree('%s;obs=%s;symptom=%s' % (feats, obs, classify(obs, impl[obs], pys[obs])), case,
                             first_bad(impl[obs], pys[obs]), None, 'katdal differs from the spec on ' + obs)
    ctx.traces_validated += 1
    return bool(anylost.any())


def canon(case):
    return (case['F'], case['B'], sorted(case['nd'].items()), sorted((k, v) for k, v in case['chunks'].items()),
            sorted((k, v) for k, v in case['lost'].items()), case['pre'], case['path'], case.get('l1'))


def run_cases(ctx, cases, tag='c06'):
    mouts = None
    if ctx.model_ok:
        wired = [wire_case(c, fx.make_values(c)) for c in cases]
        mouts = ctx.model(wired)
    for i, case in enumerate(cases):
        nt = check_store(ctx, case, mouts[i] if mouts else None, tag)
        nlost = sum(len(v) for v in case['lost'].values())
        ctx.note_case(canon(case), nontrivial=bool(nt),
                      sample=dict(F=case['F'], B=case['B'], nd=case['nd'], chunks=case['chunks'], n_lost=nlost,
                                  pre=case['pre'], path=case['path'], l1=case.get('l1')))
        ctx.count('path=' + case['path'])
        ctx.count('pre=' + str(len([w for w in case['pre'] if w is not None])))
        ctx.count('dumps=' + ('equal' if len(set(case['nd'].values())) == 1 else 'differ'))
        ctx.count('lost=' + ('0' if nlost == 0 else '1-3' if nlost <= 3 else '4+'))
        ctx.count('l1=%d' % int(bool(case.get('l1'))))


# ----------------------------------------------------------------------------- side ties

def compositions(n):
    if n == 0:
        yield []
        return
    for first in range(1, n + 1):
        for rest in compositions(n - first):
            yield [first] + rest


def dask_intersections(old, new):
    from dask.array.rechunk import intersect_chunks
    res = []
    for pcs in intersect_chunks(tuple(map(tuple, old)), tuple(map(tuple, new))):
        res.append([[[int(i), int(s.start), int(s.stop)] for (i, s) in pc] for pc in pcs])
    return res


def tie_intersect(ctx):
    pairs = []
    nmax = 6 if ctx.tier == 'quick' else 8
    for n in range(1, nmax + 1):
        comps = list(compositions(n))
        pairs += [(o, nw) for o in comps for nw in comps]
    for _ in range(ctx.scale(300, 3000)):
        n = ctx.rng.randint(1, 40)
        pairs.append((rnd_chunks(ctx.rng, n), rnd_chunks(ctx.rng, n)))
    mouts = ctx.model([[61, [o, nw]] for o, nw in pairs]) if ctx.model_ok else []
    for (o, nw), m in zip(pairs, mouts):
        d = [[pc[0] for pc in pcs] for pcs in dask_intersections([o], [nw])]
        if d != m:
            ctx.disagree('tie=intersect_1d', dict(old=o, new=nw), d, m, 'intersect_1d differs from dask', kind='tie')
    ctx.extra['intersect_1d_pairs_vs_dask'] = len(mouts)
    nd = []
    for _ in range(ctx.scale(150, 1500)):
        k = ctx.rng.randint(1, 3)
        dims = [ctx.rng.randint(1, 6) for _ in range(k)]
        nd.append(([rnd_chunks(ctx.rng, n) for n in dims], [rnd_chunks(ctx.rng, n) for n in dims]))
    mouts = ctx.model([[63, [o, nw]] for o, nw in nd]) if ctx.model_ok else []
    for (o, nw), m in zip(nd, mouts):
        d = dask_intersections(o, nw)
        if d != m:
            ctx.disagree('tie=intersect_chunks', dict(old=o, new=nw), d[:2], m[:2], 'intersect_chunks differs from dask',
                         kind='tie')
    ctx.extra['intersect_nd_pairs_vs_dask'] = len(mouts)


def tie_prune(ctx):
    from katdal.chunkstore import _prune_chunks
    cases = []
    nmax = 5 if ctx.tier == 'quick' else 7
    for n in range(1, nmax + 1):
        for comp in compositions(n):
            for lo in range(0, n + 1):
                for hi in range(lo, n + 1):
                    if (lo, hi) != (0, n):
                        cases.append((comp, lo, hi))
    for _ in range(ctx.scale(300, 3000)):
        n = ctx.rng.randint(1, 40)
        lo, hi = sorted((ctx.rng.randint(0, n), ctx.rng.randint(0, n)))
        if (lo, hi) != (0, n):
            cases.append((rnd_chunks(ctx.rng, n), lo, hi))
    mouts = ctx.model([[62, [c, [lo, hi]]] for c, lo, hi in cases]) if ctx.model_ok else []
    for (c, lo, hi), m in zip(cases, mouts):
        try:
            ch, idx, off = _prune_chunks((tuple(c),), (slice(lo, hi),))
            impl = [list(map(int, ch[0])), int(idx[0].start), int(idx[0].stop), int(off[0])]
        except Exception as e:
            impl = repr(e)
        if impl != m[:4]:
            ctx.disagree('tie=prune_chunks', dict(chunks=c, lo=lo, hi=hi), impl, m[:4],
                         '_prune_chunks differs from prune_axis', kind='tie')
            continue
        # the property of _prune_chunks itself: same data, existing boundaries, minimal
        cs, st, sp, off = m[:4]
        ok = off + st == lo and sp - st == hi - lo
        if hi > lo:
            offs = np.cumsum([0] + c).tolist()
            ok = ok and off in offs and (off + sum(cs)) in offs and cs == c[offs.index(off):offs.index(off + sum(cs))]
            ok = ok and cs[0] > st and sum(cs) - cs[-1] < sp
        if not ok:
            ctx.disagree('what=prune_property', dict(chunks=c, lo=lo, hi=hi), impl, None,
                         '_prune_chunks does not select the same data with a minimal set of existing chunks')
    ctx.extra['prune_cases_vs_impl'] = len(mouts)


# ----------------------------------------------------------------------------- exhaustive small geometry

def exhaustive_cases(ctx):
    """Every subset of absent chunks for a 2x2x1-chunk geometry of each array (thorough tier)."""
    base = dict(F=3, B=2, nd={k: 3 for k in NAMES}, pre=[], path='vfw', l1=False, seed=7,
                chunks={'correlator_data': [[2, 1], [1, 2], [2]], 'flags': [[1, 2], [2, 1], [2]],
                        'weights': [[2, 1], [3], [1, 1]], 'weights_channel': [[3], [1, 2]]})
    per = {k: fx.all_chunk_indices(base['chunks'][k]) for k in NAMES}
    cases = []
    for sv in range(1 << len(per['correlator_data'])):
        for sf in range(1 << len(per['flags'])):
            for sw in (0, 1, 2, 3):
                for swc in (0, 1, 2, 3):
                    c = dict(base)
                    c['lost'] = {
                        'correlator_data': [list(i) for n, i in enumerate(per['correlator_data']) if sv >> n & 1],
                        'flags': [list(i) for n, i in enumerate(per['flags']) if sf >> n & 1],
                        'weights': [list(i) for n, i in enumerate(per['weights']) if sw >> n & 1],
                        'weights_channel': [list(i) for n, i in enumerate(per['weights_channel']) if swc >> n & 1]}
                    cases.append(c)
    return cases


# ----------------------------------------------------------------------------- entry points

def run_findings(ctx):
    for f in ctx.findings:
        w = f.get('witness')
        if w:
            run_cases(ctx, [w], tag='c06kf')


def run(ctx):
    run_findings(ctx)
    if ctx.model_ok:
        tie_intersect(ctx)
        tie_prune(ctx)
    rng = ctx.rng
    cases = [gen_case(rng) for _ in range(ctx.scale(450, 6000))]
    cases += [gen_case(rng, small=True) for _ in range(ctx.scale(150, 1500))]
    cases += [gen_case(rng, path='v4', small=True) for _ in range(ctx.scale(6, 200))]
    for i in range(0, len(cases), 200):
        run_cases(ctx, cases[i:i + 200])
    if ctx.tier == 'thorough':
        ex = exhaustive_cases(ctx)
        for i in range(0, len(ex), 256):
            run_cases(ctx, ex[i:i + 256], tag='c06ex')
        ctx.extra['exhaustive_loss_subsets_2x2x1'] = len(ex)
        if ctx.model_ok:
            sample = [wire_case(c, fx.make_values(c)) for c in cases[:40]]
            from vh import core
            a = core.run_model_in_coq(sample, 'c06')
            b = ctx.model(sample)
            if a != b:
                ctx.disagree('tie=extraction', dict(n=len(sample)), None, None, 'vm_compute and extracted model differ',
                             kind='tie')
            ctx.extra['extraction_crosscheck_cases'] = len(sample)
    ctx.exhaustive = False


def replay(ctx, doc):
    case = doc.get('case', {})
    if 'chunks' in case and 'path' in case:
        run_cases(ctx, [case], tag='c06rp')
    elif 'old' in case:
        m = ctx.model([[61, [case['old'], case['new']]]])[0]
        d = [[pc[0] for pc in pcs] for pcs in dask_intersections([case['old']], [case['new']])]
        if d != m:
            ctx.disagree('tie=intersect_1d', case, d, m, 'intersect_1d differs from dask', kind='tie')
        ctx.note_case(('i1d', case['old'], case['new']))
    else:
        tie_prune(ctx)
