"""C17, third round: streams (m) process time zones, (n) numeric sensors over C12's extraction model, (o) lists of files,
(p) the calendar behind the fix dates.  Called from props/c17.py (run_third / replay)."""
import calendar
import json
import os
import time
from fractions import Fraction

import numpy as np

import katdal
from fixtures import v4

# zones whose standard offset changed since 2019 (katpoint.Timestamp(<text>) is an hour off there: C17-F2), zones with and
# without DST, the two extreme fixed offsets, and POSIX strings that need no tz database
ZONES = ['UTC', 'Africa/Juba', 'Europe/Volgograd', 'America/Whitehorse', 'Asia/Almaty', 'Africa/Johannesburg',
         'Pacific/Kiritimati', 'America/Sao_Paulo', 'AAA-14', 'BBB12', 'EST5EDT,M3.2.0,M11.1.0',
         'NZST-12NZDT,M9.5.0,M4.1.0/3', 'CET-1CEST,M3.5.0,M10.5.0/3']
CHANGED = ['Africa/Juba', 'Europe/Volgograd', 'America/Whitehorse', 'Asia/Almaty']


def have(ctx, wire=175):
    if not ctx.model_ok:
        return False
    try:
        from vh import core
        lo = os.path.join(core.EXTRACT_DIR, 'left_out_wires.json')
        return not (os.path.exists(lo) and str(wire) in json.load(open(lo)))
    except Exception:
        return True


def zone_ok(z):
    return '/' not in z or os.path.exists(os.path.join('/usr/share/zoneinfo', z))


class Zone:
    """Run a block with the process in another time zone (restored afterwards)."""

    def __init__(self, z):
        self.z = z

    def __enter__(self):
        self.old = os.environ.get('TZ')
        os.environ['TZ'] = self.z
        time.tzset()

    def __exit__(self, *a):
        if self.old is None:
            os.environ.pop('TZ', None)
        else:
            os.environ['TZ'] = self.old
        time.tzset()


# ---------------------------------------------------------------------------- (m) the rule under another time zone

def gen_tz_timing(rng, me):
    """A capture whose start (incl. time_offset) lies within the hours around its fix date in which a local reading of the
    date would decide otherwise."""
    t = me.gen_timing(rng)
    t['cbf'] = t['cbf'] or 0.5
    dte = me.fix_date_of(t)
    delta = rng.choice([-0.25, 0, 0.25, -1, 1, -1800, 1800, -3599, 3599, -3600, 3600, -3601, -7200, 7200, -10800 + 1,
                        -14 * 3600 + 1, 12 * 3600 - 1, -5 * 3600, 5 * 3600])
    t['sync'] = dte + delta - t['off'] - t['first']
    return t


def check_tz(ctx, me, t, T, sl, zone, via):
    a, b, _ = slice(sl[0], sl[1]).indices(T)
    if b <= a:
        return
    case = dict(tz=zone, timing=me.timing_case(t), T=T, sl=list(sl), via=via)
    pre = None if tuple(sl) == (0, T) else dict(dumps=slice(sl[0], sl[1]))
    x = None
    try:
        with Zone(zone):
            x = me.build(t, T, 4, ctx.seed + 21)
            d = x.d if (pre is None and via == 'direct') else me.open_pre(x, t, pre, via)
            impl = [me.exact(v) for v in d.timestamps]
            off = me.exact(d.time_offset)
            sens = np.asarray(d.sensor['anc_air_temperature']).tolist()
    except Exception as e:
        ctx.disagree('what=exception;stream=time_zone;via=%s;exc=%s' % (via, type(e).__name__), case, repr(e)[:300], None,
                     'opening the data set in another process time zone raised')
        return
    finally:
        if x is not None:
            v4.cleanup(x)
    want = me.spec_py(t, a, b - a)
    if impl != want:
        ctx.disagree('what=timestamps;time_zone=%s;start=%s' % ('changed_offset' if zone in CHANGED else 'other', me.where(t)),
                     case, [float(v) for v in impl[:3]], None,
                     'timestamps differ from the documented ones when the process runs in time zone %s: the fix dates are '
                     'UTC dates' % zone, spec=[float(v) for v in want[:3]])
    if ctx.model_ok:
        mo = ctx.model([[17, [1, me.wire_timing(t), a, b - a]]])[0]
        if impl != [me.fq(p) for p in mo[0]] or off != me.fq(mo[4]):
            ctx.disagree('what=timestamps_tie;time_zone', case, [float(v) for v in impl[:3]],
                         [float(me.fq(p)) for p in mo[0][:3]], 'timestamps / time_offset differ from the model in zone ' + zone,
                         kind='tie')
    # the ramp sensor (1 unit / s from start - 4) read at the documented timestamps
    s0 = Fraction(t['sync']) + Fraction(t['first']) + Fraction(t['off'])
    want_s = [float(1 + (w - (s0 - 4))) for w in want]
    if sens != want_s:
        ctx.disagree('what=sensor;time_zone', case, sens[:3], None,
                     'interpolated sensor differs from its value at the documented timestamps in zone ' + zone, spec=want_s[:3])
    ctx.traces_validated += 1
    ctx.note_case(('tz', zone, repr(sorted(t.items())), T, tuple(sl), via), nontrivial=True, sample=dict(kind='tz', **case))
    ctx.count('time_zone:' + ('changed_offset' if zone in CHANGED else 'posix' if '/' not in zone else 'other'))
    ctx.count('time_zone:start_' + me.where(t))


# ---------------------------------------------------------------------------- (p) the calendar

def check_calendar(ctx, rng, n):
    """calendar.timegm(time.strptime(text, fmt)) vs utc_midnight of the model, valid and impossible dates, in several zones."""
    if not have(ctx):
        return
    texts = ['2019-02-11', '2019-03-03', '2019-03-15', '2000-01-01', '1970-01-01', '2099-12-31', '2020-02-29', '2019-02-29',
             '2100-02-29', '2000-02-29', '2019-13-01', '2019-00-10', '2019-04-31', '2019-12-32', '2019-01-00']
    for _ in range(n):
        y, m = rng.randint(1970, 2099), rng.randint(1, 12)
        d = rng.choice([1, 28, 29, 30, 31, rng.randint(1, 31)])
        texts.append('%04d-%02d-%02d' % (y, m, d))
    zones = [z for z in ZONES if zone_ok(z)]
    outs = ctx.model([[175, [2, [ord(c) for c in s], 0, 0]] for s in texts])
    for s, mo in zip(texts, outs):
        z = rng.choice(zones)
        with Zone(z):
            try:
                got = calendar.timegm(time.strptime(s, '%Y-%m-%d'))
            except ValueError:
                got = None
        mv = mo[0][0] if mo[0] else None
        if got != mv:
            ctx.disagree('what=calendar_tie', dict(calendar=True, text=s, tz=z), got, mv,
                         'calendar.timegm(time.strptime(text)) differs from utc_midnight of the model', kind='tie')
        ctx.note_case(('calendar', s), nontrivial=got is not None, sample=None)
        ctx.count('calendar:valid' if got is not None else 'calendar:impossible_date')
        ctx.traces_validated += 1


# ---------------------------------------------------------------------------- (n) sensors

def gen_history(rng, t, T):
    """Samples of a float sensor: irregular, some before the capture, some after its end, sometimes a single one, sometimes
    none inside the capture (no duplicate timestamps: how telstate orders them is C12's business); spacings are powers of two and values multiples of 1/4 so that np.interp is exact."""
    s0 = t['sync'] + t['first'] + t['off']
    k = rng.choice([1, 2, 3, 4, 5, 6])
    tt = s0 + rng.choice([-16.0, -4.0, -1.0, 0.0, 0.5, 2.0, T * t['int_time'] + 3.0])
    hist = []
    for _ in range(k):
        hist.append((tt, rng.randint(-40, 40) / 4.0))
        tt += rng.choice([0.5, 1.0, 2.0, 4.0, 8.0, 16.0])
    if rng.random() < 0.2:
        rng.shuffle(hist)                                        # telstate sorts by time anyway
    return hist


def spec_interp(hist, x):
    pts = sorted((Fraction(tt), Fraction(v)) for tt, v in hist)
    if x <= pts[0][0]:
        return pts[0][1]
    if x >= pts[-1][0]:
        return pts[-1][1]
    for (x0, y0), (x1, y1) in zip(pts, pts[1:]):
        if x0 <= x <= x1:
            return y0 + (y1 - y0) * (x - x0) / (x1 - x0)


def check_sensor(ctx, me, t, T, sl, hist, via):
    a, b, _ = slice(sl[0], sl[1]).indices(T)
    if b <= a:
        return
    case = dict(sensor_pre=True, timing=me.timing_case(t), T=T, sl=list(sl), hist=[list(h) for h in hist], via=via)
    x = None
    try:
        x = v4.build_v4(
            T=T, F=4, seed=ctx.seed + 31, sync_time=t['sync'], first_timestamp=t['first'], int_time=t['int_time'],
            cbf=None if t['cbf'] is None else (t['cbf'], 64, 1712e6),
            sub_pool_resources=('cbf_dev_2,sdp_1,m000,m001' if t['cmc2'] else 'cbf_1,sdp_1,m000,m001'),
            sub_product=('c856M4k' if t['cbf4k'] else 'c856M1k'), open_kwargs=dict(time_offset=t['off']),
            extra_sensors=[('anc_air_temperature', hist)])
        whole = np.asarray(x.d.sensor['anc_air_temperature'])
        dp = me.open_pre(x, t, dict(dumps=slice(sl[0], sl[1])), via)
        pre = np.asarray(dp.sensor['anc_air_temperature'])
        pre_ts = [me.exact(v) for v in dp.timestamps]
        x.d.select(dumps=slice(sl[0], sl[1]))
        sel = np.asarray(x.d.sensor['anc_air_temperature'])
    except Exception as e:
        ctx.disagree('what=exception;stream=sensor_pre;via=%s;exc=%s' % (via, type(e).__name__), case, repr(e)[:300], None,
                     'reading a numeric sensor of a (preselected) data set raised')
        return
    finally:
        if x is not None:
            v4.cleanup(x)
    if not (np.array_equal(pre, whole[a:b]) and np.array_equal(pre, sel)):
        sig = 'preselect;straddles_fix_date;symptom=timestamps_shifted_by_cbf_dump' if me.straddles(t, a) else \
            'what=preselect_equiv;observable=sensor;stream=sensor_pre;via=%s' % via
        ctx.disagree(sig, case, pre[:4].tolist(), None,
                     'numeric sensor of the preselected data set differs from dumps a:b of the fully opened one',
                     spec=whole[a:b][:4].tolist())
    # the property itself, computed here: piecewise-linear interpolation of the history (held constant outside it) at the
    # DOCUMENTED timestamps of dumps a..b-1
    want = [float(spec_interp(hist, w)) for w in me.spec_py(t, a, b - a)]
    if pre.tolist() != want:
        ctx.disagree('what=sensor_value;stream=sensor_pre;via=%s' % via, case, pre[:4].tolist(), None,
                     'numeric sensor of the preselected data set is not the interpolation of its history at the documented '
                     'timestamps of dumps a..b', spec=want[:4])
    matters = None
    if have(ctx):
        mo = ctx.model([[175, [1, me.wire_timing(t), a, b - a, T, [[me.q(tt), me.q(v)] for tt, v in hist], []]]])[0]
        if mo == [-999] or mo[0][0] != 0:
            ctx.disagree('what=model_error;wire=175', case, None, str(mo)[:200], 'sensor model returned an error', kind='tie')
            return
        mv = [me.fq(p[0]) for p in mo[0][1]]
        if [me.exact(v) for v in pre] != mv or mo[0] != mo[1]:
            ctx.disagree('what=sensor_tie;via=%s' % via, case, pre[:4].tolist(), [float(v) for v in mv[:4]],
                         'numeric sensor of the preselected data set differs from C12\'s extraction model run on the model '
                         'timestamps', kind='tie')
        matters = mo[2] != mo[0]
    ctx.traces_validated += 1
    ctx.note_case(('sensor', repr(sorted(t.items())), T, tuple(sl), repr(hist), via), nontrivial=b - a >= 2,
                  sample=dict(kind='sensor_pre', **case))
    ctx.count('sensor_pre')
    ctx.count('sensor_pre:via_' + via)
    ctx.count('sensor_pre:samples_%d' % len(hist))
    if matters:
        ctx.count('sensor_pre:history_before_range_matters')
    if len(set(pre.tolist())) > 1:
        ctx.count('sensor_pre:values_vary')


# ---------------------------------------------------------------------------- (o) a list of files

def wire_src(me, t, T, N, centre, bw, F):
    return [me.wire_timing(t), T, N, me.q(centre), me.q(bw), [F]]


def wire_presel(pre):
    if pre is None:
        return []
    items = []
    for k, v in pre.items():
        o = (lambda z: [] if z is None else [int(z)])
        items.append([[ord(c) for c in k], [o(v.start), o(v.stop), o(v.step)]])
    return [items]


def check_open_list(ctx, me, t, Ts, F, csl, key='channels'):
    """katdal.open([rdb, ...], preselect={key: slice}): per file (ConcatenatedDataSet.datasets, chronological = file order
    here) vs the model open_list (tie) and vs the same file opened whole with the channels selected (property)."""
    cw, centre = 4.0, 1284.0
    xs = []
    pre = {key: slice(*csl)}
    case = dict(open_list=True, timing=me.timing_case(t), Ts=list(Ts), F=F, csl=list(csl), key=key)
    c, d_, _ = slice(*csl).indices(F)
    try:
        tms = []
        for k, T in enumerate(Ts):
            tk = dict(t, sync=t['sync'] + 4096.0 * k)
            tms.append(tk)
            xs.append(v4.build_v4(T=T, F=F, seed=ctx.seed + 40 + k, cbid='12345679%02d' % (10 + k), sync_time=tk['sync'],
                                  first_timestamp=t['first'], int_time=t['int_time'], bandwidth=F * cw, center_freq=centre,
                                  cbf=None if t['cbf'] is None else (t['cbf'], 64, 1712e6),
                                  sub_pool_resources=('cbf_dev_2,sdp_1,m000,m001' if t['cmc2'] else 'cbf_1,sdp_1,m000,m001'),
                                  sub_product=('c856M4k' if t['cbf4k'] else 'c856M1k')))
        files = [me.write_rdb(x) for x in xs]
        verdict = 0
        got = []
        try:
            ds = katdal.open(files, time_offset=t['off'], preselect=pre)
            for part in ds.datasets:
                got.append(dict(ts=[me.exact(v) for v in part.timestamps], freqs=[me.exact(v) for v in part.freqs],
                                shape=list(part.shape), vis=part.vis[:], flags=part.flags[:], weights=part.weights[:]))
            allts = [me.exact(v) for v in ds.timestamps]
            allshape = list(ds.shape)
        except IndexError:
            verdict = 'IndexError'
        wholes = []
        for x, tk in zip(xs, tms):
            w = katdal.open(me.write_rdb(x), time_offset=t['off'])
            wholes.append(dict(ts=[me.exact(v) for v in w.timestamps], freqs=[me.exact(v) for v in w.freqs],
                               vis=w.vis[:], flags=w.flags[:], weights=w.weights[:]))
    except Exception as e:
        ctx.disagree('what=exception;stream=open_list;exc=%s' % type(e).__name__, case, repr(e)[:300], None,
                     'opening a list of RDB files with a preselection raised on an in-domain input')
        return
    finally:
        for x in xs:
            v4.cleanup(x)
    empty = d_ <= c
    if key != 'channels':
        if verdict != 'IndexError':
            ctx.disagree('what=open_list_key_accepted;key=%s' % key, case, 'accepted', None,
                         'a list of files accepted a preselect key other than channels', spec='IndexError')
    elif verdict == 'IndexError':
        if not empty:
            ctx.disagree('what=open_list_refused', case, 'IndexError', None,
                         'a non-empty channel preselection of a list of files was refused', spec='accepted')
    else:
        for k, (g, w) in enumerate(zip(got, wholes)):
            bad = [nm for nm in ('vis', 'flags', 'weights') if not np.array_equal(g[nm], w[nm][:, c:d_])]
            if g['ts'] != w['ts']:
                bad.append('timestamps')
            if g['freqs'] != w['freqs'][c:d_]:
                bad.append('freqs')
            if bad:
                ctx.disagree('what=open_list_file;observable=%s;file=%s' % (bad[0], 'first' if k == 0 else 'later'),
                             dict(case, file=k), None, None,
                             'file %d of a list opened with one preselection differs from the file opened whole with the '
                             'channels selected in %s' % (k, ', '.join(bad)))
        if allts != sum((w['ts'] for w in wholes), []) or allshape[:2] != [sum(Ts), d_ - c]:
            ctx.disagree('what=open_list_concat', case, allshape, None,
                         'the concatenated data set is not the concatenation of all dumps of every file with the channels '
                         'preselected', spec=[sum(Ts), d_ - c])
    if have(ctx):
        mo = ctx.model([[175, [3, [wire_src(me, tk, T, F, centre, F * cw, F) for tk, T in zip(tms, Ts)],
                               wire_presel(pre)]]])[0]
        if len(mo) == 1 and isinstance(mo[0], int):
            if verdict != 'IndexError':
                ctx.disagree('what=open_list_verdict_tie', case, verdict, mo, 'the model refuses, the code accepts', kind='tie')
        elif verdict == 'IndexError':
            ctx.disagree('what=open_list_verdict_tie', case, verdict, 'accepted', 'the code refuses, the model accepts',
                         kind='tie')
        else:
            for k, (g, m) in enumerate(zip(got, mo)):
                if g['ts'] != [me.fq(p) for p in m[6]] or g['freqs'] != [me.fq(p) for p in m[5]] \
                        or g['shape'][:2] != [m[1], m[2][2]] or m[0] != 0:
                    ctx.disagree('what=open_list_tie;file=%d' % k, case, g['shape'], [m[0], m[1], m[2][2]],
                                 'file %d of the list differs from open_list of the model (dumps, channels, timestamps or '
                                 'frequencies)' % k, kind='tie')
    ctx.traces_validated += 1
    ctx.note_case(('open_list', repr(sorted(t.items())), tuple(Ts), F, tuple(csl), key), nontrivial=len(Ts) >= 2,
                  sample=dict(kind='open_list', **case))
    ctx.count('open_list:files_%d' % len(Ts))
    ctx.count('open_list:key_' + key)
    ctx.count('open_list:' + ('refused' if verdict == 'IndexError' else 'accepted'))


# ---------------------------------------------------------------------------- driver

def run_third(ctx, me):
    rng = ctx.rng
    t0 = time.time()
    zones = [z for z in ZONES if zone_ok(z)]
    ctx.extra['time_zones_available'] = len(zones)
    check_calendar(ctx, rng, ctx.scale(150, 3000))
    for i in range(ctx.scale(44, 500)):
        t = gen_tz_timing(rng, me)
        T = rng.randint(1, 4)
        sl = (0, T) if rng.random() < 0.6 else me.gen_slice(rng, T)
        z = zones[i % len(zones)] if rng.random() < 0.6 else rng.choice([z for z in zones if z in CHANGED] or zones)
        check_tz(ctx, me, t, T, sl, z, rng.choice(['direct', 'direct', 'open', 'meta']))
    ctx.extra['seconds:time_zone'] = round(time.time() - t0, 1)
    t0 = time.time()
    for _ in range(ctx.scale(50, 600)):
        t = me.gen_timing(rng)
        T = rng.randint(2, 8)
        sl = me.gen_slice(rng, T)
        check_sensor(ctx, me, t, T, sl, gen_history(rng, t, T), rng.choice(['direct', 'direct', 'open', 'meta']))
    ctx.extra['seconds:sensor_pre'] = round(time.time() - t0, 1)
    t0 = time.time()
    for _ in range(ctx.scale(8, 80)):
        t = me.gen_timing(rng)
        F = rng.choice([3, 4, 5, 8])
        Ts = [rng.randint(1, 4) for _k in range(rng.choice([2, 3, 3]))]
        key = 'channels' if rng.random() < 0.8 else rng.choice(['dumps', 'ants'])
        check_open_list(ctx, me, t, Ts, F, me.gen_slice(rng, F), key=key)
    ctx.extra['seconds:open_list'] = round(time.time() - t0, 1)


def replay(ctx, me, case):
    if 'tz' in case:
        check_tz(ctx, me, case['timing'], case['T'], tuple(case['sl']), case['tz'], case.get('via', 'direct'))
    elif case.get('sensor_pre'):
        check_sensor(ctx, me, case['timing'], case['T'], tuple(case['sl']), [tuple(h) for h in case['hist']],
                     case.get('via', 'direct'))
    elif case.get('open_list'):
        check_open_list(ctx, me, case['timing'], case['Ts'], case['F'], tuple(case['csl']), key=case.get('key', 'channels'))
    elif case.get('calendar'):
        check_calendar(ctx, ctx.rng, 0)
    else:
        return False
    return True
