"""C01, data sets with several SUBARRAYS and spectral windows: MVF v2 / v3 files opened TOGETHER (katdal.open of a list).

A single file of any format has one subarray (and, except v2, one spectral window); files recorded with another product
ordering (another subarray) or another centre frequency (another window) opened together give a data set whose
`Observation/subarray_index` / `spw_index` change from file to file.  Only one subarray / window is active:
`corr_products`, `ants`, `freqs`, `channels` describe that one, so every selected dump must come from a file recorded
with it (same model: Model/DataSetWin.v, wire_1005; the files' stored arrays laid end to end are THE stored array -- how
ConcatenatedLazyIndexer composes the per-file indexers is C19's business).

Fixtures: 2-3 files of 3-5 dumps each (v2: the centre frequency may also be retuned inside a file), same antennas, 1-2
product orderings, 1-3 centre frequencies, no duplicate final dump, regular grids, injective labels across all files.
Per-dump sensors other than the Observation/* ones are not compared here (ConcatenatedSensorCache: C19 / C12).
"""
import os
import random
import shutil
from fractions import Fraction

import numpy as np

from props import c01, c01win, c02

codes, q, unq = c01.codes, c01.q, c01.unq
T0 = dict(v2=1300000000.0, v3=1500000000.0)
CW = dict(v2=390625.0, v3=856e6 / 4096)
CENTRES = dict(v2=c01win.CENTRES, v3=[1284e6, 1284e6 - 1000 * 208984.375, 1284e6 + 400 * 208984.375, 1284e6 - 12 * 208984.375])
ANTS = ('m000', 'm001', 'm062')


def gen_cspec(rng, fmt=None):
    fmt = fmt or rng.choice(['v2', 'v3'])
    nfiles = rng.choice([2, 3, 3])
    F = rng.choice([2, 3, 4, 6])
    nwin = rng.choice([1, 2, 2, 3])
    nord = rng.choice([1, 2, 2])
    if nwin == 1 and nord == 1:
        nord = 2
    centres = rng.sample(CENTRES[fmt], nwin)
    spec = dict(fmt=fmt, concat=True, F=F, dt=rng.choice([1.0, 2.0, 4.0]), off=rng.choice([0.0, 0.0, 0.5, 2.0]),
                nants=rng.choice([2, 2, 3]), sseed=rng.randrange(1 << 20), rot=rng.choice([1, 3, 4]))
    files = []
    for k in range(nfiles):
        T = rng.randint(3, 5)
        fs = dict(T=T, gap=rng.choice([0, 0, 1, 3]), order=(k % nord) if k < nord else rng.randrange(nord),
                  acts=c01.gen_events(rng, T, c02.STATES), targets=c01.gen_events(rng, T, c01.TARGETS),
                  labels=c01.gen_events(rng, T, c02.LABELS[1:]))
        c = centres[k % nwin] if k < nwin else rng.choice(centres)
        fs['retunes'] = [[0, c]]
        if fmt == 'v2' and nwin > 1 and rng.random() < 0.35:
            fs['retunes'].append([rng.randint(1, T - 1), rng.choice([x for x in centres if x != c])])
        files.append(fs)
    spec['files'] = files
    return spec


class CatFixture:
    sig_prefix = None
    with_sensors = False

    def __init__(self, spec, ctx, tag='c01cat'):
        import katdal
        from fixtures import c01files as cf
        from fixtures import v4
        self.spec = spec
        fmt = self.fmt = spec['fmt']
        self.sig_prefix = 'fmt=%s;concat' % fmt
        F, dt, off = spec['F'], spec['dt'], spec['off']
        self.F = F
        self.tmp = v4.scratch_dir(tag)
        self.files = []
        self.dup, self.centroid, self.segs, self.cbf_dump = False, False, [], dt
        self.upper = fmt == 'v3'
        names = self.ant_names = ANTS[:spec['nants']]
        self.numeric, self.categorical = [], []
        try:
            T = self.T = sum(f['T'] for f in spec['files'])
            st = None
            fns, stored_ts, dump_centre, dump_order = [], [], [], []
            t0, row = T0[fmt], 0
            orders = {}
            for k, fs in enumerate(spec['files']):
                t0 += fs['gap'] * dt
                fn = os.path.join(self.tmp, '%d.h5' % int(t0))
                hist = cf.gen_hist(random.Random(spec['sseed'] + k), names, t0, dt, dt * fs['T'] + dt)
                retunes = [(int(a), float(c)) for a, c in fs['retunes']]
                if fmt == 'v2':
                    _, cps, ts, dc = cf.write_v2_windows(fn, retunes, off=off, T=fs['T'], F=F, ants=names, t0=t0, dt=dt,
                                                         acts=fs['acts'], targets=fs['targets'], labels=fs['labels'], hist=hist)
                else:
                    _, cps, ts = cf.write_v3(fn, T=fs['T'], F=F, ants=names, t0=t0, dt=dt, acts=fs['acts'], targets=fs['targets'],
                                             labels=fs['labels'], cbf_dt=dt, hist=hist, bandwidth=CW['v3'] * F,
                                             l0_centre=retunes[0][1])
                    dc = [retunes[0][1]] * fs['T']
                if st is None:
                    st = cf.labelled(T, F, len(cps))
                    base_cps = [(str(a), str(b)) for a, b in cps]
                cf.relabel_h5(fn, fmt, cf.slice_labelled(st, row, row + fs['T']))
                r = (spec['rot'] * fs['order']) % len(base_cps)
                order = base_cps[r:] + base_cps[:r]
                orders[fs['order']] = order
                cf.set_bls_ordering(fn, fmt, order)
                fns.append(fn)
                stored_ts += list(ts)
                dump_centre += [float(c) for c in dc]
                dump_order += [fs['order']] * fs['T']
                row += fs['T']
                t0 += fs['T'] * dt
            self.st = st
            self.stored_ts = stored_ts
            self.dump_centre = np.array(dump_centre)
            kw = dict(band='l') if fmt == 'v3' else {}
            self.d = d = katdal.open(fns if len(fns) > 1 else fns[0], time_offset=off, **kw)
            self.files = [x.file for x in getattr(d, 'datasets', [d])]
            st_ts = np.array(stored_ts, dtype=np.float64)
            self.exp_ts = st_ts + 0.5 * dt + off
            self.written_centres = sorted(set(dump_centre))
            self.win_centre = [float(w.centre_freq) for w in d.spectral_windows]
            if sorted(self.win_centre) != self.written_centres:
                raise c01win.WindowsDiffer(spec, AssertionError('windows %r differ from the written centre frequencies %r'
                                                                % (self.win_centre, self.written_centres)))
            self.dump_spw = [self.win_centre.index(c) for c in dump_centre]
            got_orders = [[(str(a), str(b)) for a, b in sa.corr_products] for sa in d.subarrays]
            want = [orders[k] for k in sorted(orders)]
            if sorted(got_orders) != sorted(want):
                raise c01win.WindowsDiffer(spec, AssertionError('subarrays differ from the written product orderings'))
            self.dump_sub = [got_orders.index(orders[o]) for o in dump_order]
            if fmt == 'v2':
                cases = [[1003, [2, [q(c), q(CW['v2'] * F), F, 0, codes(''), [], [], []]]] for c in self.win_centre]
            else:
                cases = [[1003, [3, [q(0), q(CW['v3'] * F), F, 0, codes('l'), [q(c)], [], []]]] for c in self.win_centre]
            self.doc_axis, self.axis_problems = [], []
            for k, out in enumerate(ctx.model(cases)):
                if not out:
                    raise AssertionError('the model of the reader builds no window')
                win, model_fq, spec_fq, m_lower, s_lower = out
                doc = [unq(p) for p in spec_fq]
                self.doc_axis.append(np.array([float(x) for x in doc]))
                got = [Fraction(float(x)) for x in np.asarray(d.spectral_windows[k].channel_freqs, dtype=float)]
                if got != doc or (int(d.spectral_windows[k].sideband) == -1) != bool(s_lower):
                    self.axis_problems.append((self.sig_prefix + ';attr=channel_freqs;what=differs', [float(x) for x in got[:6]],
                                               [float(x) for x in doc[:6]], 'property'))
                self.upper = not bool(s_lower)
            self.ob = c01win.WinObservation(d, self.exp_ts, self.dump_spw, self.doc_axis, CW[fmt], dump_sub=self.dump_sub)
            self.cps_by_sub = self.ob.cps
            self.cps_full = self.cps_by_sub[0]
            self.stored_cps = self.cps_full
            self.B = len(self.cps_full)
            self.sensors = ['Observation/scan_index', 'Observation/target']
            self.full = dict((nm, np.array(list(d.sensor.get(nm)[:]))) for nm in self.sensors)
        except BaseException:
            self.close()
            raise

    def cfg_wire(self, atoms):
        s = self.spec
        return [c01.FMT_ID[self.fmt], [], 0, int(self.upper), 0, [], [q(s['dt']), q(self.cbf_dump), q(s['off'])],
                [q(t) for t in self.stored_ts], [[i, c01.wire_selarg(v)] for i, v in sorted(atoms.items())]]

    def model_case(self, atoms, ops):
        return [1005, [self.cfg_wire(atoms), self.ob.wire(), ops]]

    def close(self):
        for f in self.files:
            try:
                f.close()
            except Exception:      # noqa: BLE001
                pass
        shutil.rmtree(self.tmp, ignore_errors=True)


def build_cfixture(ctx, rng, tries=12):
    last = None
    for _ in range(tries):
        spec = gen_cspec(rng)
        try:
            return CatFixture(spec, ctx)
        except AssertionError as e:
            last = e
            c01.SKIPPED.append(('cat', repr(e)[:80]))
        except (IndexError, ValueError, KeyError, TypeError, AttributeError, ZeroDivisionError) as e:
            raise c01.OpenFailed(spec, e)
    raise RuntimeError('no usable concatenated observation model in %d tries: %r' % (tries, last))


def report_open(ctx, fx, hid):
    case = dict(hid=dict(hid, kind_open='axis'), spec=fx.spec, fail_at=0, ops=['open'])
    for sig, got, exp, kind in fx.axis_problems:
        ctx.disagree(sig, case, got, exp, 'channel frequencies / sideband of a spectral window are not the documented ones '
                     'of the written centre frequency', spec=exp, kind=kind)
    got = [[int(x) for x in fx.d.sensor.get('Observation/spw_index')[:]], [int(x) for x in fx.d.sensor.get('Observation/subarray_index')[:]]]
    if got != [fx.dump_spw, fx.dump_sub]:
        ctx.disagree(fx.sig_prefix + ';attr=Observation/spw_index+subarray_index;what=not_as_written', case, got,
                     [fx.dump_spw, fx.dump_sub], 'the window / subarray every dump is attributed to is not the one of the '
                     'file it was recorded in (centre frequency, product ordering as written)', spec=[fx.dump_spw, fx.dump_sub])
    ctx.count('cat:datasets')
    ctx.count('cat:datasets=%s:files=%d,windows=%d,subarrays=%d' % (fx.fmt, len(fx.spec['files']), len(fx.win_centre),
                                                                  len(fx.cps_by_sub)))


def run(ctx):
    rng = ctx.rng
    nf, nh = ctx.scale(8, 24), ctx.scale(12, 40)
    for k in range(nf):
        fseed = rng.randrange(1 << 30)
        hid0 = dict(kind='cat', fseed=fseed, hseed=0, nops=0)
        try:
            fx = build_cfixture(ctx, random.Random(fseed))
        except (c01.OpenFailed, c01win.WindowsDiffer) as e:
            c01win.open_failed(ctx, e, hid0, prefix='fmt=%s;concat' % e.spec['fmt'])
            continue
        try:
            report_open(ctx, fx, hid0)
            for j in range(nh):
                hseed = rng.randrange(1 << 30)
                nops = random.Random(hseed).randint(6, 12)
                c01win.run_one_w(ctx, fx, hseed, nops, dict(kind='cat', fseed=fseed, hseed=hseed, nops=nops))
                ctx.count('cat:histories')
        finally:
            fx.close()


def replay(ctx, hid):
    try:
        fx = build_cfixture(ctx, random.Random(hid['fseed']))
    except (c01.OpenFailed, c01win.WindowsDiffer) as e:
        c01win.open_failed(ctx, e, hid, prefix='fmt=%s;concat' % e.spec['fmt'])
        return True
    try:
        if hid.get('kind_open') or not hid.get('nops'):
            report_open(ctx, fx, hid)
        else:
            c01win.run_one_w(ctx, fx, hid['hseed'], hid['nops'], hid)
    finally:
        fx.close()
    return True
