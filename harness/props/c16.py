"""C16 — Flags: bit meanings, selection by name and derivation (correspondence + search)."""
import shutil

import numpy as np

from fixtures import h5, v4

RULE = ('selection arguments (all/empty/comma strings with blanks/lists/unknown names; every subset of the 8 '
        'documented names in the thorough tier) applied with select(flags=...) to synthetic v4, v3 and v2 data sets '
        'whose stored flag bytes run through all 256 values; a case is one (format, argument) pair, non-trivial when '
        'the argument names at least one flag, distinct by (format, canonical argument)')
ASSUMPTIONS = ['v2/v3 files without a flags_description table (the default description is flags.NAMES)',
               'postproc derivation is exercised by C13; here raw flags = stored | data_lost']

DOC = ['reserved0', 'static', 'cam', 'data_lost', 'ingest_rfi', 'predicted_rfi', 'cal_rfi', 'postproc']


def codes(s):
    return [ord(c) for c in s]


def wire_arg(arg):
    if isinstance(arg, str):
        return [0, codes(arg)]
    return [1, [codes(a) for a in arg]]


def gen_args(ctx):
    rng = ctx.rng
    args = ['all', '', [], 'cam', 'data_lost', ['static'], 'cam,static', ' cam , postproc ', 'bogus',
            'bogus,cam', ['nope', 'cal_rfi'], 'reserved0', list(DOC), 'all,cam', 'ALL', 'Cam', ',', 'cam,',
            ['cam', 'cam'], ('ingest_rfi', 'predicted_rfi')]
    if ctx.tier == 'thorough':
        for m in range(256):
            names = [DOC[i] for i in range(8) if m >> i & 1]
            args.append(list(names))
            args.append(','.join(names) if names else '')
    n = ctx.scale(30, 300)
    for _ in range(n):
        k = rng.randint(0, 5)
        names = [rng.choice(DOC + ['bogus', 'x', 'all', 'data lost', 'cam ']) for _ in range(k)]
        if rng.random() < 0.5:
            sep = rng.choice([',', ', ', ' ,', ' , ', ',\t'])
            args.append(sep.join(names))
        else:
            args.append(names)
    return args


def build(ctx):
    tmp = v4.scratch_dir('c16')
    T, F = 4, 8
    sets = {}
    B = 12
    fl = (np.arange(T * F * B) * 37 % 256).astype(np.uint8).reshape(T, F, B)
    x = v4.build_v4(T=T, F=F, arrays={'flags': fl}, tmp=tmp + '/v4', seed=ctx.seed,
                    chunks={'correlator_data': (2, 4, 12), 'flags': (1, 8, 12)},
                    lose=[('sdp_l0', 'correlator_data', (1, 1, 0))])
    lost = np.zeros((T, F, B), bool)
    lost[2:4, 4:8, :] = True
    sets['v4'] = (x.d, fl, lost)
    B = 10
    fl3 = (np.arange(T * F * B) * 37 % 256).astype(np.uint8).reshape(T, F, B)
    import os
    os.makedirs(tmp + '/h5')
    d3, st3, _ = h5.open_v3(tmp + '/h5', T=T, F=F, flags=fl3, seed=ctx.seed)
    sets['v3'] = (d3, fl3, np.zeros_like(fl3, bool))
    d2, st2, _ = h5.open_v2(tmp + '/h5', T=T, F=F, flags=fl3, seed=ctx.seed)
    sets['v2'] = (d2, fl3, np.zeros_like(fl3, bool))
    return tmp, sets


def canon_arg(arg):
    return arg if isinstance(arg, str) else list(arg)


def check_selection(ctx, fmt, d, stored, lost, arg, mouts):
    """mouts = model output for wire (1 arg): [model_v34, spec_v34, model_v2, spec_v2]."""
    model_mask, spec_mask = (mouts[2], mouts[3]) if fmt == 'v2' else (mouts[0], mouts[1])
    try:
        d.select(flags=arg)
        flags = np.asarray(d.flags[:])
        flags = flags.view(np.uint8) != 0 if flags.dtype == bool else flags != 0
        raw = np.asarray(d.raw_flags[:]) if fmt == 'v4' else stored
    except Exception as e:   # the property says selection by name always works (unknown names only warn)
        ctx.disagree('fmt=%s;what=select_flags_raises;exc=%s' % (fmt, type(e).__name__),
                     dict(fmt=fmt, arg=canon_arg(arg)), repr(e), spec_mask, 'select(flags=...) raised')
        return
    exp_raw = stored | (lost.astype(np.uint8) << 3)
    if not np.array_equal(raw, exp_raw):
        ctx.disagree('fmt=%s;what=raw_flags' % fmt, dict(fmt=fmt, arg=canon_arg(arg)),
                     raw[:1, :1].tolist(), exp_raw[:1, :1].tolist(), 'raw flags differ from stored|data_lost')
    # impl mask as observed through the boolean flags of single-bit bytes
    impl_mask = 0
    for i in range(8):
        sel = exp_raw == (1 << i)
        if sel.any():
            vals = np.unique(flags[sel])
            if len(vals) != 1:
                impl_mask = -1
                break
            impl_mask |= int(vals[0]) << i
    if impl_mask != model_mask:
        ctx.disagree('fmt=%s;what=mask_tie' % fmt, dict(fmt=fmt, arg=canon_arg(arg)), impl_mask, model_mask,
                     'implementation mask differs from model mask', spec=spec_mask, kind='tie')
    exp = (exp_raw & np.uint8(spec_mask)) != 0
    if not np.array_equal(flags, exp):
        bad = np.argwhere(flags != exp)[0]
        ctx.disagree('fmt=%s;what=flags_bool' % fmt,
                     dict(fmt=fmt, arg=canon_arg(arg), at=bad.tolist(), raw=int(exp_raw[tuple(bad)])),
                     bool(flags[tuple(bad)]), bool(exp[tuple(bad)]),
                     'boolean flag differs from (raw & mask(selected names)) != 0', spec=spec_mask)
    ctx.traces_validated += 1


def run(ctx):
    args = gen_args(ctx)
    mcases = [[16, [1, wire_arg(a)]] for a in args]
    mouts = ctx.model(mcases) if ctx.model_ok else None
    # byte-level sweep of the boolean rule through the extracted model: all raw bytes x the masks met
    masks = sorted({m for o in (mouts or []) for m in o if m >= 0})
    sweep = [[16, [2, r, m]] for m in masks[:40] for r in range(256)]
    for (c, o) in zip(sweep, ctx.model(sweep) if ctx.model_ok else []):
        r, m = c[1][1], c[1][2]
        if o[0] != int((r & m) != 0) or o[1] != o[0]:
            ctx.disagree('what=flag_bool_model', dict(raw=r, mask=m), int((r & m) != 0), o, 'model flag_bool != numpy')
    tmp, sets = build(ctx)
    try:
        for fmt, (d, stored, lost) in sets.items():
            base_vis = np.asarray(d.vis[:]).copy()
            for i, a in enumerate(args):
                mo = mouts[i] if mouts else spec_py(a)
                if mo[0] != mo[1] or mo[2] != mo[3]:
                    ctx.disagree('fmt=%s;what=model_vs_spec' % fmt, dict(arg=canon_arg(a)), mo[0], mo[1],
                                 'model mask differs from documented-bit spec', kind='property')
                check_selection(ctx, fmt, d, stored, lost, a, mo)
                names = a if isinstance(a, str) else ','.join(a)
                ctx.note_case((fmt, canon_arg(a)), nontrivial=any(n in names for n in DOC) or a == 'all',
                              sample=dict(fmt=fmt, flags=canon_arg(a), mask=mo[1] if fmt != 'v2' else mo[3]))
                ctx.count('fmt=' + fmt)
                ctx.count('argkind=' + ('str' if isinstance(a, str) else 'list'))
            # interleavings with other select() calls: flag/weight selection must not move anything else
            interleave(ctx, fmt, d, stored, lost, base_vis)
    finally:
        shutil.rmtree(tmp, ignore_errors=True)
    ctx.exhaustive = False
    ctx.extra['masks_swept_bytewise'] = len(masks[:40])


def spec_py(a):
    """Fallback spec used only while searching with no model binary."""
    if isinstance(a, str):
        names = [] if not a else (DOC if a == 'all' else [n.strip() for n in a.split(',')])
    else:
        names = list(a)
    m34 = sum(1 << i for i in range(8) if DOC[i] in names)
    m2 = sum(1 << (7 - i) for i in range(8) if DOC[i] in names)
    return [m34, m34, m2, m2]


def interleave(ctx, fmt, d, stored, lost, base_vis):
    rng = ctx.rng
    n = ctx.scale(12, 120)
    d.select()
    for step in range(n):
        kind = rng.choice(['dumps', 'channels', 'ants', 'reset', 'pol'])
        try:
            if kind == 'dumps':
                a = rng.randint(0, 2)
                d.select(dumps=slice(a, a + rng.randint(1, 3)))
            elif kind == 'channels':
                a = rng.randint(0, 5)
                d.select(channels=slice(a, a + rng.randint(1, 3)))
            elif kind == 'ants':
                d.select(ants=d.ants[0].name if rng.random() < 0.5 else [a.name for a in d.ants])
            elif kind == 'pol':
                d.select(pol=rng.choice(['hh', 'vv', 'hv']))
            else:
                d.select()
        except Exception:
            continue
        before = (d.dumps.tolist(), d.channels.tolist(), d.corr_products.tolist(), d.shape)
        v0 = np.asarray(d.vis[:]).copy()
        r0 = np.asarray(d.raw_flags[:]).copy() if fmt == 'v4' else None
        arg = rng.choice(['cam', 'all', '', 'static,cal_rfi', ['data_lost'], 'bogus'])
        wsel = rng.choice([None, 'all', ''])
        if wsel is None:
            d.select(flags=arg)
        else:
            d.select(flags=arg, weights=wsel) if fmt == 'v3' else d.select(flags=arg)
        after = (d.dumps.tolist(), d.channels.tolist(), d.corr_products.tolist(), d.shape)
        v1 = np.asarray(d.vis[:])
        ok = before == after and np.array_equal(v0, v1)
        if fmt == 'v4':
            ok = ok and np.array_equal(r0, np.asarray(d.raw_flags[:]))
        if not ok:
            ctx.disagree('fmt=%s;what=flag_select_changes_selection' % fmt,
                         dict(fmt=fmt, prior=kind, flags=canon_arg(arg)), after[3], before[3],
                         'select(flags=...) changed vis / raw flags / time-freq-product selection')
        # boolean flags under the current selection
        m = spec_py(arg)
        mask = m[3] if fmt == 'v2' else m[1]
        raw_full = stored | (lost.astype(np.uint8) << 3)
        sub = raw_full[np.ix_(d.dumps, d.channels, _cp_index(d))]
        fl = np.asarray(d.flags[:])
        fl = fl.view(np.uint8) != 0 if fl.dtype == bool else fl != 0
        if not np.array_equal(fl, (sub & np.uint8(mask)) != 0):
            ctx.disagree('fmt=%s;what=flags_bool_after_history' % fmt,
                         dict(fmt=fmt, prior=kind, flags=canon_arg(arg), dumps=d.dumps.tolist(), channels=d.channels.tolist()),
                         fl.shape, sub.shape, 'boolean flags after a selection history differ from (raw & mask) != 0')
        ctx.note_case((fmt, 'hist', step, kind, canon_arg(arg), before[0], before[1]), sample=None)
        ctx.count('history_steps')
    d.select()


def _cp_index(d):
    return np.nonzero(d._corrprod_keep)[0]


def replay(ctx, doc):
    case = doc.get('case', {})
    tmp, sets = build(ctx)
    try:
        fmt = case.get('fmt', 'v4')
        d, stored, lost = sets[fmt]
        a = case.get('arg', case.get('flags', 'all'))
        mo = ctx.model([[16, [1, wire_arg(a)]]])[0] if ctx.model_ok else spec_py(a)
        check_selection(ctx, fmt, d, stored, lost, a, mo)
        ctx.note_case((fmt, canon_arg(a)))
    finally:
        shutil.rmtree(tmp, ignore_errors=True)
