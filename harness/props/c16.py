"""C16 — Flags: bit meanings, selection by name and derivation (correspondence + search)."""
import logging
import shutil

import numpy as np

from fixtures import h5, v4

RULE = ('stream args, systematic part (every run, every format): an unknown name at every position (first / middle / last / both ends) of '
        'requests of 1-3 known names as list, tuple and string; every placement (leading / trailing on the whole string, before / '
        'after the comma, everywhere) of each ASCII white-space character in string requests, and the same padded names as list '
        'elements.  stream tables: v3 / v2 files with their OWN flags_description table (KAT-7 table, the documented names in another '
        'order, 8 random distinct names, a 7-row table that must be refused) opened through katdal.open, 25-33 select() calls each '
        '(names of the table as string / list / tuple, names the table does not have, unknown names in front of known ones, white '
        'space at both ends, empty, all, calls without flags=); after EVERY call _flags_select, d.flags, the warnings and the names '
        'the getter reports are compared with wire 164; a case is one (file, history prefix), non-trivial when a name of the table '
        'is requested, distinct by (format, table, step, argument).  '
        'stream args: selection arguments (all/empty/comma strings with blanks/lists/unknown names; every subset of '
        'the 8 documented names in the thorough tier) applied with select(flags=...) to synthetic v4, v3 and v2 data '
        'sets whose stored flag bytes run through all 256 values; a case is one (format, argument) pair, non-trivial '
        'when the argument names at least one flag, distinct by (format, canonical argument).  stream v4cal: random '
        'v4 data sets (2-3 antennas, 3-6 dumps; chunk layouts drawn independently per stored array, or related to the '
        'flags grid: same grid / every boundary shifted / same block sizes in another order / one boundary moved, '
        'incl. layouts where a lost chunk has the shape of a flags chunk and lies across two of them - forced on every '
        'seed) with random stored flag bytes (all 8 bits), lost chunks of '
        'correlator_data / flags / weights / weights_channel (the set of elements they cover is computed by the model '
        'from the layout, wire 163), opened without calibration or with applycal = G and/or '
        'B products whose solutions are powers of two with NaN inputs / NaN band edges / a second B event; then a '
        'random history of 5-8 select() calls (flags= present or absent, selections with and without postproc and '
        'data_lost, weights=, dumps/channels/pol/ants/corrprods/reset); after EVERY call d.raw_flags, d.flags, d.vis '
        'and d.weights are compared with the extracted model; a case is one (data set, history prefix), non-trivial '
        'when the data set has a lost chunk or an invalid correction inside the current selection, distinct by '
        '(configuration, step).  stream threads: select(flags=...) on a v4 data set, then the FIRST read of the new flags '
        'indexer by 2-3 threads with a forced interleaving (the first reader is held inside the transform chain of the '
        'indexer object while the others read); every reader must get the boolean (raw & mask) != 0; a case is one '
        '(selection, pause position, number of late readers, dump selection).  stream concat: ConcatenatedDataSet of 2-3 members (v4+v4, v3+v3, v2+v2, v3+v4; stored '
        'flag bytes cover 0..255 in every member; v4 members with a lost chunk or opened with applycal; members '
        'optionally pre-selected on their own with flags= / weights= before the concatenation; shuffled input order) '
        'under a history of 6-20 select() calls on the whole (flags= in every spelling incl. the empty ones \'\', [], (); '
        'weights=; dumps / channels / pol / reset; calls without flags=) and directly on members; right after '
        'construction and after EVERY call the glued flags / weights / vis, every member\'s _flags_select / '
        '_weights_select, its own flags and (v4) raw_flags are compared with the model of the selection plumbing '
        '(wire 162) and with the spec mask of the last flags= given to the whole; a case is one (concatenation, '
        'history prefix), non-trivial when some selected raw byte is non-zero, distinct by (configuration, step)')
ASSUMPTIONS = ['v2/v3 files of the args / interleave / concat streams have no flags_description table (the default '
               'description is flags.NAMES); files with their own table of 8 distinct names are the tables stream',
               'v4cal stream: which samples carry an invalid correction is computed from the generated cal solutions '
               '(G constant in time, B piecewise constant in time with NaN only at band edges or for whole inputs); '
               'the general derivation of corrections from solutions is C13/C14',
               'v4cal stream: correction factors are powers of two, so vis and weights are compared exactly',
               'v4cal stream: no preselect window, all four arrays have the same number of dumps, no separate flags '
               'stream, npy chunk store (the lost-map theorems hold for any window and phantom dumps; C06 generates them)',
               'threads stream: only the first read of one flags indexer is forced to interleave (select() concurrent '
               'with reads is C20 / C17)',
               'concat stream: all members of a concatenation lie in one subarray and one spectral window (checked when '
               'the fixture is built); the time / frequency / product selection of the whole is taken from the data set '
               '(dumps, channels, _corrprod_keep) - that it is right is C02 / C19; vis and weights are compared with what '
               'the freshly concatenated data set showed (the property only says they do not change)',
               'selection arguments are the documented spellings: a string, or a list / tuple of strings (not None, not a '
               'one-shot iterator)']

DOC = ['reserved0', 'static', 'cam', 'data_lost', 'ingest_rfi', 'predicted_rfi', 'cal_rfi', 'postproc']


def _have(ctx, wire):
    """Is this wire of the extracted model usable?  (A Model file that does not compile on the tree under test - e.g.
    because a translator item it needs failed closed - is left out of the driver; the streams then go on with the
    Python fallbacks as the failing-input search.)"""
    if not ctx.model_ok:
        return False
    try:
        import json
        import os
        from vh import core
        lo = os.path.join(core.EXTRACT_DIR, 'left_out_wires.json')
        return not (os.path.exists(lo) and str(wire) in json.load(open(lo)))
    except Exception:
        return True


def codes(s):
    return [ord(c) for c in s]


def wire_arg(arg):
    if isinstance(arg, str):
        return [0, codes(arg)]
    return [1, [codes(a) for a in arg]]


def gen_args(ctx):
    rng = ctx.rng
    args = ['all', '', [], 'cam', 'data_lost', ['static'], 'cam,static', ' cam , postproc ', 'bogus',
            'bogus,cam', ['nope', 'cal_rfi'], 'reserved0', list(DOC), 'all,cam', 'ALL', 'Cam', ',', 'cam,',
            ['cam', 'cam'], ('ingest_rfi', 'predicted_rfi')]
    args += [a for _cls, a in systematic_args()]
    if ctx.tier == 'thorough':
        for m in range(256):
            names = [DOC[i] for i in range(8) if m >> i & 1]
            args.append(list(names))
            args.append(','.join(names) if names else '')
    n = ctx.scale(30, 300)
    for _ in range(n):
        k = rng.randint(0, 5)
        names = [rng.choice(DOC + ['bogus', 'x', 'all', 'data lost', 'cam ']) for _ in range(k)]
        if rng.random() < 0.5:
            sep = rng.choice([',', ', ', ' ,', ' , ', ',\t'])
            args.append(sep.join(names))
        else:
            args.append(names)
    return args


WS = [' ', '\t', '\n', '\r', '\x0b', '\x0c', ' \t ', '\r\n']      # white space str.strip() removes (ASCII)


def systematic_args():
    """[(class, argument)] - the two families every run walks through on every format:
    * an UNKNOWN name at every position of a request of 1-3 known names (and two unknown names), as a list, a tuple and
      a string: the names in front of it AND the names behind it must count (a setter that gives up at the first
      unknown name only shows when a known name FOLLOWS it);
    * every placement of white space in a string request: in front of the whole string, behind it, before / after a
      comma, everywhere - for every white space character str.strip() removes; and the same strings handed in as
      LIST elements, where nothing is stripped (' cam' is then an unknown name)."""
    out = []
    for known in (['cam'], ['static', 'cam'], ['postproc', 'reserved0', 'ingest_rfi']):
        for pos in range(len(known) + 1):
            names = known[:pos] + ['bogus'] + known[pos:]
            where = 'first' if pos == 0 else ('last' if pos == len(known) else 'middle')
            out.append(('unknown@%s;kind=list' % where, list(names)))
            out.append(('unknown@%s;kind=str' % where, ','.join(names)))
        out.append(('unknown@both_ends;kind=list', ['nope'] + known + ['bogus']))
        out.append(('unknown@both_ends;kind=str', ','.join(['nope'] + known + ['bogus'])))
    out.append(('unknown@first;kind=tuple', ('bogus', 'cal_rfi', 'static')))
    out.append(('unknown@first;kind=list', ['', 'data_lost']))              # the empty name is an unknown name too
    out.append(('unknown@first;kind=str', ',data_lost'))
    for w in WS:
        out.append(('ws=leading;kind=str', w + 'cam'))
        out.append(('ws=trailing;kind=str', 'cam' + w))
        out.append(('ws=leading;kind=str', w + 'static,cam'))
        out.append(('ws=trailing;kind=str', 'static,cam' + w))
        out.append(('ws=before_comma;kind=str', 'static' + w + ',cam'))
        out.append(('ws=after_comma;kind=str', 'static,' + w + 'cam'))
        out.append(('ws=everywhere;kind=str', w + 'static' + w + ',' + w + 'cam' + w))
    out.append(('ws=leading;kind=str', ' all'))                             # NOT the group 'all': the unknown name 'all'
    out.append(('ws=only;kind=str', ' '))
    out.append(('ws=trailing;kind=str', 'postproc,\n'))
    for w in (' ', '\n'):
        out.append(('ws=leading;kind=list', [w + 'cam', 'static']))          # list elements are NOT stripped
        out.append(('ws=trailing;kind=list', ['static', 'cam' + w]))
    return out


def build(ctx):
    tmp = v4.scratch_dir('c16')
    T, F = 4, 8
    sets = {}
    B = 12
    fl = (np.arange(T * F * B) * 37 % 256).astype(np.uint8).reshape(T, F, B)
    import os

    def opened(fmt, fn):
        # a data set of the args stream that cannot even be opened is a failing input of its own (the case replays it)
        try:
            return fn()
        except Exception as ex:
            ctx.disagree('fmt=%s;what=open_raises;exc=%s' % (fmt, type(ex).__name__), dict(fmt=fmt, arg='all'),
                         repr(ex)[:300], 'a data set', 'opening the synthetic %s data set of the args stream raised' % fmt)
            return None
    x = opened('v4', lambda: v4.build_v4(T=T, F=F, arrays={'flags': fl}, tmp=tmp + '/v4', seed=ctx.seed,
                                         chunks={'correlator_data': (2, 4, 12), 'flags': (1, 8, 12)},
                                         lose=[('sdp_l0', 'correlator_data', (1, 1, 0))]))
    lost = np.zeros((T, F, B), bool)
    lost[2:4, 4:8, :] = True
    if x is not None:
        sets['v4'] = (x.d, fl, lost)
    B = 10
    fl3 = (np.arange(T * F * B) * 37 % 256).astype(np.uint8).reshape(T, F, B)
    os.makedirs(tmp + '/h5')
    r3 = opened('v3', lambda: h5.open_v3(tmp + '/h5', T=T, F=F, flags=fl3, seed=ctx.seed))
    if r3 is not None:
        sets['v3'] = (r3[0], fl3, np.zeros_like(fl3, bool))
    r2 = opened('v2', lambda: h5.open_v2(tmp + '/h5', T=T, F=F, flags=fl3, seed=ctx.seed))
    if r2 is not None:
        sets['v2'] = (r2[0], fl3, np.zeros_like(fl3, bool))
    return tmp, sets


def canon_arg(arg):
    return arg if isinstance(arg, str) else list(arg)


class _Warnings(logging.Handler):
    """Collects the WARNING records of the katdal loggers while a select() call runs (fixtures.v4 silences logging
    globally; it is re-enabled only inside the `with`)."""
    def __init__(self):
        super().__init__(logging.WARNING)
        self.records = []

    def emit(self, record):
        self.records.append(record)

    def __enter__(self):
        self._disabled = logging.root.manager.disable
        logging.disable(logging.NOTSET)
        self._lg = logging.getLogger('katdal')
        self._level, self._prop = self._lg.level, self._lg.propagate
        self._lg.setLevel(logging.WARNING)
        self._lg.propagate = False
        self._handlers = list(self._lg.handlers)     # katdal installs its own stream handler: keep it quiet
        self._lg.handlers = [self]
        return self

    def __exit__(self, *exc):
        self._lg.handlers = self._handlers
        self._lg.setLevel(self._level)
        self._lg.propagate = self._prop
        logging.disable(self._disabled)

    def unknown_flag_warnings(self):
        return sum(1 for r in self.records if 'is not a legitimate flag type' in str(r.msg))


def check_selection(ctx, fmt, d, stored, lost, arg, mouts):
    """mouts = model output for wire (1 arg): [model_v34, spec_v34, model_v2, spec_v2, number_of_warnings]."""
    model_mask, spec_mask = (mouts[2], mouts[3]) if fmt == 'v2' else (mouts[0], mouts[1])
    try:
        with _Warnings() as w:
            d.select(flags=arg)
        if len(mouts) > 4 and w.unknown_flag_warnings() != mouts[4]:
            ctx.disagree('fmt=%s;what=unknown_name_warning;%s' % (fmt, 'missing' if w.unknown_flag_warnings() < mouts[4] else 'spurious'),
                         dict(fmt=fmt, arg=canon_arg(arg)), w.unknown_flag_warnings(), mouts[4],
                         'number of "not a legitimate flag type" warnings differs from the number of requested names '
                         'that are not documented flag names')
        flags = np.asarray(d.flags[:])
        flags = flags.view(np.uint8) != 0 if flags.dtype == bool else flags != 0
        raw = np.asarray(d.raw_flags[:]) if fmt == 'v4' else stored
    except Exception as e:   # the property says selection by name always works (unknown names only warn)
        ctx.disagree('fmt=%s;what=select_flags_raises;exc=%s' % (fmt, type(e).__name__),
                     dict(fmt=fmt, arg=canon_arg(arg)), repr(e), spec_mask, 'select(flags=...) raised')
        _recover(d)
        return
    exp_raw = stored | (lost.astype(np.uint8) << 3)
    if not np.array_equal(raw, exp_raw):
        ctx.disagree('fmt=%s;what=raw_flags' % fmt, dict(fmt=fmt, arg=canon_arg(arg)),
                     raw[:1, :1].tolist(), exp_raw[:1, :1].tolist(), 'raw flags differ from stored|data_lost')
    # impl mask as observed through the boolean flags of single-bit bytes
    impl_mask = 0
    for i in range(8):
        sel = exp_raw == (1 << i)
        if sel.any():
            vals = np.unique(flags[sel])
            if len(vals) != 1:
                impl_mask = -1
                break
            impl_mask |= int(vals[0]) << i
    if impl_mask != model_mask:
        ctx.disagree('fmt=%s;what=mask_tie' % fmt, dict(fmt=fmt, arg=canon_arg(arg)), impl_mask, model_mask,
                     'implementation mask differs from model mask', spec=spec_mask, kind='tie')
    exp = (exp_raw & np.uint8(spec_mask)) != 0
    if not np.array_equal(flags, exp):
        bad = np.argwhere(flags != exp)[0]
        ctx.disagree('fmt=%s;what=flags_bool' % fmt,
                     dict(fmt=fmt, arg=canon_arg(arg), at=bad.tolist(), raw=int(exp_raw[tuple(bad)])),
                     bool(flags[tuple(bad)]), bool(exp[tuple(bad)]),
                     'boolean flag differs from (raw & mask(selected names)) != 0', spec=spec_mask)
    if fmt == 'v4':
        # raw flags and flags fetched JOINTLY in one dask graph (DaskLazyIndexer.get, the way mvftoms reads): the raw
        # flags must still be stored | data_lost whatever the selection does to the flags that share their blocks
        try:
            from katdal.lazy_indexer import DaskLazyIndexer
            jraw, jflags = [np.asarray(a) for a in DaskLazyIndexer.get([d.raw_flags, d.flags], np.s_[:, :, :])]
        except Exception as e:
            ctx.disagree('fmt=v4;what=joint_read_raises;exc=%s' % type(e).__name__, dict(fmt=fmt, arg=canon_arg(arg), joint=True),
                         repr(e)[:200], 'arrays', 'DaskLazyIndexer.get([d.raw_flags, d.flags], ...) raised')
            return
        if not np.array_equal(jraw, exp_raw):
            bad = np.argwhere(jraw != exp_raw)[0]
            ctx.disagree('fmt=v4;what=raw_flags;read=joint', dict(fmt=fmt, arg=canon_arg(arg), joint=True, at=bad.tolist()),
                         int(jraw[tuple(bad)]), int(exp_raw[tuple(bad)]),
                         'raw flags read jointly with the flags differ from stored|data_lost (the flag selection leaks into them)',
                         spec=int(exp_raw[tuple(bad)]))
        if jflags.dtype != bool or not np.array_equal(jflags, exp):
            ctx.disagree('fmt=v4;what=flags_bool;read=joint', dict(fmt=fmt, arg=canon_arg(arg), joint=True),
                         str(jflags.dtype), 'bool', 'flags read jointly with the raw flags differ from (raw & mask) != 0',
                         spec=spec_mask)
    ctx.traces_validated += 1


def run(ctx):
    import time
    t_run = [time.time()]
    walls = ctx.extra.setdefault('stream_wall_s', {})

    def lap(name):
        walls[name] = round(walls.get(name, 0.0) + time.time() - t_run[0], 1)
        t_run[0] = time.time()
    del _INCOQ[:]
    del _INCOQ_TAB[:]
    args = gen_args(ctx)
    mcases = [[16, [1, wire_arg(a)]] for a in args]
    mouts = ctx.model(mcases) if ctx.model_ok else None
    # byte-level sweep of the boolean rule through the extracted model: all raw bytes x the masks met
    masks = sorted({m for o in (mouts or []) for m in o if m >= 0})
    sweep = [[16, [2, r, m]] for m in masks[:40] for r in range(256)]
    for (c, o) in zip(sweep, ctx.model(sweep) if ctx.model_ok else []):
        r, m = c[1][1], c[1][2]
        if o[0] != int((r & m) != 0) or o[1] != o[0]:
            ctx.disagree('what=flag_bool_model', dict(raw=r, mask=m), int((r & m) != 0), o, 'model flag_bool != numpy')
    tmp, sets = build(ctx)
    sys_classes = {}
    for cls, a in systematic_args():
        sys_classes.setdefault(repr(canon_arg(a)), []).append(cls)
    try:
        for fmt, (d, stored, lost) in sets.items():
            base_vis = np.asarray(d.vis[:]).copy()
            for i, a in enumerate(args):
                mo = mouts[i] if mouts else spec_py(a)
                if mo[0] != mo[1] or mo[2] != mo[3]:
                    ctx.disagree('fmt=%s;what=model_vs_spec' % fmt, dict(arg=canon_arg(a)), mo[0], mo[1],
                                 'model mask differs from documented-bit spec', kind='property')
                check_selection(ctx, fmt, d, stored, lost, a, mo)
                names = a if isinstance(a, str) else ','.join(a)
                ctx.note_case((fmt, canon_arg(a)), nontrivial=any(n in names for n in DOC) or a == 'all',
                              sample=dict(fmt=fmt, flags=canon_arg(a), mask=mo[1] if fmt != 'v2' else mo[3])
                              if i == 3 else None)
                ctx.count('fmt=' + fmt)
                ctx.count('argkind=' + ('str' if isinstance(a, str) else 'list'))
                for cls in sys_classes.get(repr(canon_arg(a)), ()):
                    ctx.count('args:' + cls.split(';')[0])
            # interleavings with other select() calls: flag/weight selection must not move anything else
            lap('args')
            interleave(ctx, fmt, d, stored, lost, base_vis)
            lap('interleave')
            if fmt == 'v4':
                # the first read of a new flags indexer by several threads at once (forced interleaving)
                for trial in THREAD_TRIALS + [gen_thread_trial(ctx.rng) for _ in range(ctx.scale(1, 16))]:
                    run_threads(ctx, d, stored, lost, trial)
                lap('threads')
    finally:
        shutil.rmtree(tmp, ignore_errors=True)
    ctx.exhaustive = False
    ctx.extra['masks_swept_bytewise'] = len(masks[:40])
    # v3 / v2 files that carry their own flag table
    for f in ctx.findings:
        w = f.get('witness') or {}
        if w.get('stream') == 'tables':
            run_tables(ctx, w['cfg'])
    for i in range(ctx.scale(8, 60)):
        run_tables(ctx, gen_tables(ctx.rng, ctx.tier, force=TABLES_FORCED[i] if i < len(TABLES_FORCED) else None))
    lap('tables')
    # v4 data sets with calibration applied and lost chunks under random selection histories
    for f in ctx.findings:
        w = f.get('witness') or {}
        if w.get('stream') == 'v4cal':
            run_v4cal(ctx, w['cfg'])
    import glob
    import json
    import os
    corpus = os.path.join(os.path.dirname(os.path.dirname(os.path.dirname(os.path.abspath(__file__)))), 'corpus', 'C16')
    for fn in sorted(glob.glob(os.path.join(corpus, '*.replay.json'))):     # regression inputs (once-failing cases)
        case = json.load(open(fn)).get('case', {})
        if case.get('stream') == 'v4cal':
            run_v4cal(ctx, case['cfg'])
            ctx.count('v4cal:corpus')
    n = ctx.scale(14, 150)
    for i in range(n):
        run_v4cal(ctx, gen_v4cal(ctx.rng, ctx.tier, force=FORCED[i] if i < len(FORCED) else None))
    lap('v4cal')
    # concatenated data sets (v4+v4, v3+v3, v2+v2, v3+v4) under histories of flag / weight selections
    for fn in sorted(glob.glob(os.path.join(corpus, '*.replay.json'))):
        case = json.load(open(fn)).get('case', {})
        if case.get('stream') == 'concat':
            run_concat(ctx, case['cfg'])
            ctx.count('concat:corpus')
    for f in ctx.findings:
        w = f.get('witness') or {}
        if w.get('stream') == 'concat':
            run_concat(ctx, w['cfg'])
    n = ctx.scale(10, 90)
    for i in range(n):
        run_concat(ctx, gen_concat(ctx.rng, ctx.tier, force=CONCAT_FORCED[i] if i < len(CONCAT_FORCED) else None))
    lap('concat')
    if ctx.tier == 'thorough' and ctx.model_ok and not ctx.searching:
        # extraction cross-check: the same cases through vm_compute inside Coq
        from vh import core
        sample = _INCOQ[:40] + _INCOQ_TAB[:16] + list(zip(mcases[:40], (mouts or [])[:40]))
        outs = core.run_model_in_coq([c for c, _ in sample], 'c16')
        for (c, o), oc in zip(sample, outs):
            if o != oc:
                ctx.disagree('what=extraction_vs_coq;wire=%d' % c[0], dict(wire=c), o, oc,
                             'extracted OCaml model and vm_compute inside Coq differ', kind='tie')
        ctx.extra['cases_rechecked_in_coq'] = len(sample)


def spec_py(a):
    """Fallback spec used only while searching with no model binary."""
    if isinstance(a, str):
        names = [] if not a else (DOC if a == 'all' else [n.strip() for n in a.split(',')])
    else:
        names = list(a)
    m34 = sum(1 << i for i in range(8) if DOC[i] in names)
    m2 = sum(1 << (7 - i) for i in range(8) if DOC[i] in names)
    return [m34, m34, m2, m2, sum(1 for n in names if n not in DOC)]


def interleave(ctx, fmt, d, stored, lost, base_vis):
    rng = ctx.rng
    n = ctx.scale(12, 120)
    d.select(flags='all', weights='all')
    d.select()
    cur = 'all'     # the flag selection in force: the last flags= argument (it survives every other select() call)
    trace = [(dict(flags='all', weights='all'), _internal(fmt, d))]    # (flags= / weights= of the call, internal state after it)
    w_all = np.asarray(d.weights[:]).copy()
    for step in range(n):
        kind = rng.choice(['dumps', 'channels', 'ants', 'reset', 'pol'])
        try:
            if kind == 'dumps':
                a = rng.randint(0, 2)
                d.select(dumps=slice(a, a + rng.randint(1, 3)))
            elif kind == 'channels':
                a = rng.randint(0, 5)
                d.select(channels=slice(a, a + rng.randint(1, 3)))
            elif kind == 'ants':
                d.select(ants=d.ants[0].name if rng.random() < 0.5 else [a.name for a in d.ants])
            elif kind == 'pol':
                d.select(pol=rng.choice(['hh', 'vv', 'hv']))
            else:
                d.select()
        except Exception:
            continue
        before = (d.dumps.tolist(), d.channels.tolist(), d.corr_products.tolist(), d.shape)
        v0 = np.asarray(d.vis[:]).copy()
        r0 = np.asarray(d.raw_flags[:]).copy() if fmt == 'v4' else None
        arg = rng.choice(['cam', 'all', '', 'static,cal_rfi', ['data_lost'], 'bogus'])
        wsel = rng.choice([None, None, 'all', '', [], 'precision', 'nope'])
        keep = rng.random() < 0.3      # no flags= in this step: the previous flag selection must still be in force
        if keep:
            arg = cur
        kw = {} if keep else dict(flags=arg)
        if wsel is not None:
            kw['weights'] = wsel
        try:
            if kw:
                d.select(**kw)
                trace.append((kw, _internal(fmt, d)))
        except Exception as e:
            ctx.disagree('fmt=%s;what=select_flags_raises;exc=%s' % (fmt, type(e).__name__),
                         dict(fmt=fmt, arg=canon_arg(arg)), repr(e), None, 'select(flags=...) raised')
            _recover(d)
            continue
        after = (d.dumps.tolist(), d.channels.tolist(), d.corr_products.tolist(), d.shape)
        v1 = np.asarray(d.vis[:])
        ok = before == after and np.array_equal(v0, v1)
        if fmt == 'v4':
            ok = ok and np.array_equal(r0, np.asarray(d.raw_flags[:]))
        if not ok:
            ctx.disagree('fmt=%s;what=flag_select_changes_selection' % fmt,
                         dict(fmt=fmt, prior=kind, flags=canon_arg(arg)), after[3], before[3],
                         'select(flags=...) changed vis / raw flags / time-freq-product selection')
        cur = arg
        # boolean flags under the current selection
        m = spec_py(arg)
        mask = m[3] if fmt == 'v2' else m[1]
        raw_full = stored | (lost.astype(np.uint8) << 3)
        sub = raw_full[np.ix_(d.dumps, d.channels, _cp_index(d))]
        fl = np.asarray(d.flags[:])
        fl = fl.view(np.uint8) != 0 if fl.dtype == bool else fl != 0
        if not np.array_equal(fl, (sub & np.uint8(mask)) != 0):
            ctx.disagree('fmt=%s;what=flags_bool_after_history' % fmt,
                         dict(fmt=fmt, prior=kind, flags=canon_arg(arg), flags_kw_in_step=not keep,
                              dumps=d.dumps.tolist(), channels=d.channels.tolist()),
                         fl.shape, sub.shape, 'boolean flags after a selection history differ from (raw & mask) != 0')
        ctx.note_case((fmt, 'hist', step, kind, canon_arg(arg), before[0], before[1]), sample=None)
        ctx.count('history_steps')
    d.select()
    trace.append(({}, _internal(fmt, d)))
    # the internal state (mask, weight indices) after every call against the faithful model of select() (wire 162)
    if _have(ctx, 162):
        hw = [[_wire_opt(k, 'flags'), _wire_opt(k, 'weights')] for k, _ in trace]
        mo = ctx.model([[162, [1, FMT_CODE[fmt], hw]]])[0]
        for j, (k, (mask, wts)) in enumerate(trace):
            row = mo[j + 1] if isinstance(mo, list) and len(mo) == len(trace) + 1 else None
            if row is None or mask != row[0] or (fmt != 'v4' and wts != row[1]) or row[0] != row[2]:
                ctx.disagree('fmt=%s;what=selection_state_after_history;vs=model' % fmt,
                             dict(fmt=fmt, calls=[{a: canon_arg(b) for a, b in kk.items()} for kk, _ in trace[:j + 1]]),
                             [mask, wts], row, '_flags_select / _weights_select after a history of select() calls differ '
                             'from the model of DataSet.select', spec=row[2] if row else None, kind='tie')
                break
        ctx.count('selection_state_steps', len(trace))
    if fmt != 'v4':
        d.select(weights='')
        w0 = np.asarray(d.weights[:])
        d.select(weights='all')
        if not (np.array_equal(w0, np.ones_like(w_all)) and np.array_equal(np.asarray(d.weights[:]), w_all)
                and not np.array_equal(w_all, w0)):
            ctx.disagree('fmt=%s;what=weights_selection' % fmt, dict(fmt=fmt, weights=''), float(w0.ravel()[0]), 1.0,
                         "weights are not 1.0 under weights='' / not the stored ones again under weights='all'", kind='tie')


def _internal(fmt, d):
    return (int(np.asarray(d._flags_select).ravel()[0]), [int(x) for x in d._weights_select] if fmt != 'v4' else [])


def _recover(d):
    """select() keeps a failing flags= keyword in d._selection and would raise again on every later call:
    forget it so that the search can go on after the disagreement was recorded."""
    try:
        d._selection.pop('flags', None)
        d.select()
    except Exception:
        pass


def _cp_index(d):
    return np.nonzero(d._corrprod_keep)[0]


def replay(ctx, doc):
    case = doc.get('case', {})
    if case.get('stream') == 'v4cal':
        run_v4cal(ctx, case['cfg'])
        return
    if case.get('stream') == 'concat':
        run_concat(ctx, case['cfg'])
        return
    if case.get('stream') == 'tables':
        run_tables(ctx, case['cfg'])
        return
    tmp, sets = build(ctx)
    try:
        if case.get('stream') == 'threads':
            if 'v4' in sets:
                run_threads(ctx, sets['v4'][0], sets['v4'][1], sets['v4'][2], case['trial'])
            return
        fmt = case.get('fmt', 'v4')
        if fmt not in sets:
            return      # opening raised again: recorded by build()
        d, stored, lost = sets[fmt]
        a = case.get('arg', case.get('flags', 'all'))
        mo = ctx.model([[16, [1, wire_arg(a)]]])[0] if ctx.model_ok else spec_py(a)
        check_selection(ctx, fmt, d, stored, lost, a, mo)
        ctx.note_case((fmt, canon_arg(a)))
    finally:
        shutil.rmtree(tmp, ignore_errors=True)


# ---------------------------------------------------------------------------------------------------------------
# stream tables: v3 / v2 files that carry their OWN flag table (Data/flags_description, Markup/flags_description)
# ---------------------------------------------------------------------------------------------------------------
KAT7 = ['reserved0', 'static', 'cam', 'reserved3', 'detected_rfi', 'predicted_rfi', 'reserved6', 'reserved7']
TABLES_FORCED = [dict(fmt='v3', kind='kat7'), dict(fmt='v2', kind='kat7'), dict(fmt='v3', kind='permuted'),
                 dict(fmt='v2', kind='permuted'), dict(fmt='v3', kind='short'), dict(fmt='v2', kind='short'),
                 dict(fmt='v3', kind='random'), dict(fmt='v2', kind='random')]


def gen_tables(rng, tier='quick', force=None):
    """One file with its own flag table + a list of select() calls.  kinds: kat7 (the table the KAT-7 flagger wrote),
    permuted (the eight documented names in ANOTHER order: code that reads flags.NAMES instead of the file shows),
    random (8 distinct invented names, some of them documented ones), short (7 rows: must be refused)."""
    force = force or {}
    fmt = force.get('fmt') or rng.choice(['v3', 'v2'])
    kind = force.get('kind') or rng.choice(['kat7', 'permuted', 'random', 'random'])
    if kind == 'kat7':
        table = list(KAT7)
    elif kind == 'permuted':
        table = list(DOC)
        while table == DOC:
            rng.shuffle(table)
    elif kind == 'short':
        table = list(KAT7[:7])
    else:
        pool = DOC + KAT7 + ['a', 'B', 'rfi', 'cam2', 'x y', 'flag-7', 'Static', 'all_rfi', 'none']
        table = []
        while len(table) < 8:
            n = rng.choice(pool)
            if n not in table:
                table.append(n)
    t = table
    outside = [n for n in DOC + ['bogus', 'Cam', ''] if n not in t]
    calls = [{'flags': t[2]}, {}, {'flags': [t[4], t[1]]}, {'flags': '%s,%s' % (t[1], t[2])}, {'dumps': [1, 3]},
             {'flags': outside[0]}, {'flags': '%s,%s' % (outside[0], t[5])}, {'flags': [outside[1], t[0], t[6]]},
             {'flags': ''}, {'flags': 'all'}, {'flags': ' %s , %s\n' % (t[3], t[0])}, {'flags': '\t' + t[6]},
             {'flags': t[5] + '\n'}, {'flags': []}, {'flags': list(t)}, {'flags': {'tuple': [t[0], outside[0], t[5]]}},
             {'weights': 'precision'}, {'flags': list(reversed(t))[:3] + [t[-1]]}]
    for _ in range(6 if tier == 'quick' else 14):
        r = rng.random()
        if r < 0.25:
            calls.append(rng.choice([{}, {'dumps': [0, 2]}, {'channels': [2, 6]}, {'weights': ''}, {'weights': 'all'}]))
            continue
        k = rng.randint(0, 4)
        names = [rng.choice(t + outside[:3]) for _ in range(k)]
        if rng.random() < 0.5:
            pad = lambda n: rng.choice(['', '', ' ', '\n', '\t']) + n + rng.choice(['', '', ' ', '\n'])   # noqa: E731
            calls.append({'flags': ','.join(pad(n) for n in names)})
        else:
            calls.append({'flags': names})
    return dict(fmt=fmt, kind=kind, table=table, calls=calls)


def table_py(fmt, table, a):
    """Python fallback of wire 164 (1 ...): [mask, spec mask, number of warnings, names of the set bits]."""
    names = _names_py(a, table)
    m = sum(1 << (7 - i if fmt == 'v2' else i) for i, n in enumerate(table) if n in names)
    return [m, m, sum(1 for n in names if n not in table), [n for n in table if n in names]]


def open_table_file(cfg, tmp):
    """mkv3 / mkv2 file + the flag (and weight) description table appended the way the ingest / the KAT-7 flagger
    wrote it (fixed-length byte strings, rows (name, description)), opened through katdal.open."""
    import os
    import h5py
    import katdal
    from fixtures.mkv2 import mkv2
    from fixtures.mkv3 import mkv3
    T, F, B = 4, 8, 10
    fl = (np.arange(T * F * B) * 37 % 256).astype(np.uint8).reshape(T, F, B)
    fn = os.path.join(tmp, '1500000000.h5' if cfg['fmt'] == 'v3' else '1300000000.h5')
    kw = dict(T=T, F=F, flags=fl, acts=[(0, 'slew'), (2, 'track')], targets=[(0, h5.A)], labels=[(0, 'track')])
    stored, _cps = (mkv3 if cfg['fmt'] == 'v3' else mkv2)(fn, **kw)
    with h5py.File(fn, 'r+') as f:
        g = f['Data'] if cfg['fmt'] == 'v3' else f['Markup']
        g.create_dataset('flags_description',
                         data=np.array([(n, 'what %s means' % n) for n in cfg['table']], dtype='S40'))
        g.create_dataset('weights_description', data=np.array([('precision', 'visibility precision')], dtype='S40'))
    d = katdal.open(fn, **(dict(centre_freq=1284e6) if cfg['fmt'] == 'v3' else {}))
    return d, fl, stored


def run_tables(ctx, cfg):
    """A file with its own flag table under a list of select() calls: after EVERY call the mask (d._flags_select), the
    boolean flags through d.flags, the names the getter reports and the number of `not a legitimate flag type`
    warnings against the model (wire 164: tie) and against `exactly the bits of the requested names OF THE FILE'S TABLE,
    bit i / 7-i` (property)."""
    fmt, table, kind = cfg['fmt'], cfg['table'], cfg['kind']
    tmp = v4.scratch_dir('c16tab')
    use = _have(ctx, 164)
    # while an obligation is broken (failing-input search) the driver may be the LAST GOOD one - possibly built from
    # another tree (e.g. the previous patch under test): lines against the model would be artefacts; the property
    # lines (bits of the requested names of the file's table) do not depend on it
    tie_ok = not getattr(ctx, 'searching', False)
    tcodes = [codes(n) for n in table]
    base = 'stream=tables;fmt=%s;table=%s' % (fmt, kind)
    try:
        try:
            d, fl, stored = open_table_file(cfg, tmp)
        except Exception as e:
            if len(table) == 8:
                ctx.disagree(base + ';obs=open;symptom=raises;exc=%s' % type(e).__name__,
                             dict(stream='tables', cfg=dict(cfg, calls=[])), repr(e)[:200], 'a data set',
                             'a file with its own table of 8 flag names cannot be opened')
            else:
                ctx.traces_validated += 1
                ctx.note_case(('tables', fmt, tuple(table), 'refused'), nontrivial=True)
                ctx.count('tables:refused(%d rows)' % len(table))
            return
        if len(table) != 8:
            # the model says: refused.  Answering is only wrong if the answer is wrong - there is no right answer for 7 names
            ctx.disagree(base + ';obs=open;symptom=accepted', dict(stream='tables', cfg=dict(cfg, calls=[])),
                         int(np.asarray(d._flags_select).ravel()[0]), 'AssertionError',
                         'a file whose flag table does not have 8 rows was opened (model: refused)', kind='tie')
            return
        vis0 = np.asarray(d.vis[:]).copy()
        w_all = np.asarray(d.weights[:]).copy()
        hist, cur = [], 'all'
        for step, call in enumerate([None] + list(cfg['calls'])):
            case = dict(stream='tables', cfg=dict(cfg, calls=cfg['calls'][:step]))
            nwarn = None
            if call is not None:
                kw = {}
                for k, v in call.items():
                    kw[k] = slice(*v) if k in ('dumps', 'channels') else _py_arg(v)
                try:
                    with _Warnings() as w:
                        d.select(**kw)
                    nwarn = w.unknown_flag_warnings()
                except Exception as e:
                    ctx.disagree(base + ';obs=select;symptom=raises;exc=%s' % type(e).__name__, case, repr(e)[:200], None,
                                 'select() raised on a file with its own flag table')
                    return
                hist.append([_wire_opt(call, 'flags'), _wire_opt(call, 'weights')])
                if 'flags' in call:
                    cur = _py_arg(call['flags'])
            mo = ctx.model([[164, [1, FMT_CODE[fmt], tcodes, wire_arg(cur)]]])[0] if use else table_py(fmt, table, cur)
            if use:
                _INCOQ_TAB.append(([164, [1, FMT_CODE[fmt], tcodes, wire_arg(cur)]], mo))
                mo = mo[:3] + [[''.join(chr(c) for c in n) for n in mo[3]]]
                if not tie_ok:      # warning count and getter names follow the regenerated constants: take the documented ones
                    mo = mo[:2] + table_py(fmt, table, cur)[2:]
            names = _names_py(cur, table)
            sel = 'all' if cur == 'all' else ('empty' if not names else
                                              ('named' if any(n in table for n in names) else 'unknown_only'))
            sig = '%s;sel=%s;argkind=%s;flags_kw_in_step=%s' % (base, sel, 'str' if isinstance(cur, str) else 'list',
                                                               'yes' if call and 'flags' in call else 'no')
            mask = int(np.asarray(d._flags_select).ravel()[0])
            ok = True
            if mask != mo[1]:
                ok = False
                ctx.disagree(sig.replace(base, base + ';obs=mask'), case, mask, mo[0],
                             'mask differs from the bits of the requested names of the table of the file', spec=mo[1])
            elif mask != mo[0] and tie_ok:
                ok = False
                ctx.disagree(sig.replace(base, base + ';obs=mask') + ';vs=model', case, mask, mo[0],
                             'mask differs from the model', spec=mo[1], kind='tie')
            sub = fl[np.ix_(d.dumps, d.channels, _cp_index(d))]
            got = np.asarray(d.flags[:])
            exp = (sub & np.uint8(mo[1])) != 0
            if ok and (got.dtype != bool or not np.array_equal(got, exp)):
                ok = False
                bad = np.argwhere(np.asarray(got != 0) != exp)
                ctx.disagree(sig.replace(base, base + ';obs=flags'), case, str(got.dtype) if not len(bad) else bool(got[tuple(bad[0])]),
                             'bool' if not len(bad) else bool(exp[tuple(bad[0])]),
                             'd.flags differs from (stored byte & mask of the requested names of the file table) != 0', spec=mo[1])
            if ok and call is not None and 'flags' in call and nwarn is not None:
                # select() runs the setter twice (the keyword, then the read-back through the getter, which only names
                # known flags): the warnings of a call are those of its own argument
                if nwarn != mo[2]:
                    ok = False
                    ctx.disagree(sig.replace(base, base + ';obs=warnings;%s' % ('missing' if nwarn < mo[2] else 'spurious')), case,
                                 nwarn, mo[2], 'number of "not a legitimate flag type" warnings differs from the number of '
                                 'requested names the table of the file does not have')
            getter = [n.decode() if isinstance(n, bytes) else str(n) for n in d._flags_keep]    # np.bytes_ is a bytes
            if ok and getter != mo[3] and tie_ok:
                ok = False
                ctx.disagree(sig.replace(base, base + ';obs=getter') + ';vs=model', case, getter, mo[3],
                             'the names d._flags_keep reports differ from the names of the set bits', kind='tie')
            if ok and call is not None and not np.array_equal(np.asarray(d.vis[:]), vis0[np.ix_(d.dumps, d.channels, _cp_index(d))]):
                ok = False
                ctx.disagree(base + ';obs=vis', case, 'moved', 'unchanged', 'visibilities changed under a flag selection')
            if ok and call is not None and 'weights' in call:
                won = _py_arg(call['weights']) in ('all', 'precision')
                wexp = w_all[np.ix_(d.dumps, d.channels, _cp_index(d))] if won else 1.0
                if not np.array_equal(np.asarray(d.weights[:]), np.broadcast_to(wexp, d.shape)):
                    ok = False
                    ctx.disagree(base + ';obs=weights;wsel=%s' % ('on' if won else 'off'), case, 'differ',
                                 'stored' if won else 'ones', 'weights on a file with its own weight table do not follow '
                                 'weights=', kind='tie')
            ctx.traces_validated += 1
            ctx.note_case(('tables', fmt, tuple(table), step, repr(cur)), nontrivial=sel in ('named', 'all'),
                          sample=dict(stream='tables', fmt=fmt, table=table, flags=canon_arg(cur), mask=mo[1]) if step == 4 else None)
            ctx.count('tables:fmt=%s;table=%s' % (fmt, kind))
            ctx.count('tables:sel=' + sel)
            if not ok:
                return
        # the whole history through the faithful model of select() on the file's table (wire 164 (2 ...))
        if use and tie_ok:
            outs = ctx.model([[164, [2, FMT_CODE[fmt], tcodes, hist]]])[0]
            _INCOQ_TAB.insert(0, ([164, [2, FMT_CODE[fmt], tcodes, hist]], outs))
            last = outs[-1] if isinstance(outs, list) and outs else None
            mask = int(np.asarray(d._flags_select).ravel()[0])
            if not last or last[0] != mask or last[0] != last[1]:
                ctx.disagree(base + ';obs=mask_after_history;vs=model', dict(stream='tables', cfg=cfg), mask, last,
                             'mask after the whole history differs from the model of select() on the table of the file',
                             spec=last[1] if last else None, kind='tie')
    finally:
        shutil.rmtree(tmp, ignore_errors=True)


# ---------------------------------------------------------------------------------------------------------------
# stream threads: the FIRST read of one d.flags indexer by several threads at once, with a forced interleaving
# ---------------------------------------------------------------------------------------------------------------
THREAD_TRIALS = [dict(arg='cam', pause_at=0), dict(arg=['static', 'cal_rfi', 'postproc'], pause_at=1),
                 dict(arg='all', pause_at=0), dict(arg='data_lost', pause_at=0, dumps=[1, 4], late=2)]
PAUSE_S = 0.5       # how long the first reader waits inside the transform chain for the late readers to come back


def gen_thread_trial(rng):
    a = rng.choice(FLAG_POOL + ['cam', 'static,cal_rfi', 'all'])
    t = dict(arg=a, pause_at=rng.randrange(2), late=rng.choice([1, 1, 2]))
    if rng.random() < 0.4:
        lo = rng.randrange(3)
        t['dumps'] = [lo, rng.randint(lo + 1, 4)]
    return t


def run_threads(ctx, d, stored, lost, trial):
    """select(flags=arg) makes a new flags indexer whose dask graph is built lazily on first use.  The first reader is
    held inside the transform chain (before transform number pause_at; the transforms of the indexer object are wrapped,
    katdal itself is not touched) while `late` more threads read the SAME indexer; on a correct library they wait for
    the first one (the pause ends after PAUSE_S).  Every reader, and a later read, must see (raw & mask) != 0 as bool."""
    import threading
    arg = trial['arg']
    case = dict(stream='threads', trial=trial)
    mo = ctx.model([[16, [1, wire_arg(arg)]]])[0] if ctx.model_ok else spec_py(arg)
    spec_mask = mo[1]
    sel = 'all' if spec_mask == 255 else ('empty' if spec_mask == 0 else 'named')
    results, errors = {}, {}
    try:
        kw = dict(flags=arg if isinstance(arg, str) else list(arg))
        if 'dumps' in trial:
            kw['dumps'] = slice(*trial['dumps'])
        d.select(**kw)
        ix = np.ix_(d.dumps, d.channels, np.nonzero(d._corrprod_keep)[0])
        flags = d.flags
        transforms = getattr(flags, 'transforms', None)
        if not isinstance(transforms, list) or not transforms:
            ctx.disagree('stream=threads;what=no_transforms', case, repr(transforms)[:100], 'a list of transforms',
                         'the v4 flags indexer has no transform chain to build lazily')
            return
        entered, proceed = threading.Event(), threading.Event()
        k = min(trial.get('pause_at', 0), len(transforms) - 1)
        real = transforms[k]

        def paused(x, _real=real):
            if not entered.is_set():
                entered.set()
                proceed.wait(timeout=10.0)
            return _real(x)
        transforms[k] = paused

        def reader(who):
            try:
                results[who] = np.asarray(flags[:])
            except Exception as ex:       # noqa: BLE001
                errors[who] = repr(ex)[:200]
        first = threading.Thread(target=reader, args=('first',))
        first.start()
        try:
            if not entered.wait(timeout=10.0):
                ctx.disagree('stream=threads;what=transform_never_called', case, None, 'transform %d called' % k,
                             'the first read of d.flags never ran its transform chain')
                return
            late = [threading.Thread(target=reader, args=('late%d' % j,)) for j in range(trial.get('late', 1))]
            for t in late:
                t.start()
            t_end = PAUSE_S
            for t in late:
                t.join(timeout=t_end)      # on a correct library the late readers are waiting for the first one
                t_end = 0.01
        finally:
            proceed.set()
        first.join()
        for t in late:
            t.join()
        results['later'] = np.asarray(flags[:])
        raw = np.asarray(d.raw_flags[:])
    except Exception as ex:
        ctx.disagree('stream=threads;what=raises;exc=%s' % type(ex).__name__, case, repr(ex)[:300], 'arrays',
                     'select(flags=...) / reading d.flags from several threads raised')
        _recover(d)
        return
    exp_raw = (stored | (lost.astype(np.uint8) << 3))[ix]
    exp = (exp_raw & np.uint8(spec_mask)) != 0
    for who in ['first'] + ['late%d' % j for j in range(trial.get('late', 1))] + ['later']:
        role = 'late' if who.startswith('late') and who != 'later' else who
        if who in errors:
            ctx.disagree('stream=threads;obs=flags;reader=%s;symptom=raises;sel=%s' % (role, sel), dict(case, reader=who),
                         errors[who], 'bool array', 'a thread reading d.flags raised')
            continue
        got = results.get(who)
        if got is None or got.dtype != bool or got.shape != exp.shape:
            ctx.disagree('stream=threads;obs=flags;reader=%s;symptom=dtype;sel=%s' % (role, sel), dict(case, reader=who),
                         None if got is None else [str(got.dtype), list(got.shape), got.ravel()[:4].tolist()],
                         ['bool', list(exp.shape)],
                         'd.flags read by the %s thread is not a boolean array of the selected shape (the transform chain '
                         'bitwise_and / view-as-bool was not (fully) applied)' % role, spec=['bool', list(exp.shape)])
        elif not np.array_equal(got, exp):
            bad = tuple(int(b) for b in np.argwhere(got != exp)[0])
            ctx.disagree('stream=threads;obs=flags;reader=%s;symptom=values;sel=%s' % (role, sel),
                         dict(case, reader=who, at=list(bad)), bool(got[bad]), bool(exp[bad]),
                         'd.flags read by the %s thread differs from (raw byte & mask of %r) != 0' % (role, arg),
                         spec=bool(exp[bad]))
    if not np.array_equal(raw, exp_raw):
        ctx.disagree('stream=threads;obs=raw_flags;sel=%s' % sel, case, raw.ravel()[:4].tolist(), exp_raw.ravel()[:4].tolist(),
                     'raw flags differ from stored | data_lost after concurrent reads of d.flags')
    ctx.traces_validated += 1
    ctx.note_case(('threads', canon_arg(arg), trial.get('pause_at', 0), trial.get('late', 1), repr(trial.get('dumps'))),
                  nontrivial=bool(exp.any()), sample=dict(stream='threads', trial=trial, mask=spec_mask))
    ctx.count('threads_trials')
    ctx.count('threads:sel=%s' % sel)
    d.select()


# ---------------------------------------------------------------------------------------------------------------
# stream v4cal: v4 data sets WITH applycal and lost chunks under random selection histories
# ---------------------------------------------------------------------------------------------------------------
FLAG_POOL = ['all', '', [], 'cam', 'postproc', 'data_lost', 'cam,postproc', 'data_lost,ingest_rfi', 'static,cal_rfi',
             list(DOC[:-1]), [n for n in DOC if n != 'data_lost'], [n for n in DOC if n not in ('data_lost', 'postproc')],
             'postproc,data_lost', ' cam , postproc ', 'bogus', ['nope', 'postproc'], ['cam', 'cam'], 'reserved0',
             'predicted_rfi', list(DOC)]
# the first configurations of every run are forced so that every seed meets the important corners
FORCED = [dict(calmode='G', nan=True, lose=True, layout='straddle'), dict(calmode='GB', nan=True, lose=True, lose_each=True),
          dict(calmode='none', lose=True, layout='straddle'), dict(calmode='B', nan=True, lose=False)]
ARRAYS = ('correlator_data', 'flags', 'weights', 'weights_channel')     # numbering of Model/LostMap.v


def _compositions(rng, n, maxparts=3):
    k = rng.randint(1, min(maxparts, n))
    cuts = sorted(rng.sample(range(1, n), k - 1))
    return [b - a for a, b in zip([0] + cuts, cuts + [n])]


def _cuts(comp):
    out, a = [], 0
    for c in comp[:-1]:
        a += c
        out.append(a)
    return out


def _from_cuts(cuts, n):
    cuts = sorted(set(c for c in cuts if 0 < c < n))
    return [b - a for a, b in zip([0] + cuts, cuts + [n])]


def _related_chunking(rng, n, base):
    """A chunking of an axis of length n for one array GIVEN the flags chunking `base` of that axis: the same grid,
    the same grid with every boundary shifted (the first chunk is cut short; a chunk of the array then has the size of
    a flags chunk but lies across two of them), the same block sizes in another order (same block count, other
    boundaries), one boundary moved by one element, or a chunking drawn independently."""
    r = rng.random()
    if r < 0.2:
        return list(base)
    if r < 0.55 and max(base) > 1:
        delta = rng.randint(1, max(base) - 1)
        return _from_cuts([delta] + [c + delta for c in _cuts(base)], n)
    if r < 0.7 and len(set(base)) > 1:
        perm = list(base)
        for _ in range(6):
            rng.shuffle(perm)
            if perm != list(base):
                break
        return perm
    if r < 0.8 and len(base) > 1:
        cuts = _cuts(base)
        i = rng.randrange(len(cuts))
        cuts[i] += rng.choice([-1, 1])
        return _from_cuts(cuts, n)
    return _compositions(rng, n, 4)


def _extents(comp):
    out, a = [], 0
    for c in comp:
        out.append((a, a + c))
        a += c
    return out


def straddlers(chunks, name):
    """Block indices [it, if] of the chunks of array `name` that have the (time, channel) shape of a flags chunk they
    overlap WITHOUT coinciding with it (only possible when the boundaries of the two chunkings are shifted against
    each other)."""
    ft, ff = [_extents(c) for c in chunks['flags']]
    out = []
    for it, (t0, t1) in enumerate(_extents(chunks[name][0])):
        for jf, (f0, f1) in enumerate(_extents(chunks[name][1])):
            for (a0, a1) in ft:
                for (b0, b1) in ff:
                    overlap = a0 < t1 and t0 < a1 and b0 < f1 and f0 < b1
                    if overlap and (a1 - a0, b1 - b0) == (t1 - t0, f1 - f0) and (a0, b0) != (t0, f0) and [it, jf] not in out:
                        out.append([it, jf])
    return out


def gen_chunks(rng, T, F, layout):
    """Chunkings (time, channel) of the four stored arrays: every array on its own, independently of the others
    (layout 'independent'), or the three other arrays related to the flags chunking by _related_chunking (layouts
    'related' and 'straddle'; 'straddle' insists on a correlator_data / weights chunk with the shape of a flags chunk
    lying across flags chunks)."""
    for _ in range(200):
        chunks = {}
        if layout == 'independent':
            for name in ARRAYS:
                chunks[name] = [_compositions(rng, T), _compositions(rng, F)]
        else:
            ft = _compositions(rng, T, 4)
            if layout == 'straddle' and max(ft) < 2:
                continue
            chunks['flags'] = [ft, _compositions(rng, F)]
            for name in ARRAYS:
                if name != 'flags':
                    chunks[name] = [_related_chunking(rng, T, chunks['flags'][0]), _related_chunking(rng, F, chunks['flags'][1])]
        if layout != 'straddle' or straddlers(chunks, 'correlator_data') or straddlers(chunks, 'weights'):
            return chunks
    raise RuntimeError('no straddling layout found for T=%d F=%d' % (T, F))


def gen_v4cal(rng, tier='quick', force=None, fixed=None):
    force = force or {}
    n_ant = rng.choice([2, 2, 3])
    T, F = rng.randint(3, 6), rng.randint(4, 8)
    if fixed:       # a member of a concatenation: sizes are given
        n_ant, T, F = fixed.get('n_ant', n_ant), fixed.get('T', T), fixed.get('F', F)
    ants = ['m%03d' % a for a in range(n_ant)]
    calmode = force.get('calmode') or rng.choice(['none', 'G', 'G', 'GB', 'GB', 'B'])
    want_nan = force.get('nan', rng.random() < 0.85)
    pols = rng.choice([['h', 'v'], ['v', 'h']])
    antlist = list(ants)
    rng.shuffle(antlist)
    products = {}
    if 'G' in calmode:
        g = [[(None if rng.random() < 0.25 else rng.randint(-3, 3)) for _ in range(n_ant)] for _ in range(2)]
        if want_nan and all(e is not None for row in g for e in row):
            g[rng.randrange(2)][rng.randrange(n_ant)] = None
        if not want_nan:
            g = [[(0 if e is None else e) for e in row] for row in g]
        if all(e is None for row in g for e in row):
            g[0][0] = 1
        products['G'] = [[-1, g]]
    if 'B' in calmode:
        events = []
        for dump in [-1] + ([rng.randint(1, T - 1)] if rng.random() < 0.5 else []):
            lo, hi = (rng.randint(0, 2), F - rng.randint(0, 2)) if want_nan else (0, F)
            b = [[(None if (want_nan and rng.random() < 0.15) else rng.randint(-2, 2)) for _ in range(n_ant)]
                 for _ in range(2)]
            if all(e is None for row in b for e in row):
                b[0][0] = 0
            events.append([dump, dict(lo=lo, hi=hi, exps=b)])
        products['B'] = events
    applycal = ['l1.' + t for t in products]
    rng.shuffle(applycal)
    layout = force.get('layout') or rng.choice(['independent', 'related', 'related', 'straddle'])
    chunks = gen_chunks(rng, T, F, layout)
    lose = []
    if force.get('lose', rng.random() < 0.8):
        for name in ARRAYS:
            if rng.random() < (0.7 if name == 'correlator_data' else 0.3):
                for _ in range(rng.randint(1, 2)):
                    idx = [rng.randrange(len(chunks[name][0])), rng.randrange(len(chunks[name][1]))]
                    if [name, idx] not in lose:
                        lose.append([name, idx])
        if force.get('lose_each'):
            for name in ARRAYS:      # every seed: a lost chunk of EACH stored array in one data set
                if not any(n == name for n, _ in lose):
                    lose.append([name, [rng.randrange(len(chunks[name][0])), rng.randrange(len(chunks[name][1]))]])
        if layout == 'straddle':
            # a lost chunk with the shape of a flags chunk that lies ACROSS flags chunks (never lose all of them: the
            # elements of those flags chunks that keep their data are the interesting ones)
            cand = [[n, i] for n in ('correlator_data', 'weights') for i in straddlers(chunks, n)]
            rng.shuffle(cand)
            for c in cand[:rng.randint(1, 2)]:
                if c not in lose:
                    lose.append(c)
        if not lose:
            lose.append(['correlator_data', [0, 0]])
    hist = []
    for _ in range(rng.randint(5, 8)):
        st = {}
        if rng.random() < 0.75:
            a = rng.choice(FLAG_POOL)
            if rng.random() < 0.15:
                names = rng.sample(DOC, rng.randint(1, 7))
                a = names if rng.random() < 0.5 else ','.join(names)
            st['flags'] = a
        r = rng.random()
        if r < 0.15:
            a = rng.randrange(T)
            st['dumps'] = [a, rng.randint(a + 1, T)]
        elif r < 0.3:
            a = rng.randrange(F)
            st['channels'] = [a, rng.randint(a + 1, F)]
        elif r < 0.4:
            st['pol'] = rng.choice(['hh', 'vv', 'hv', 'vh', 'h', 'v'])
        elif r < 0.5:
            st['ants'] = rng.sample(ants, rng.randint(1, n_ant))
        elif r < 0.55:
            st['corrprods'] = rng.choice(['auto', 'cross'])
        elif r < 0.65 and not st:
            st['reset'] = 1      # a bare select(): resets time / frequency / product selection only
        if rng.random() < 0.15:
            st['weights'] = rng.choice(['all', '', 'precision'])
        hist.append(st)
    if not any('flags' in st for st in hist):
        hist[0]['flags'] = 'cam'
    if force:
        # every seed meets: a selection without postproc and data_lost, a later call without flags=, postproc only,
        # data_lost without postproc, and back to all
        hist = [{'flags': 'cam'}, {'dumps': [0, T]}, {'flags': 'postproc'}, {'flags': 'data_lost,ingest_rfi'},
                {'reset': 1}, {'flags': 'all'}] + hist
    return dict(stream='v4cal', T=T, F=F, ants=ants, seed=rng.randrange(10 ** 6), calmode=calmode,
                cal=dict(antlist=antlist, pol_ordering=pols, products=products), applycal=applycal,
                chunks=chunks, layout=layout, lose=lose, hist=hist, shuffle_bls=rng.random() < 0.3,
                index=[rng.choice([None, None, 2]), rng.choice([None, None, 2])])


def _p2(e):
    return None if e is None else [2.0 ** e, 0.0]


def _cal_telstate(cfg):
    """the 'cal' dict of fixtures.c13cal.cal_hook for this configuration."""
    F, c = cfg['F'], cfg['cal']
    n_ant = len(cfg['ants'])
    prods = {}
    for t, events in c['products'].items():
        if t == 'G':
            prods['G'] = [[d, [[_p2(e) for e in row] for row in g]] for d, g in events]
        else:
            prods['B'] = [[d, [[[(_p2(b['exps'][p][a]) if b['lo'] <= k < b['hi'] else None) for a in range(n_ant)]
                               for p in range(2)] for k in range(F)]] for d, b in events]
    return dict(antlist=c['antlist'], pol_ordering=c['pol_ordering'], center_freq=1284e6, bandwidth=F * 1048576.0,
                n_chans=F, products=prods)


def _chunk_mask(T, F, comp, idx):
    m = np.zeros((T, F), bool)
    t0, f0 = sum(comp[0][:idx[0]]), sum(comp[1][:idx[1]])
    m[t0:t0 + comp[0][idx[0]], f0:f0 + comp[1][idx[1]]] = True
    return m


def v4cal_expected(cfg, stored, bls):
    """Per-sample model inputs computed from the configuration and the arrays written to the chunk store only."""
    T, F, B = cfg['T'], cfg['F'], len(bls)
    lost = {k: np.zeros((T, F), bool) for k in ('correlator_data', 'flags', 'weights', 'weights_channel')}
    for name, idx in cfg['lose']:
        lost[name] |= _chunk_mask(T, F, cfg['chunks'][name], idx)
    c = cfg['cal']
    # exponent of the correction per (t, f, input): correction = 1 / solution = 2^-e ; None -> invalid
    k_in, ok_in = {}, {}
    for a in cfg['ants']:
        for p in 'hv':
            ai, pi = c['antlist'].index(a), c['pol_ordering'].index(p)
            k = np.zeros((T, F), int)
            ok = np.ones((T, F), bool)
            for t, events in c['products'].items():
                if 'l1.' + t not in cfg['applycal']:
                    continue
                if t == 'G':
                    e = events[0][1][pi][ai]
                    if e is None:
                        ok[:] = False
                    else:
                        k -= e
                else:
                    for n, (d, b) in enumerate(events):
                        t0 = max(d, 0)
                        t1 = events[n + 1][0] if n + 1 < len(events) else T
                        e = b['exps'][pi][ai]
                        chan_ok = np.array([b['lo'] <= f < b['hi'] for f in range(F)]) & (e is not None)
                        ok[t0:t1] &= chan_ok[np.newaxis, :]
                        if e is not None:
                            k[t0:t1] -= e
            k_in[a + p], ok_in[a + p] = k, ok
    calok = np.ones((T, F, B), bool)
    kk = np.zeros((T, F, B), int)
    for j, (i1, i2) in enumerate(bls):
        calok[:, :, j] = ok_in[i1] & ok_in[i2]
        kk[:, :, j] = k_in[i1] + k_in[i2]
    kk[~calok] = 0
    vis = stored['correlator_data']
    wc = stored['weights_channel']
    we = np.round(np.log2(wc)).astype(int)
    assert np.array_equal(np.float32(2.0) ** we, wc)
    full = lambda m: np.broadcast_to(m[:, :, np.newaxis], (T, F, B))   # noqa: E731
    return dict(stored=stored['flags'].astype(int), lostf=full(lost['flags']), lostv=full(lost['correlator_data']),
                lostw=full(lost['weights'] | lost['weights_channel']), calok=calok, k=kk,
                re=vis.real.astype(int), im=vis.imag.astype(int), w=stored['weights'].astype(int),
                we=np.broadcast_to(we[:, :, np.newaxis], (T, F, B)))


def _lost_ids(cfg):
    """start coordinates of the deleted chunks, per array in the numbering of Model/LostMap.v."""
    out = []
    for name in ARRAYS:
        ids = []
        for n, idx in cfg['lose']:
            if n == name:
                comp = cfg['chunks'][name]
                ids.append([sum(comp[0][:idx[0]]), sum(comp[1][:idx[1]])] + ([0] if name != 'weights_channel' else []))
        out.append(ids)
    return out


def lostmap_wire(cfg, stored_flags, calok, hist, B):
    """wire 163: the data set as a configuration of C06's lost-map model (chunkings as written, deleted chunk ids, the
    stored flag bytes, the valid-correction map) + every prefix of the history."""
    chunks = [[list(cfg['chunks'][n][0]), list(cfg['chunks'][n][1])] + ([[B]] if n != 'weights_channel' else [])
              for n in ARRAYS]
    return [163, [1, [_hist_wire(hist[:i + 1]) for i in range(len(hist))], chunks, [], _lost_ids(cfg),
                  np.asarray(stored_flags).astype(int).ravel().tolist(), np.asarray(calok).astype(int).ravel().tolist()]]


def _samples_wire(e):
    cols = [np.asarray(e[k]).astype(int).ravel() for k in ('stored', 'lostf', 'lostv', 'lostw', 'calok', 'k', 're', 'im', 'w', 'we')]
    return np.stack(cols, axis=1).tolist()


def _hist_wire(hist):
    return [([wire_arg(st['flags'])] if 'flags' in st else []) for st in hist]


def v4cal_py(e, hist):
    """Fallback of the model in Python, used only while searching without a model binary."""
    cur = 'all'
    for st in hist:
        cur = st.get('flags', cur)
    mask = spec_py(cur)[1]
    raw = np.where(e['lostf'], 0, e['stored']) | np.where(e['lostf'] | e['lostv'] | e['lostw'], 8, 0) \
        | np.where(e['calok'], 0, 128)
    flag = (raw & mask) != 0
    lv, lw, ok = e['lostv'], e['lostw'], e['calok']
    out = np.stack([raw, flag, np.where(lv, 0, e['re']), np.where(lv, 0, e['im']), np.where(lv | ~ok, 0, e['k']),
                    np.where(lw | ~ok, 0, e['w']), np.where(lw | ~ok, 0, e['we'] - 2 * e['k']), raw, flag], axis=-1)
    return [mask, mask, out.reshape(-1, 9).tolist()]


def _select_kwargs(st):
    kw = {}
    for k, v in st.items():
        if k in ('dumps', 'channels'):
            kw[k] = slice(*v)
        elif k == 'flags':
            kw[k] = v if isinstance(v, str) else list(v)
        elif k != 'reset':
            kw[k] = v
    return kw


def _bit_names(diff):
    """which bits differ, classified: data_lost / postproc (the derived ones) / stored (any other bit)."""
    d = int(np.bitwise_or.reduce(np.asarray(diff, np.uint8).ravel())) if np.size(diff) else 0
    names = [n for n, m in (('data_lost', 8), ('postproc', 128), ('stored', 0x77)) if d & m]
    return '+'.join(names) or 'none'


def _v4cal_bls(cfg):
    bls = v4.bls_ordering_for(cfg['ants'])
    if cfg.get('shuffle_bls'):
        import random
        random.Random(cfg['seed']).shuffle(bls)
    return bls


def open_v4cal(cfg, tmp, **kw):
    """The v4 data set of a v4cal configuration (stored flag bytes, chunking, lost chunks, cal products, applycal)."""
    from fixtures import c13cal
    T, F, ants = cfg['T'], cfg['F'], cfg['ants']
    bls = _v4cal_bls(cfg)
    B = len(bls)
    rs = np.random.RandomState(cfg['seed'])
    fl = rs.randint(0, 256, size=(T, F, B)).astype(np.uint8)
    fl[0, :, :B // 2] = 0                  # clean samples
    fl[-1] &= np.uint8(0x77)               # samples that get data_lost / postproc only by derivation
    chunks = {k: (tuple(c[0]), tuple(c[1])) + (((B,),) if k != 'weights_channel' else ()) for k, c in cfg['chunks'].items()}
    hook = None
    if cfg['applycal']:
        hook = c13cal.cal_hook(_cal_telstate(cfg), **({'first_timestamp': kw['first_timestamp']} if 'first_timestamp' in kw else {}))
    return v4.build_v4(T=T, F=F, ants=ants, seed=cfg['seed'], arrays={'flags': fl}, chunks=chunks,
                       bandwidth=F * 1048576.0, center_freq=1284e6, bls_ordering=bls,
                       lose=[('sdp_l0', n, tuple(i) + ((0,) if n != 'weights_channel' else ())) for n, i in cfg['lose']],
                       telstate_hook=hook, archived_override=['sdp_l0', 'cal'] if hook else None,
                       open_kwargs=dict(applycal=list(cfg['applycal'])), tmp=tmp, **kw)


def run_v4cal(ctx, cfg):
    T, F, ants = cfg['T'], cfg['F'], cfg['ants']
    bls = _v4cal_bls(cfg)
    B = len(bls)
    x = None
    key = ('v4cal', cfg['seed'], T, F, len(ants), cfg['calmode'])
    try:
        try:
            x = open_v4cal(cfg, v4.scratch_dir('c16cal'))
            d = x.d
            if cfg['applycal'] and sorted(d.applycal_products) != sorted(cfg['applycal']):
                ctx.disagree('stream=v4cal;what=products_dropped', dict(stream='v4cal', cfg=cfg),
                             list(d.applycal_products), cfg['applycal'], 'applycal products differ from the requested ones')
                return
        except Exception as e:
            ctx.disagree('stream=v4cal;what=open_raises;exc=%s' % type(e).__name__, dict(stream='v4cal', cfg=cfg),
                         repr(e)[:300], 'a data set', 'opening a v4 data set (applycal=%s) raised' % cfg['applycal'])
            return
        e = v4cal_expected(cfg, x.stored, bls)
        hist = cfg['hist']
        lx = None
        if _have(ctx, 163) and _have(ctx, 161):
            # `where applicable` comes from the model: the lost sets of every array are derived in Coq from the chunk
            # layout and the deleted chunk ids (Model/FlagsLost.v on C06's lost map); the harness's own masks
            # (_chunk_mask) only serve as a cross-check of the wire encoding
            wcase = lostmap_wire(cfg, x.stored['flags'], e['calok'], hist, B)
            lx = ctx.model([wcase])[0]
            if lx == [-999] or len(lx) != 7 or lx[0] != [T, F, B] or len(lx[6]) != len(hist):
                ctx.disagree('stream=v4cal;what=model_error;wire=163', dict(stream='v4cal', cfg=cfg), None,
                             lx if len(str(lx)) < 300 else str(lx)[:300], 'lost-map model returned an error', kind='tie')
                return
            if len(_INCOQ) < 12 and T * F * B <= 200:
                _INCOQ.append((wcase, lx))
            for k, col in (('lostf', 3), ('lostv', 4), ('lostw', 5)):
                got = np.array(lx[col], bool).reshape(T, F, B)
                if not np.array_equal(got, e[k]):
                    bad = tuple(int(b) for b in np.argwhere(got != e[k])[0])
                    ctx.disagree('stream=v4cal;what=lost_set;array=%s;vs=model' % k, dict(stream='v4cal', cfg=cfg, at=list(bad)),
                                 bool(e[k][bad]), bool(got[bad]),
                                 'the set of elements covered by a deleted chunk computed by the harness differs from '
                                 'lost_in of the model', kind='tie')
                    return
                e[k] = got
        samples = _samples_wire(e)
        if _have(ctx, 161):
            mouts = ctx.model([[161, [1, _hist_wire(hist[:i + 1]), samples]] for i in range(len(hist))])
        else:
            mouts = [v4cal_py(e, hist[:i + 1]) for i in range(len(hist))]
        s1, s2 = [slice(None) if s is None else slice(None, None, s) for s in cfg.get('index', [None, None])]
        sel_names = 'all'
        n_before = len(ctx.disagreements)
        for i, st in enumerate(hist):
            if len(ctx.disagreements) > n_before:
                return      # a data set stops at the first call after which something disagreed (the replay ends there)
            case = dict(stream='v4cal', cfg=dict(cfg, hist=hist[:i + 1]), step=i)
            mo = mouts[i]
            if mo == [-999] or len(mo) != 3:
                ctx.disagree('stream=v4cal;what=model_error', case, None, mo, 'model returned an error', kind='tie')
                return
            if mo[0] != mo[1]:
                ctx.disagree('stream=v4cal;what=model_vs_spec_mask', case, mo[0], mo[1],
                             'model mask after the history differs from the spec mask')
            m = np.array(mo[2], dtype=np.int64).reshape(T, F, B, 9)
            if lx is not None:
                # raw flags / flags: MODEL = the lost map algorithm of ChunkStoreVisFlagsWeights (columns 0, 1),
                # SPEC = stored | data_lost on the exact lost set | postproc on the exact invalid set (columns 7, 8);
                # the per-sample model of wire 161 fed with the exact lost sets must say the same (refinement theorem)
                hx = lx[6][i]
                m163 = np.stack([np.array(lx[1]), np.array(hx[2]), np.array(lx[2]), np.array(hx[3])], axis=1).reshape(T, F, B, 4)
                if hx[0] != mo[0] or hx[1] != mo[1] or not np.array_equal(m163[..., 2], m[..., 7]) \
                        or not np.array_equal(m163[..., 3], m[..., 8]):
                    ctx.disagree('stream=v4cal;what=sample_spec_vs_lostmap_spec', case, [hx[0], hx[1]], [mo[0], mo[1]],
                                 'spec columns of wire 161 (fed with the exact lost sets) and of wire 163 differ', kind='tie')
                    return
                m[..., 0], m[..., 1] = m163[..., 0], m163[..., 1]
            sel_names = st.get('flags', sel_names)
            try:
                kw = _select_kwargs(st)
                d.select(**kw)
                ix = np.ix_(d.dumps, d.channels, np.nonzero(d._corrprod_keep)[0])
                raw = np.asarray(d.raw_flags[s1, s2])
                flags = np.asarray(d.flags[s1, s2])
                vis = np.asarray(d.vis[s1, s2])
                wts = np.asarray(d.weights[s1, s2])
            except Exception as ex:
                ctx.disagree('stream=v4cal;what=raises;exc=%s' % type(ex).__name__, case, repr(ex)[:300], 'arrays',
                             'select() / reading raw_flags, flags, vis, weights raised')
                return
            ms = m[ix][s1, s2]
            has_pp = bool(mo[1] & 128)
            has_dl = bool(mo[1] & 8)
            tag = 'cal=%s;postproc_selected=%s;data_lost_selected=%s' % (
                'yes' if cfg['applycal'] else 'no', 'yes' if has_pp else 'no', 'yes' if has_dl else 'no')
            ftag = tag + ';flags_kw_in_step=%s' % ('yes' if 'flags' in st else 'no')
            if raw.shape != ms.shape[:3] or raw.dtype != np.uint8 or flags.shape != raw.shape:
                ctx.disagree('stream=v4cal;obs=shape', case, [raw.shape, str(raw.dtype), flags.shape], ms.shape[:3],
                             'shape / dtype of raw_flags or flags differs from the selection')
                return
            fb = flags.view(np.uint8) != 0 if flags.dtype == bool else flags != 0
            # property: implementation vs SPEC columns (7, 8); tie: implementation vs MODEL columns (0, 1)
            for kind, c_raw, c_flag in (('property', 7, 8), ('tie', 0, 1)):
                sfx = '' if kind == 'property' else ';vs=model'
                exp_raw = ms[..., c_raw]
                if not np.array_equal(raw, exp_raw):
                    bad = tuple(np.argwhere(raw != exp_raw)[0])
                    lost_here = bool((e['lostf'] | e['lostv'] | e['lostw'])[ix][s1, s2][bad])
                    ctx.disagree('stream=v4cal;obs=raw_flags;bits=%s;element=%s;%s%s'
                                 % (_bit_names(raw ^ exp_raw.astype(np.uint8)), 'lost' if lost_here else 'intact', tag, sfx),
                                 dict(case, at=[int(b) for b in bad]), int(raw[bad]), int(ms[bad][0]),
                                 'v4 raw_flags differ from stored | data_lost | postproc under the current flag selection %r'
                                 % (sel_names,), spec=int(ms[bad][7]), kind=kind)
                exp_flag = ms[..., c_flag] != 0
                if flags.dtype != bool or not np.array_equal(fb, exp_flag):
                    bad = tuple(np.argwhere(fb != exp_flag)[0]) if flags.dtype == bool else (0, 0, 0)
                    ctx.disagree('stream=v4cal;obs=flags;%s%s' % (ftag, sfx), dict(case, at=[int(b) for b in bad]),
                                 bool(fb[bad]), bool(ms[bad][1]),
                                 'v4 boolean flags differ from (derived raw byte & mask of %r) != 0' % (sel_names,),
                                 spec=bool(ms[bad][8]), kind=kind)
                if np.array_equal(ms[..., 0], ms[..., 7]) and np.array_equal(ms[..., 1], ms[..., 8]):
                    break    # model = spec on this case (always, unless a proof obligation is broken)
            exp_vis = (ms[..., 2] + 1j * ms[..., 3]) * (2.0 ** ms[..., 4])
            if not np.array_equal(vis, exp_vis.astype(np.complex64)):
                bad = tuple(np.argwhere(vis != exp_vis.astype(np.complex64))[0])
                ctx.disagree('stream=v4cal;obs=vis;%s' % tag, dict(case, at=[int(b) for b in bad]),
                             str(vis[bad]), str(exp_vis[bad]),
                             'visibilities changed with the flag / weight selection history (or are not the corrected ones)')
            exp_w = ms[..., 5] * (2.0 ** ms[..., 6])
            if not np.array_equal(wts, exp_w.astype(np.float32)):
                bad = tuple(np.argwhere(wts != exp_w.astype(np.float32))[0])
                ctx.disagree('stream=v4cal;obs=weights;%s' % tag, dict(case, at=[int(b) for b in bad]),
                             float(wts[bad]), float(exp_w[bad]),
                             'weights changed with the flag / weight selection history (or are not the corrected ones)')
            sub = {k: np.asarray(e[k])[ix][s1, s2] for k in ('lostf', 'lostv', 'lostw', 'calok')}
            any_lost = bool((sub['lostf'] | sub['lostv'] | sub['lostw']).any())
            any_nan = bool((~sub['calok']).any())
            ctx.traces_validated += 1
            ctx.note_case(key + (i, repr(st)), nontrivial=any_lost or any_nan,
                          sample=dict(stream='v4cal', applycal=cfg['applycal'], step=st, mask=mo[1], lost_in_selection=any_lost,
                                      invalid_cal_in_selection=any_nan) if i == len(hist) - 1 else None)
            ctx.count('v4cal_steps')
            ctx.count('v4cal:flags_kw=%s' % ('flags' in st))
            if any_nan:
                ctx.count('v4cal:invalid_cal_visible;postproc_selected=%s' % has_pp)
            if any_lost:
                ctx.count('v4cal:lost_visible;data_lost_selected=%s' % has_dl)
        ctx.count('v4cal:calmode=%s' % cfg['calmode'])
        ctx.count('fmt=v4')
    finally:
        if x is not None:
            v4.cleanup(x)


# ---------------------------------------------------------------------------------------------------------------
# stream concat: ConcatenatedDataSet of v4 / v3 / v2 members under histories of flag / weight selections
# ---------------------------------------------------------------------------------------------------------------
FMT_CODE = {'v4': 4, 'v3': 3, 'v2': 2}
_INCOQ_TAB = []
_INCOQ = []     # (wire case, output of the extracted model): a sample is re-evaluated inside Coq in the thorough tier
# every run walks each kind of concatenation through this history (the demo of every spelling of a selection,
# the empty ones after non-empty ones, with calls without flags= in between)
CONCAT_FIXED = [{'flags': 'cam'}, {'flags': ''}, {'dumps': [1, 4]}, {'flags': 'static,data_lost'}, {'flags': []},
                {'flags': ['postproc', 'reserved0'], 'weights': ''}, {'flags': 'cam,bogus'}, {'flags': {'tuple': []}},
                {'reset': 1}, {'flags': list(DOC), 'weights': 'all'}, {'flags': '', 'weights': []}, {'flags': 'bogus'},
                {'weights': 'precision'}, {'flags': 'ingest_rfi, cal_rfi'}, {'flags': [], 'weights': 'nope'},
                {'channels': [1, 3]}, {'flags': 'all', 'weights': 'all'}]
CONCAT_FORCED = [dict(fmts=['v4', 'v4']), dict(fmts=['v3', 'v3']), dict(fmts=['v2', 'v2']), dict(fmts=['v3', 'v4'])]
WEIGHT_POOL = ['all', '', [], 'precision', ['precision'], 'nope', 'precision,nope', {'tuple': []}, ' precision ']


def _py_arg(v):
    """selection argument as written in a configuration -> the Python value handed to select()."""
    if isinstance(v, dict):
        return tuple(v['tuple'])
    return v if isinstance(v, str) else list(v)


def _wire_opt(st, key):
    return [wire_arg(_py_arg(st[key]))] if key in st else []


def _sel_class(a):
    a = _py_arg(a)
    if isinstance(a, str):
        names = [] if not a else (DOC if a == 'all' else [n.strip() for n in a.split(',')])
        if a == 'all':
            return 'all'
    else:
        names = list(a)
    if not names:
        return 'empty'
    return 'named' if any(n in DOC for n in names) else 'unknown_only'


def gen_concat(rng, tier='quick', force=None):
    force = force or {}
    fmts = force.get('fmts')
    if fmts is None:
        kind = rng.choice(['v4', 'v4', 'v3', 'v2', 'mixed'])
        k = rng.choice([2, 2, 3])
        fmts = sorted([rng.choice(['v3', 'v4']) for _ in range(k)]) if kind == 'mixed' else [kind] * k
        if kind == 'mixed' and len(set(fmts)) == 1:
            fmts[0], fmts[-1] = 'v3', 'v4'
    k = len(fmts)
    F = rng.randint(3, 6)
    T = [rng.randint(2, 5) for _ in range(k)]
    pre = []
    for n in range(k):
        steps = []
        if rng.random() < (0.8 if force else 0.5):       # the member had its own selection before it was concatenated
            for _ in range(rng.randint(1, 2)):
                st = {}
                if rng.random() < 0.8:
                    st['flags'] = rng.choice(['cam', '', 'static,cal_rfi', ['data_lost'], 'bogus', []])
                if rng.random() < 0.4 or not st:
                    st['weights'] = rng.choice(['', 'precision', []])
                steps.append(st)
        pre.append(steps)
    order = list(range(k))
    rng.shuffle(order)
    hist = []
    for _ in range(rng.randint(6, 10)):
        st = {}
        if rng.random() < 0.12:                          # behind the back of the whole: directly on one member
            st['member'] = rng.randrange(k)
            if rng.random() < 0.8:
                st['flags'] = rng.choice(FLAG_POOL)
            if rng.random() < 0.4 or 'flags' not in st:
                st['weights'] = rng.choice(WEIGHT_POOL)
            hist.append(st)
            continue
        if rng.random() < 0.7:
            a = rng.choice(FLAG_POOL + ['', [], {'tuple': []}, ''])
            if rng.random() < 0.15:
                names = rng.sample(DOC, rng.randint(1, 7))
                a = names if rng.random() < 0.5 else ','.join(names)
            st['flags'] = a
        if rng.random() < 0.3:
            st['weights'] = rng.choice(WEIGHT_POOL)
        r = rng.random()
        if r < 0.15:
            a = rng.randrange(sum(T) - 1)
            st['dumps'] = [a, rng.randint(a + 1, sum(T))]
        elif r < 0.3:
            a = rng.randrange(F)
            st['channels'] = [a, rng.randint(a + 1, F)]
        elif r < 0.4:
            st['pol'] = rng.choice(['hh', 'vv', 'hv', 'h', 'v'])
        elif r < 0.5 and not st:
            st['reset'] = 1
        if not st:
            st['reset'] = 1
        hist.append(st)
    if force:
        hist = [dict(s) for s in CONCAT_FIXED] + hist[:3]
    cal = [None] * k
    if set(fmts) == {'v4'}:
        # v4 members with their own calibration products applied and lost chunks of any of the four arrays
        for n in range(k):
            if rng.random() < (0.75 if force else 0.4):
                sub = gen_v4cal(rng, tier, force=dict(calmode=rng.choice(['G', 'GB', 'B']), nan=True, lose=True),
                                fixed=dict(n_ant=2, T=T[n], F=F))
                sub.pop('hist')
                sub['shuffle_bls'] = False
                cal[n] = sub
    return dict(stream='concat', fmts=fmts, T=T, F=F, seed=rng.randrange(10 ** 6), pre=pre, order=order, hist=hist,
                cal=cal, lose=[f == 'v4' and rng.random() < 0.6 for f in fmts],
                index=[rng.choice([None, None, 2]), rng.choice([None, None, 2])])


def _h5_cps(ants):
    inputs = [a + p for a in ants for p in 'hv']
    return [(inputs[i], inputs[j]) for i in range(len(inputs)) for j in range(i, len(inputs))]


def build_concat(cfg, tmp):
    """The members in time order: list of (data set, raw flag bytes as the member must expose them, closer)."""
    import os
    fmts, F = cfg['fmts'], cfg['F']
    mixed = len(set(fmts)) > 1
    members = []
    for n, fmt in enumerate(fmts):
        T = cfg['T'][n]
        # mixed: one antenna (the v3 and v4 writers describe m000 identically), so that all members share the subarray
        ants = ('m000',) if mixed else (('ant1', 'ant2') if fmt == 'v2' else ('m000', 'm001'))
        B = 3 if mixed else (12 if fmt == 'v4' else 10)
        rs = np.random.RandomState(cfg['seed'] + 7 * n)
        fl = rs.permutation((np.arange(T * F * B) * 37 + 11 * n) % 256).astype(np.uint8).reshape(T, F, B)
        fl.reshape(-1)[:8] = 1 << np.arange(8)           # every single-bit byte occurs in every member
        sub = (cfg.get('cal') or [None] * len(fmts))[n]
        if fmt == 'v4' and sub is not None:
            x = open_v4cal(sub, os.path.join(tmp, 'p%d' % n), cbid='16%08d' % n, first_timestamp=100.0 + 1000.0 * n)
            e = v4cal_expected(sub, x.stored, _v4cal_bls(sub))
            # what the member must expose: stored byte (nothing where the flags chunk is lost) | data_lost | postproc
            raw = (np.where(e['lostf'], 0, e['stored']) | np.where(e['lostf'] | e['lostv'] | e['lostw'], 8, 0)
                   | np.where(e['calok'], 0, 128)).astype(np.uint8)
            members.append((x.d, raw, None))
        elif fmt == 'v4':
            kw = dict(T=T, F=F, seed=cfg['seed'] + n, arrays={'flags': fl}, cbid='16%08d' % n, ants=ants,
                      first_timestamp=100.0 + 1000.0 * n, tmp=os.path.join(tmp, 'p%d' % n),
                      bandwidth=F * 1048576.0, center_freq=1284e6)        # the spectral window of the v4cal members
            if mixed:
                kw['bls_ordering'] = _h5_cps(ants)
                kw['bandwidth'] = 856e6 / 4096 * F                           # the spectral window of the v3 writer
                kw['sub_product'] = ''
            raw = fl.copy()
            if cfg['lose'][n]:
                kw['chunks'] = {'correlator_data': (1, F, B)}
                kw['lose'] = [('sdp_l0', 'correlator_data', (T - 1, 0, 0))]
                raw[T - 1] |= np.uint8(8)
            x = v4.build_v4(**kw)
            members.append((x.d, raw, None))
        else:
            os.makedirs(os.path.join(tmp, 'h5'), exist_ok=True)
            if fmt == 'v3':
                d, _, _ = h5.open_v3(os.path.join(tmp, 'h5'), name='15%08d.h5' % n, T=T, F=F, flags=fl, seed=cfg['seed'] + n,
                                     t0=1500000000.0 + 1000.0 * n, ants=ants, open_kwargs=dict(band='l'))
            else:
                d, _, _ = h5.open_v2(os.path.join(tmp, 'h5'), name='13%08d.h5' % n, T=T, F=F, flags=fl, seed=cfg['seed'] + n,
                                     t0=1300000000.0 + 1000.0 * n)
            members.append((d, fl, d.file))
    return members


def concat_py(cfg, upto):
    """Fallback of wire 162 in Python (documented behaviour), used only while searching without a model binary."""
    out = []
    for i in range(upto + 1):
        h = cfg['hist'][:i]
        curf, curw = 'all', 'all'
        per = [[None, None] for _ in cfg['fmts']]
        for st in h:
            if 'member' in st:
                if 'flags' in st:
                    per[st['member']][0] = _py_arg(st['flags'])
                if 'weights' in st:
                    per[st['member']][1] = _py_arg(st['weights'])
            else:
                curf = _py_arg(st['flags']) if 'flags' in st else curf
                curw = _py_arg(st['weights']) if 'weights' in st else curw
                per = [[None, None] for _ in cfg['fmts']]
        rows = []
        for n, fmt in enumerate(cfg['fmts']):
            f = per[n][0] if per[n][0] is not None else curf
            w = per[n][1] if per[n][1] is not None else curw
            sm = spec_py(curf)[3 if fmt == 'v2' else 1]
            mm = spec_py(f)[3 if fmt == 'v2' else 1]
            won = lambda a: [0] * sum(1 for x in _names_py(a, ['precision']) if x == 'precision')   # noqa: E731
            rows.append([mm, won(w) if fmt != 'v4' else [], sm, int(bool(won(curw)))])
        out.append([int(not h or 'member' not in h[-1]), rows])
    return out


def _names_py(a, all_names):
    if isinstance(a, str):
        return [] if not a else (list(all_names) if a == 'all' else [n.strip() for n in a.split(',')])
    return list(a)


def run_concat(ctx, cfg):
    from katdal.concatdata import ConcatenatedDataSet
    tmp = v4.scratch_dir('c16cat')
    fmts = cfg['fmts']
    ftag = fmts[0] if len(set(fmts)) == 1 else 'mixed'      # kind of concatenation (the count is in the case)
    members = []
    hist = cfg['hist']
    if not _have(ctx, 162):
        # searching with the Python fallback concat_py: it states the documented behaviour of calls on the WHOLE only (a
        # member selected directly re-applies its own earlier keywords on later direct calls - only the faithful model
        # of wire 162 follows that), so the history ends before the first call made directly on a member
        cut = next((i for i, st in enumerate(hist) if 'member' in st), len(hist))
        hist = hist[:cut]
        cfg = dict(cfg, hist=hist)
    try:
        try:
            members = build_concat(cfg, tmp)
            for (d, _, _), steps in zip(members, cfg['pre']):
                for st in steps:
                    d.select(**{k: _py_arg(v) for k, v in st.items()})
            c = ConcatenatedDataSet([members[i][0] for i in cfg['order']])
            if [id(d) for d in c.datasets] != [id(m[0]) for m in members]:
                raise RuntimeError('members are not in time order')
            if len(c.spectral_windows) != 1 or len(c.subarrays) != 1 or c.shape[0] != sum(cfg['T']):
                raise RuntimeError('fixture: the members do not share one subarray / spectral window: %r' % (c.shape,))
        except Exception as e:
            ctx.disagree('stream=concat;fmts=%s;what=open_raises;exc=%s' % (ftag, type(e).__name__),
                         dict(stream='concat', cfg=dict(cfg, hist=[])), repr(e)[:300], 'a data set',
                         'building / concatenating the members raised')
            return
        mwire = [[FMT_CODE[f], [[_wire_opt(st, 'flags'), _wire_opt(st, 'weights')] for st in steps]]
                 for f, steps in zip(fmts, cfg['pre'])]
        hwire = [([1, st['member']] if 'member' in st else [0]) + [_wire_opt(st, 'flags'), _wire_opt(st, 'weights')]
                 for st in hist]
        if _have(ctx, 162):
            mo = ctx.model([[162, [2, mwire, hwire]]])[0]
            _INCOQ.append(([162, [2, mwire, hwire]], mo))
        else:
            mo = concat_py(cfg, len(hist))
        if mo == [-999] or len(mo) != len(hist) + 1:
            ctx.disagree('stream=concat;what=model_error', dict(stream='concat', cfg=cfg), None, mo,
                         'model returned an error', kind='tie')
            return
        seg = [int(s) for s in c._segments]
        raw_all = np.concatenate([m[1] for m in members])
        vis_all = np.asarray(c.vis[:]).copy()
        wts_all = np.asarray(c.weights[:]).copy()
        member_of = np.concatenate([np.full(seg[n + 1] - seg[n], n) for n in range(len(members))])
        is_h5 = np.array([f != 'v4' for f in fmts])[member_of]
        cur_f, cur_w = 'all', 'all'
        s1, s2 = [slice(None) if x is None else slice(None, None, x) for x in cfg.get('index', [None, None])]
        for i in range(-1, len(hist)):
            st = hist[i] if i >= 0 else {}
            case = dict(stream='concat', cfg=dict(cfg, hist=hist[:i + 1]), step=i)
            ends_whole, rows = mo[i + 1]
            on_member = 'member' in st
            before = (c.dumps.tolist(), c.channels.tolist(), c.corr_products.tolist(), c.shape)
            try:
                kw = {k: _py_arg(v) for k, v in st.items() if k in ('flags', 'weights')}
                if on_member:
                    c.datasets[st['member']].select(**kw)
                elif i >= 0:
                    for k in ('dumps', 'channels'):
                        if k in st:
                            kw[k] = slice(*st[k])
                    if 'pol' in st:
                        kw['pol'] = st['pol']
                    c.select(**kw)
                ix = np.ix_(c.dumps, c.channels, np.nonzero(c._corrprod_keep)[0])
                flags = np.asarray(c.flags[s1, s2])
                vis = np.asarray(c.vis[s1, s2])
                wts = np.asarray(c.weights[s1, s2])
                mflags = [np.asarray(d.flags[:]) for d in c.datasets]
                mraw = [np.asarray(d.raw_flags[:]) if f == 'v4' else None for d, f in zip(c.datasets, fmts)]
                mmask = [int(np.asarray(d._flags_select).ravel()[0]) for d in c.datasets]
                mwts = [[int(x) for x in d._weights_select] if f != 'v4' else [] for d, f in zip(c.datasets, fmts)]
            except Exception as ex:
                ctx.disagree('stream=concat;fmts=%s;what=raises;exc=%s' % (ftag, type(ex).__name__), case, repr(ex)[:300],
                             'arrays', 'select() / reading flags, vis, weights of the concatenated data set raised')
                return
            if not on_member:
                cur_f = st.get('flags', cur_f)
                cur_w = st.get('weights', cur_w)
            tag = 'fmts=%s;sel=%s;flags_kw_in_step=%s;last_call=%s' % (
                ftag, _sel_class(cur_f), 'yes' if 'flags' in st else 'no',
                'construction' if i < 0 else ('member' if on_member else 'whole'))
            after = (c.dumps.tolist(), c.channels.tolist(), c.corr_products.tolist(), c.shape)
            only_fw = i >= 0 and not (set(st) - {'flags', 'weights', 'member'})
            if only_fw and before != after:
                ctx.disagree('stream=concat;obs=selection_moved;' + tag, case, after[3], before[3],
                             'a call carrying only flags= / weights= changed the time / frequency / product selection')
            if flags.shape != vis_all[ix][s1, s2].shape or flags.dtype != bool:
                ctx.disagree('stream=concat;obs=shape;' + tag, case, [flags.shape, str(flags.dtype)], list(c.shape),
                             'shape / dtype of the flags of the concatenated data set')
                return
            fb = flags.view(np.uint8) != 0
            n_before = len(ctx.disagreements)
            if not np.array_equal(vis, vis_all[ix][s1, s2]):
                ctx.disagree('stream=concat;obs=vis;' + tag, case, vis.shape, vis_all[ix].shape,
                             'visibilities of the concatenated data set changed with the flag / weight selection')
            raw_sel = raw_all[ix][s1, s2]
            mem_sel = member_of[c.dumps][s1]
            h5_sel = is_h5[c.dumps][s1]
            # property (only when the last call went to the whole): spec columns; tie: model columns
            for kind, col, wcol in (('property', 2, 3), ('tie', 0, 1)):
                if kind == 'property' and not ends_whole:
                    continue
                if kind == 'tie' and len(ctx.disagreements) > n_before:
                    break       # already reported against the spec: the model columns would only repeat it
                sfx = '' if kind == 'property' else ';vs=model'
                masks = np.array([r[col] for r in rows], dtype=np.uint8)
                exp = (raw_sel & masks[mem_sel][:, None, None]) != 0
                if not np.array_equal(fb, exp):
                    bad = tuple(int(b) for b in np.argwhere(fb != exp)[0])
                    ctx.disagree('stream=concat;obs=flags;%s%s' % (tag, sfx), dict(case, at=list(bad)),
                                 bool(fb[bad]), bool(exp[bad]),
                                 'boolean flags of the concatenated data set differ from (raw byte & mask of %r) != 0 '
                                 '(member %d, raw byte %d)' % (_py_arg(cur_f), int(mem_sel[bad[0]]), int(raw_sel[bad])),
                                 spec=int(rows[int(mem_sel[bad[0]])][2]), kind=kind)
                won = np.array([bool(r[wcol]) for r in rows])
                exp_w = np.where((won[mem_sel] | ~h5_sel)[:, None, None], wts_all[ix][s1, s2], np.float32(1.0))
                if not np.array_equal(wts, exp_w):
                    bad = tuple(int(b) for b in np.argwhere(wts != exp_w)[0])
                    ctx.disagree('stream=concat;obs=weights;fmts=%s;wsel=%s;weights_kw_in_step=%s%s'
                                 % (ftag, _sel_class(cur_w) if _sel_class(cur_w) != 'named' else 'precision',
                                    'yes' if 'weights' in st else 'no', sfx), dict(case, at=list(bad)),
                                 float(wts[bad]), float(exp_w[bad]),
                                 'weights of the concatenated data set under the weight selection %r (HDF5 members: stored '
                                 'weights iff "precision" is selected, else 1.0)' % (_py_arg(cur_w),), kind='tie')
                if all(r[0] == r[2] and bool(r[1]) == bool(r[3]) for r in rows):
                    break
            # every member on its own: internal mask / weight selection, its own flags, v4 raw flags
            for n, (d, f) in enumerate(zip(c.datasets, fmts)):
                if len(ctx.disagreements) > n_before:
                    break
                mtag = '%s;member_fmt=%s' % (tag, f)
                if ends_whole and mmask[n] != rows[n][2]:
                    ctx.disagree('stream=concat;obs=member_mask;%s' % mtag, dict(case, member=n), mmask[n], rows[n][0],
                                 'mask of a member differs from the bits of the names selected on the whole (%r)'
                                 % (_py_arg(cur_f),), spec=rows[n][2])
                elif mmask[n] != rows[n][0] or (f != 'v4' and mwts[n] != rows[n][1]):
                    ctx.disagree('stream=concat;obs=member_selection;%s;vs=model' % mtag, dict(case, member=n),
                                 [mmask[n], mwts[n]], [rows[n][0], rows[n][1]],
                                 '_flags_select / _weights_select of a member differ from the model', spec=rows[n][2],
                                 kind='tie')
                t_sel = c.dumps[(c.dumps >= seg[n]) & (c.dumps < seg[n + 1])]
                rix = np.ix_(t_sel, c.channels, np.nonzero(c._corrprod_keep)[0])
                mf = mflags[n].view(np.uint8) != 0 if mflags[n].dtype == bool else mflags[n] != 0
                if not np.array_equal(mf, (raw_all[rix] & np.uint8(rows[n][0])) != 0):
                    ctx.disagree('stream=concat;obs=member_flags;%s;vs=model' % mtag, dict(case, member=n),
                                 mf.shape, list(raw_all[rix].shape),
                                 'boolean flags of a member differ from (raw & model mask) != 0', kind='tie')
                if mraw[n] is not None and not np.array_equal(mraw[n], raw_all[rix]):
                    ctx.disagree('stream=concat;obs=member_raw_flags;%s' % mtag, dict(case, member=n),
                                 mraw[n].shape, list(raw_all[rix].shape),
                                 'raw flags of a v4 member differ from stored | data_lost under the selection')
            ctx.traces_validated += 1
            if len(ctx.disagreements) > n_before:
                return          # later steps of this case would only repeat it; the replay is this prefix
            ctx.note_case(('concat', cfg['seed'], ftag, i, repr(st)),
                          nontrivial=bool(raw_sel.any()) and len(c.dumps) > 0,
                          sample=dict(stream='concat', fmts=fmts, step=st, masks=[r[0] for r in rows])
                          if i == len(hist) - 1 else None)
            ctx.count('concat_steps')
            ctx.count('concat:sel=%s' % _sel_class(cur_f))
            ctx.count('concat:last_call=%s' % ('construction' if i < 0 else ('member' if on_member else 'whole')))
        ctx.count('concat:fmts=%s' % '+'.join(fmts))
        ctx.count('concat:members_with_applycal', sum(1 for x in (cfg.get('cal') or []) if x))
    finally:
        for _, _, f in members:
            try:
                if f is not None:
                    f.close()
            except Exception:
                pass
        shutil.rmtree(tmp, ignore_errors=True)
