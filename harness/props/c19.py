"""C19 — concatenated data sets behave as one long data set (correspondence + search).

Every case writes 1-3 synthetic data sets (MVF v4 telstate + chunk store, HDF5 v3 or v2) with partly shared targets,
sensors present in arbitrary subsets, different start times, and opens them twice: once as the PARTS of a real
`ConcatenatedDataSet` / `katdal.open([...])` in a random input order, once as stand-alone TWINS.  The twins give the
inputs of the extracted Coq models (Model/Concat.v, ConcatSel.v, ConcatData.v) and are themselves the reference of
the property: the whole must present the concatenation of what the twins present, and a selection on the whole must
select in each part what the translated selection selects on its twin."""
import logging
import numbers
import random
import shutil
import warnings

import numpy as np

from fixtures import c19parts, v4
from props import c02

RULE = ('a case = 1-3 synthetic data sets of one format (MVF v4 in-memory telstate + npy chunk store, HDF5 v3, v2, v1; '
        'also v3+v4 mixtures) with 2-7 dumps each, distinct start times (sometimes equal: refused), equal dump periods '
        '(sometimes different: must be refused), 1-3 target events per part drawn from a pool of 6 targets incl. shared '
        'aliases and a same-name-different-target pair, 1-4 activity events, 0-3 labels, float / string / int / bool '
        '/ unsigned integer (uint8 / 16 / 32, also different widths in different parts) sensors and directly assigned int arrays each present in a random subset of the parts, '
        'sometimes parts of another subarray (other antenna, same products in another order, same antenna names at '
        'another position) and / or spectral window (centre frequency, channel width, product, band), also several of '
        'both; concatenated in a random input order through katdal.open([...]) or '
        'ConcatenatedDataSet([...]); then 2-4 histories of 1-6 select() calls of C02\'s generator (all criterion kinds '
        'and argument forms) with, after every call, the masks of every part compared with the translated call on '
        'its stand-alone twin, a second-stage index (int / slice / mask / sorted list per axis, spanning part '
        'boundaries) on timestamps / vis / flags / weights and the selected values of every sensor; scans() / '
        'compscans() run to exhaustion; on concatenations with several subarrays / windows the same after '
        'select(subarray=s, spw=w) for every pair (s, w) plus a fixed pol / ants / inputs / corrprods / freqrange history.  Non-trivial: at least 2 parts opened and a selection that keeps dumps of at '
        'least two parts; distinct by the generated case (seed)')
ASSUMPTIONS = ['overlapping parts (kind=overlap) shifted by a fraction of a dump have no common dump grid for C02\'s observation: they get the model-free battery of index-free criteria',
               'select histories on concatenations with several merged subarrays / spectral windows start with '
               'select(subarray=s, spw=w) and do not name spw / subarray again (Model/ConcatMulti.v); v3+v4 mixtures (no '
               'common dump grid) get a model-free battery of index-free criteria against the stand-alone parts',
               'subarrays / spectral windows are identified by their public attributes (antenna descriptions and '
               'correlation products in order; centre_freq, channel_width, num_chans, sideband, band, product, bandwidth)',
               'the dummy value of an unsigned integer type of b bits is its largest value 2^b - 1 (the value the documented '
               'integer dummy -1 is stored as; Model/Concat.v spec_dummy_u), b = the width of numpy\'s promotion of the '
               'dtypes of the parts that have the sensor; uint64 sensors are not generated (2^64 - 1 does not fit the 63-bit '
               'integers of the extracted driver; the theorems hold for any width)',
               'parts whose subarrays / spectral windows differ in the NUMBER of products / channels (kind=sizes): open level, '
               'metadata, input order and, for every (subarray, spw) pair with dumps, all four arrays completely and under an int / '
               'strided slice / mask head against the glued stand-alone parts (Model/ConcatData.v ds_getitem_sized); no select '
               'histories; v4 parts: open finding C19-F5',
               'second-stage indices are restricted to the forms C05 proves for ConcatenatedLazyIndexer: no negative '
               'steps, no empty head slice whose start lies in a later part than its stop, no empty tail selection '
               '(open findings F10 / F10b / F30b of C05), integer lists sorted',
               'sensor values cross the wire as ids (strings, floats via tables; NaN -7777); the per-part extraction '
               '(interpolation, sensor_to_categorical) is the twins\' own: C10 / C12',
               'ref_ant / time_offset of the concatenated object are copied from the first data set of the INPUT list '
               '(not constrained by the property; not compared)']

NAN = -7777
OBS = ['Observation/subarray', 'Observation/spw', 'Observation/target', 'Observation/subarray_index',
       'Observation/spw_index', 'Observation/target_index', 'Observation/scan_state', 'Observation/label',
       'Observation/scan_index', 'Observation/compscan_index']
STATES_RAW = ['slew', 'track', 'scan', 'stop']
SHORTS = ['f', 's', 'i', 'b', 'u']


# ---------------------------------------------------------------------------------------------------------------
# generation

def gen_events(rng, T, vocab, first=True, maxn=3):
    n = rng.randint(0, maxn)
    dumps = sorted(rng.sample(range(1, T), min(n, T - 1))) if T > 1 else []
    ev = [(0, rng.choice(vocab))] if first else []
    for d in dumps:
        ev.append((d, rng.choice(vocab)))
    return ev


def gen_case(rng):
    mix = rng.random()
    k = rng.choice([1, 2, 2, 2, 2, 3, 3])
    if mix < 0.40:
        fmts = ['v4'] * k
    elif mix < 0.62:
        fmts = ['v3'] * k
    elif mix < 0.80:
        fmts = ['v2'] * k
    elif mix < 0.90:
        fmts = ['v1'] * k
    else:
        k = max(k, 2)
        fmts = [rng.choice(['v3', 'v4']) for _ in range(k)]
        fmts[0], fmts[1] = 'v3', 'v4'
    mixed = len(set(fmts)) > 1
    starts = [100 * s for s in rng.sample(range(1, 14), k)]
    special = rng.random()
    kind = 'plain'
    force_T = {}
    F = rng.choice([2, 4])
    dts = [2.0] * k
    ants = [('m000', 'm001')] * k
    cfv = [0] * k
    var = [{} for _ in range(k)]
    h5ok = fmts[0] != 'v1' and not mixed

    def some_parts():
        """a non-empty proper subset of the parts"""
        while True:
            pick = [rng.random() < 0.5 for _ in range(k)]
            if any(pick) and not all(pick):
                return [i for i in range(k) if pick[i]]
    if k >= 2 and special < 0.05:
        kind = 'tie'
        starts[1] = starts[0]
        if mixed:
            fmts = [fmts[0]] * k
            mixed = False
    elif k >= 2 and 0.46 <= special < 0.54:
        # OVERLAPPING parts: the second one starts while the first is still running (same dump grid or shifted by a
        # fraction of a dump); the order is still the one of the start times, the timestamps of the whole are not monotonic
        kind = 'overlap'
        starts[1] = starts[0] + rng.choice([1, 2, 3, 4, 5])
        if rng.random() < 0.5:
            force_T = {0: rng.randint(6, 7), 1: rng.randint(2, 3)}     # the second part lies INSIDE the first: it ends earlier
    elif k >= 2 and 0.54 <= special < 0.60 and not mixed and fmts[0] != 'v1':
        # parts of another SIZE: a spectral window with another number of channels and / or a subarray with another
        # number of antennas (correlation products)
        kind = 'sizes'
        how = rng.choice(['chans', 'prods', 'both'])
        for i in some_parts():
            if how in ('chans', 'both'):
                var[i]['F'] = 6 - F
            if how in ('prods', 'both'):
                ants[i] = ('m000', 'm001', 'm062')
    elif k >= 2 and special < 0.11:
        kind = 'period'
        # clearly different, or different only beyond the 6 significant digits the error message prints
        dts[rng.randrange(k)] = 4.0 if rng.random() < 0.5 else 2.0000002
    elif k >= 2 and special < 0.17 and not mixed:
        kind = 'subarray'
        ants[rng.randrange(k)] = ('m000', 'm062')
    elif k >= 2 and special < 0.23 and not mixed and fmts[0] not in ('v1', 'v2'):
        kind = 'spw'
        cfv[rng.randrange(k)] = 1
    elif k >= 2 and special < 0.30 and h5ok:
        # the same antennas and the same correlation products, listed in another order: another subarray
        kind = 'subperm'
        for i in some_parts():
            var[i]['perm'] = rng.choice([1, 2, 3])
    elif k >= 2 and special < 0.34 and h5ok:
        # the same antenna names and products, one antenna at another position: another subarray
        kind = 'subdesc'
        for i in some_parts():
            var[i]['antdesc'] = 1
    elif k >= 2 and special < 0.40 and h5ok:
        # the same centre frequency and channel count; channel width / product / band differ: another spectral window
        kind = 'spwvar'
        which = rng.choice([v for v in ('bw', 'prod', 'band') if fmts[0] in c19parts.VARIANTS[v]])
        for i in some_parts():
            var[i][which] = 1
    elif k >= 2 and special < 0.46 and h5ok:
        # several subarrays AND several spectral windows (not every combination has dumps)
        kind = 'multi'
        subv = [{}, {'perm': 1}, {'perm': 2}, {'antdesc': 1}]
        spwv = [{}, {'bw': 1}] + ([{'prod': 1}, {'band': 1}] if fmts[0] == 'v4' else [])
        while True:
            var = [dict(rng.choice(subv), **rng.choice(spwv)) for _ in range(k)]
            if len({repr(sorted(v.items())) for v in var}) > 1:
                break
    pool = rng.sample(range(len(c19parts.TARGETS)), rng.randint(2, 4))
    present = {s: [rng.random() < 0.6 for _ in range(k)] for s in SHORTS}
    if rng.random() >= 0.45:
        present['u'] = [False] * k      # sensors of an unsigned integer type (finding C19-F4, repaired) in about half the cases
    # one width for all parts, or (now and then) different widths in different parts: numpy's promotion = the widest
    uwidths = [rng.choice(['u', 'u', 'u16', 'u32'])] * k if rng.random() < 0.7 else [rng.choice(['u', 'u16', 'u32']) for _ in range(k)]
    arr_present = [rng.random() < 0.5 for _ in range(k)] if rng.random() < 0.2 else [False] * k
    parts = []
    for i in range(k):
        T = rng.randint(2, 7)
        T = force_T.get(i, T)
        sens = {}
        if fmts[i] == 'v1':
            present = {s: [False] * k for s in SHORTS}      # the v1 writer has no such sensors
        if present['f'][i]:
            n = rng.choice([1, 2, 2, 3])
            pos = sorted(rng.sample(range(-4, 4 * T + 4), n))
            sens['f'] = ('f', [(p, float(rng.choice([-8, -2, 0, 1, 4, 16, 64]))) for p in pos])
        if present['s'][i]:
            sens['s'] = ('s', gen_events(rng, T, ['', 'x', 'y', 'z'], first=rng.random() < 0.8, maxn=2) or [(0, 'x')])
        if present['i'][i]:
            sens['i'] = ('i', gen_events(rng, T, [-1, 0, 3, 5], first=rng.random() < 0.8, maxn=2) or [(0, 3)])
        if present['u'][i]:
            sens['u'] = (uwidths[i], gen_events(rng, T, [0, 3, 200, 255], first=rng.random() < 0.8, maxn=2) or [(0, 3)])
        if present['b'][i]:
            sens['b'] = ('b', gen_events(rng, T, [True, False], first=rng.random() < 0.8, maxn=2) or [(0, True)])
        spec = dict(fmt=fmts[i], T=T, start=starts[i], dt=dts[i], ants=list(ants[i]), F=var[i].pop('F', F), cfv=cfv[i],
                    acts=gen_events(rng, T, STATES_RAW, maxn=3), targets=gen_events(rng, T, pool, maxn=2),
                    labels=gen_events(rng, T, c02.LABELS[1:] + [''], first=rng.random() < 0.7, maxn=2),
                    sens=sens, arrs=({'a': [rng.randint(-3, 9) for _ in range(T)]} if arr_present[i] else {}),
                    seed=rng.randrange(1000))
        if var[i]:
            spec['var'] = var[i]
        if mixed:
            # v3 files of the fixture writer carry 10 products for two antennas: give the v4 parts the same ones
            inputs = [a + p for a in spec['ants'] for p in 'hv']
            spec['bls'] = [(inputs[a], inputs[b]) for a in range(len(inputs)) for b in range(a, len(inputs))]
        parts.append(spec)
    order = list(range(k))
    rng.shuffle(order)
    gen = dict(kind=kind, mixed=mixed, parts=parts, order=order, via_open=rng.random() < 0.6,
               keep=[rng.random() < 0.65 for _ in range(sum(p['T'] for p in parts))],
               hseed=rng.randrange(1 << 30))
    # metadata of the parts (a generator of its own: the cases above stay what they were): observer / description /
    # experiment_id / further obs_params, some missing from some parts, list values; the reference antenna a part is
    # opened with when the concatenation is built from data set objects
    mrng = random.Random(gen['hseed'] ^ 0x5EED)
    for spec in parts:
        if mrng.random() < 0.65:
            extra = {}
            if mrng.random() < 0.6:
                extra['sb_id_code'] = mrng.choice(['S', 'S2'])
            if mrng.random() < 0.5:
                extra['notes'] = mrng.choice(['x', ['a', 'b'], ['a'], 3])
            if mrng.random() < 0.4:
                extra['zeta'] = mrng.choice(['', 'z'])
            spec['meta'] = dict(observer=mrng.choice(['verif', 'alice', '']), description=mrng.choice(['synthetic', 'other run']),
                                experiment_id=mrng.choice(['', '2026-1', '2026-2']), extra=extra,
                                drop=[x for x in ('proposal_id', 'sb_id_code') if mrng.random() < 0.3],
                                reverse=mrng.random() < 0.3)
        if mrng.random() < 0.4:
            spec['ref_ant'] = mrng.choice(spec['ants'])
    common = [a for a in parts[0]['ants'] if all(a in p['ants'] for p in parts)]
    if common and mrng.random() < 0.3:
        gen['open_ref_ant'] = mrng.choice(common)       # katdal.open([...], ref_ant): the same for every part
    return gen


# ---------------------------------------------------------------------------------------------------------------
# reading a (stand-alone) data set

ANT_IDS = list(c02.ANTS)


class Ids:
    """Value ids.  Subarrays and spectral windows: every unique value of every stand-alone part's sensor is entered as
    a STRUCTURE (sub_key / spw_key), one entry per occurrence and without comparing them here; wire_194
    (Model/ConcatIdent.v: Subarray.__eq__ / SpectralWindow.__eq__ as re-read from the source) decides which entries
    are identical, and the position of the first identical entry is the value id used everywhere else."""

    def __init__(self):
        self.tdesc, self.strs, self.floats, self.names = [], [''], [], []
        self.raw = {'sub': [], 'spw': []}
        self.objs = {'sub': [], 'spw': []}
        self.canon = None

    def struct_id(self, which, key, obj=None):
        if self.canon is None:
            self.raw[which].append(key)
            self.objs[which].append(obj)
            return len(self.raw[which]) - 1
        if key not in self.raw[which]:
            return -1 - Ids.gid(self.strs, 'unknown %s: %r' % (which, key))
        return self.canon[which][self.raw[which].index(key)]

    def input_wire(self, label):
        name, pol = label[:-1], label[-1:]
        a = ANT_IDS.index(name) if name in ANT_IDS else 100 + Ids.gid(self.strs, 'ant:' + name)
        return [a, 'hv'.index(pol) if pol in ('h', 'v') else 9]

    def sub_wire(self, key):
        ants, cps = key
        return [[Ids.gid(self.strs, 'antenna:' + d) for d in ants], [self.input_wire(a) + self.input_wire(b) for a, b in cps]]

    def spw_wire(self, key):
        cf, cw, nch, sb, band, prod, bw = key
        return [Ids.gid(self.floats, cf), Ids.gid(self.floats, cw), nch, sb, Ids.gid(self.strs, 'band:' + band),
                Ids.gid(self.strs, 'product:' + prod), Ids.gid(self.floats, bw)]

    def finish(self, cs):
        """The value ids used from here on are the SPEC's: two values are the same iff all their public attributes
        agree (position of the first such entry).  Against them: katdal's own comparison of the objects (== and hash:
        what concatenate_categorical merges by) = the property; the model's ids (wire_194) against katdal's = the tie."""
        out = cs.ctx.model([[194, [[self.sub_wire(k) for k in self.raw['sub']], [self.spw_wire(k) for k in self.raw['spw']]]]])[0]
        model = {'sub': out[0], 'spw': out[1]}
        self.canon = {}
        for which, text in (('sub', 'subarrays'), ('spw', 'spectral windows')):
            raw, objs = self.raw[which], self.objs[which]
            self.canon[which] = [raw.index(k) for k in raw]
            for i in range(len(raw)):
                for j in range(i):
                    impl = bool(objs[i] == objs[j]) and hash(objs[i]) == hash(objs[j])
                    if impl != (raw[i] == raw[j]):
                        cs.disagree('stage=ident;what=%s_%s' % (which, 'equal_but_not_identical' if impl else 'identical_but_not_equal'),
                                    impl, model[which][i] == model[which][j],
                                    ('%s that differ in a public attribute compare equal (and will be merged)' if impl else
                                     'identical %s do not compare equal (and will not be merged)') % text,
                                    spec=raw[i] == raw[j], entries=[repr(raw[j]), repr(raw[i])])
                    elif impl != (model[which][i] == model[which][j]):
                        cs.disagree('stage=ident;what=%s_eq_vs_model' % which, impl, model[which][i] == model[which][j],
                                    'the model of %s.__eq__ differs from the implementation' % ('Subarray' if which == 'sub' else 'SpectralWindow'),
                                    kind='tie', entries=[repr(raw[j]), repr(raw[i])])
        if len(out) > 3 and out[3] != [2 ** 8 - 1, 2 ** 16 - 1, 2 ** 32 - 1]:     # (an older last-good driver has no such table)
            cs.disagree('stage=ident;what=unsigned_dummy_table_vs_model', out[3], [2 ** b - 1 for b in (8, 16, 32)],
                        'the dummy values of uint8 / 16 / 32 read from dummy_sensor_getter are not the largest values of the types', kind='tie')
        if out[2] != [NAN, -1, 0, 0, -8888]:
            cs.disagree('stage=ident;what=dummy_table_vs_model', out[2], [NAN, -1, 0, 0, -8888],
                        'the dummy values read from dummy_sensor_getter are not nan / -1 / \'\' / False / None', kind='tie')

    @staticmethod
    def gid(table, key):
        if key not in table:
            table.append(key)
        return table.index(key)


def vid(ids, v):
    if isinstance(v, (bytes, np.bytes_)):
        v = v.decode()
    if isinstance(v, str):
        return Ids.gid(ids.strs, str(v))
    if isinstance(v, (bool, np.bool_)):
        return int(v)
    if isinstance(v, numbers.Integral):
        return int(v)
    if isinstance(v, (float, np.floating)):
        return NAN if v != v else 1000 + Ids.gid(ids.floats, float(v))
    desc = getattr(v, 'description', None) or getattr(v, '_description', None)
    return 5000 + Ids.gid(ids.strs, 'obj:' + str(desc if desc is not None else v))


def sub_key(s):
    """What makes a subarray, read from its public attributes (NOT through katdal's own comparison): the antennas
    (full descriptions, in order) and the correlation products in order (= the columns of the data)."""
    return (tuple(str(a.description) for a in s.ants), tuple((str(a), str(b)) for a, b in s.corr_products))


def spw_key(w):
    """What makes a spectral window: every public attribute."""
    return (float(w.centre_freq), float(w.channel_width), int(w.num_chans), int(w.sideband), str(w.band),
            str(w.product), float(w.bandwidth))


def obs_vid(ids, name, v):
    if name in ('Observation/target',):
        return Ids.gid(ids.tdesc, v.description)
    if name == 'Observation/subarray':
        return ids.struct_id('sub', sub_key(v), v)
    if name == 'Observation/spw':
        return ids.struct_id('spw', spw_key(v), v)
    if name == 'Observation/scan_state':
        return c02.STATES.index(str(v))
    if name == 'Observation/label':
        return c02.LABELS.index(str(v))
    return int(v)


def cd_wire(c, f):
    return [[f(v) for v in c.unique_values], [int(i) for i in c.indices], [int(e) for e in c.events]]


def dtype_code(dt):
    k = np.dtype(dt).kind if dt is not None else 'O'
    return {'f': 0, 'i': 1, 'u': 1, 'U': 2, 'S': 2, 'b': 3}.get(k, 4)


def read_sensor(d, name, ids):
    """('num', isfloat, ids) | ('cat', dtype code, cd wire) | None (absent)"""
    from katdal.categorical import CategoricalData
    try:
        x = d.sensor.get(name)
    except KeyError:
        return None
    if isinstance(x, CategoricalData):
        return ('cat', dtype_code(x.dtype), cd_wire(x, lambda v: vid(ids, v)), np.dtype(x.dtype).kind if x.dtype is not None else 'O',
                np.dtype(x.dtype) if x.dtype is not None else None)
    x = np.asarray(x)
    return ('num', int(x.dtype.kind == 'f'), [vid(ids, v) for v in x.tolist()], x.dtype.kind, x.dtype)


def unsigned_bits(sens_of_parts):
    """0, or the width in bits of numpy's promotion of the dtypes of the parts that have the sensor when that is an
    unsigned integer type (what katdal's common_dtype hands dummy_sensor_getter)."""
    dts = [s[4] for s in sens_of_parts if s is not None and s[4] is not None]
    if not dts or any(dt.kind not in 'iu' for dt in dts):
        return 0
    rt = np.result_type(*dts)
    return rt.itemsize * 8 if rt.kind == 'u' else 0


def sensor_names(case):
    out = []
    fmts = sorted({p['fmt'] for p in case['parts']})
    for fmt in fmts:
        for s in SHORTS:
            out.append(c19parts.sensor_name(fmt, s))
    out.append('Extra/c19_a')
    out.append('Extra/c19_nowhere')
    return out


def read_part(d, names, ids):
    info = dict(start=float(d.start_time.secs), dp=float(d.dump_period),
                ts=np.asarray(d.sensor.timestamps[:], dtype=float).copy(),
                T=len(d.sensor.timestamps))
    for n in OBS:
        info[n] = cd_wire(d.sensor.get(n), lambda v, n=n: obs_vid(ids, n, v))
    info['catalogue'] = [Ids.gid(ids.tdesc, t.description) for t in d.catalogue.targets]
    info['sens'] = {n: read_sensor(d, n, ids) for n in names}
    return info


def read_arrays(d):
    return dict(timestamps=np.asarray(d.timestamps[:]).copy(), vis=np.asarray(d.vis[:]).copy(),
                flags=np.asarray(d.flags[:]).copy(), weights=np.asarray(d.weights[:]).copy())


def part_wire(info, t_epoch, unit, starts, dps, names, refused=False):
    ts = (info['ts'] - t_epoch) / unit
    if refused:
        ts = np.round(ts)       # differing dump periods (no common grid): the refusal does not depend on the timestamps
    assert np.all(ts == np.round(ts)), 'timestamps are not on the quarter-dump grid'
    sens = []
    for j, n in enumerate(names):
        s = info['sens'][n]
        if s is None:
            continue
        if s[0] == 'num':
            sens.append([j, 0, s[1], s[2]])
        else:
            sens.append([j, 1, s[1], s[2]])
    o = info
    return [starts.index(o['start']), dps.index(o['dp']), [int(x) for x in ts],
            o['Observation/subarray'], o['Observation/spw'], o['Observation/target'],
            o['Observation/scan_state'], o['Observation/label'], o['Observation/scan_index'],
            o['Observation/compscan_index'], sens]


# ---------------------------------------------------------------------------------------------------------------
# verdict helpers

class Case:
    def __init__(self, ctx, gen, cseed):
        self.ctx, self.gen, self.cseed = ctx, gen, cseed
        self.fmt = '+'.join(sorted({p['fmt'] for p in gen['parts']}))
        self.bad = 0

    def doc(self, **at):
        return dict(cseed=self.cseed, gen=self.gen, at=at)

    def disagree(self, sig, impl, model, what, spec=None, kind='property', **at):
        self.bad += 1
        self.ctx.disagree('fmt=%s;kind=%s;%s' % (self.fmt, self.gen['kind'], sig), self.doc(**at), impl, model, what,
                          spec=spec, kind=kind)


def squeeze1(a):
    """singleton axes canonicalised away: the v1 / v2 indexers keep all three dimensions for scalar indices"""
    a = np.asarray(a)
    return a.reshape([n for n in a.shape if n != 1])


def nan_eq(a, b):
    a, b = np.asarray(a), np.asarray(b)
    if a.shape != b.shape:
        return False
    if a.dtype.kind in 'fc' and b.dtype.kind in 'fc':
        return bool(np.array_equal(a, b, equal_nan=True))
    return bool(np.array_equal(a, b))


# ---------------------------------------------------------------------------------------------------------------
# stage 1: opening

def stage_open(cs, parts, twins_info, c, exc, out, names, how):
    """Compares the opened concatenation (or the exception) with model and spec.  Returns True if the case goes on."""
    ctx, gen = cs.ctx, cs.gen
    status, model, spec = out
    refused = bool(spec[0])
    kind = gen['kind']
    if exc is not None:
        ctx.count('open_refused')
        if status == 0:
            if not refused:
                cs.disagree('stage=open;what=raises', repr(exc), 'opens', 'opening compatible data sets raised', spec='opens')
            else:
                cs.disagree('stage=open;what=model_opens_impl_raises', repr(exc), status, 'model opens, implementation raises', kind='tie')
        elif status == 3 and type(exc).__name__ != 'ConcatenationError':
            cs.disagree('stage=open;what=period_exception_class', repr(exc), 'ConcatenationError',
                        'differing dump periods are not refused with ConcatenationError')
        return False
    if status != 0:
        if status == 3:
            cs.disagree('stage=open;what=period_mismatch_accepted', 'opened', 'refused',
                        'data sets with differing dump periods were concatenated', spec='refused')
        else:
            cs.disagree('stage=open;what=impl_opens_model_refuses:%d' % status, 'opened', status,
                        'model refuses, implementation opens', kind='tie')
        return False
    (m_starts, m_segs, m_dp, m_subs, m_spws, m_cat, m_keep0, m_ts, m_obs, m_parts, m_sens, m_sel) = model
    (_, s_starts, s_ts, s_subs, s_spws, s_cat, s_subidx, s_spwidx, s_tgt, s_tgtidx, s_state, s_label, s_scan, s_cscan,
     s_keep0, s_sens) = spec
    ids = cs.ids
    starts = cs.starts
    # chronological order
    impl_starts = [starts.index(float(d.start_time.secs)) for d in c.datasets]
    if impl_starts != s_starts:
        cs.disagree('stage=open;what=order', impl_starts, m_starts, 'parts are not in order of start time', spec=s_starts)
        return False
    if impl_starts != m_starts:
        cs.disagree('stage=open;what=order_vs_model', impl_starts, m_starts, 'order differs from the model', kind='tie')
        return False
    ts = (np.asarray(c.sensor.timestamps[:], dtype=float) - cs.t_epoch) / cs.unit
    its = [int(x) for x in ts] if np.all(ts == np.round(ts)) else ts.tolist()
    if its != s_ts:
        cs.disagree('stage=open;what=timestamps', its, m_ts, 'timestamps are not the concatenation of the parts', spec=s_ts)
    if [int(x) for x in c._segments] != m_segs or its != m_ts:
        cs.disagree('stage=open;what=segments_vs_model', [int(x) for x in c._segments], m_segs, '_segments / timestamps differ from the model', kind='tie')
    # merged lists
    got = dict(subs=[ids.struct_id('sub', sub_key(s)) for s in c.subarrays],
               spws=[ids.struct_id('spw', spw_key(s)) for s in c.spectral_windows],
               cat=[Ids.gid(ids.tdesc, t.description) for t in c.catalogue.targets])
    for key, sv, mv, text in (('subs', s_subs, m_subs, 'subarrays'), ('spws', s_spws, m_spws, 'spectral windows'),
                              ('cat', s_cat, m_cat, 'targets')):
        if got[key] != sv:
            cs.disagree('stage=open;what=merged_%s' % key, got[key], mv,
                        'identical %s are not merged in order of first appearance' % text, spec=sv)
        elif got[key] != mv:
            cs.disagree('stage=open;what=merged_%s_vs_model' % key, got[key], mv, 'merged %s differ from the model' % text, kind='tie')
    keep0 = [int(x) for x in c._time_keep]
    if keep0 != s_keep0:
        cs.disagree('stage=open;what=default_selection', keep0, m_keep0,
                    'default selection is not the dumps of subarray 0 and spectral window 0', spec=s_keep0)
    elif keep0 != m_keep0:
        cs.disagree('stage=open;what=default_selection_vs_model', keep0, m_keep0, 'default selection differs from the model', kind='tie')
    # observation sensors of the whole
    spec_lists = {'Observation/subarray_index': s_subidx, 'Observation/spw_index': s_spwidx, 'Observation/target': s_tgt,
                  'Observation/target_index': s_tgtidx, 'Observation/scan_state': s_state, 'Observation/label': s_label,
                  'Observation/scan_index': s_scan, 'Observation/compscan_index': s_cscan}
    for n, mc in zip(OBS, m_obs):
        x = c.sensor.get(n)
        w = cd_wire(x, lambda v, n=n: obs_vid(ids, n, v))
        per_dump = expand_wire(w)
        short = n.split('/')[1]
        if n in spec_lists and per_dump != spec_lists[n]:
            what = ('%s indices do not continue across the parts' % short[:-6]) if short in ('scan_index', 'compscan_index') \
                else ('merged %s is not the concatenation of the parts (indices translated to the merged list)' % short)
            cs.disagree('stage=open;what=sensor:%s' % short, per_dump, mc[3] if mc else None, what, spec=spec_lists[n])
        elif not mc or w != mc[:3]:
            cs.disagree('stage=open;what=sensor_vs_model:%s' % short, w, mc[:3] if mc else None,
                        'events of the merged %s differ from the model' % short, kind='tie')
    # rewritten sensors of the parts
    for i, (d, mp) in enumerate(zip(c.datasets, m_parts)):
        gotp = [cd_wire(d.sensor.get(n), lambda v, n=n: obs_vid(ids, n, v))
                for n in ('Observation/subarray', 'Observation/spw', 'Observation/target', 'Observation/target_index',
                          'Observation/scan_index', 'Observation/compscan_index')]
        exp = [x[:3] for x in mp[1:]]
        if gotp != exp:
            which = [n for n, a, b in zip(('subarray', 'spw', 'target', 'target_index', 'scan_index', 'compscan_index'), gotp, exp) if a != b]
            cs.disagree('stage=open;what=part_sensors_vs_model:%s' % ','.join(which), gotp, exp,
                        'index sensors written back into part %d differ from the model' % i, kind='tie', part=i)
    # every other sensor: whole series, and the selected values under a time mask
    dead = set()
    cs.sorted_twins = [i for st in s_starts for i in range(len(twins_info)) if starts.index(twins_info[i]['start']) == st]
    eff = [bool(a and b) for a, b in zip(gen['keep'], s_keep0)]
    with warnings.catch_warnings():
        warnings.simplefilter('ignore')
        for j, n in enumerate(names):
            ms, ss = m_sens[j], s_sens[j]
            try:
                x = read_sensor(c, n, ids)
            except Exception as e:      # noqa: BLE001
                x = ('raised', repr(e), type(e).__name__)
            if cs.uns[j]:
                ctx.count('unsigned_sensor_bits=%d;%s' % (cs.uns[j], 'missing_from_a_part' if cs.lacks[j] else 'in_every_part'))
                if x is not None and x[0] == 'raised' and cs.lacks[j]:
                    # the symptom of finding C19-F4 (repaired): dummy_sensor_getter cannot make the dummy of an unsigned type
                    dead.add(j)
                    ctx.disagree('stage=sensor;what=unsigned_missing_raises;exc=%s' % x[2], cs.doc(name=n), x[1], ms,
                                 'a sensor of an unsigned integer type that some part lacks cannot be read from the concatenation',
                                 spec=ss[0] if ss else None)
                    continue
            if x is None:
                if ss:
                    cs.disagree('stage=sensor;what=keyerror;name=%s' % short_name(n), 'KeyError', ms,
                                'sensor present in some part is not found in the concatenation', spec=ss[0])
                elif ms != [2]:
                    cs.disagree('stage=sensor;what=keyerror_vs_model;name=%s' % short_name(n), 'KeyError', ms, 'model finds the sensor', kind='tie')
                continue
            if x[0] == 'raised':
                if ss and ms != [3]:
                    cs.disagree('stage=sensor;what=raises;name=%s' % short_name(n), x[1], ms,
                                'extracting a sensor of the concatenation raised', spec=ss[0])
                continue
            per_dump = x[2] if x[0] == 'num' else expand_wire(x[2])
            if not ss or per_dump != ss[0]:
                cs.disagree('stage=sensor;what=values;name=%s' % short_name(n), per_dump, ms,
                            'sensor is not the concatenation of the parts with dummy fill', spec=ss[0] if ss else None)
                continue
            mw = [0, x[2]] if x[0] == 'num' else [1, x[2]]
            if ms[0] != mw[0] or (ms[1][:3] if ms[0] == 1 else ms[1]) != mw[1]:
                cs.disagree('stage=sensor;what=structure_vs_model;name=%s' % short_name(n), mw, ms,
                            'concatenated sensor differs from the model', kind='tie')
        if any(eff) or True:
            try:
                c.select(dumps=np.array(gen['keep'], dtype=bool))
                got_keep = [bool(v) for v in c._time_keep]
                if got_keep != eff:
                    cs.disagree('stage=sensor;what=mask', got_keep, eff, 'select(dumps=mask) did not AND the mask into the default selection')
                for j, n in enumerate(names):
                    if not s_sens[j] or j in dead:
                        continue
                    try:
                        v = c.sensor[n]
                    except Exception as e:      # noqa: BLE001
                        cs.disagree('stage=sensor;what=selected_raises;name=%s' % short_name(n), repr(e), m_sel[j],
                                    'cache[name] raised on the concatenation', spec=s_sens[j][1])
                        continue
                    sel = [vid(ids, t) for t in np.asarray(v).tolist()]
                    if sel != s_sens[j][1]:
                        cs.disagree('stage=sensor;what=selected;name=%s' % short_name(n), sel, m_sel[j],
                                    'selected sensor values are not the selected dumps of the concatenation', spec=s_sens[j][1])
                    elif sel != m_sel[j]:
                        cs.disagree('stage=sensor;what=selected_vs_model;name=%s' % short_name(n), sel, m_sel[j],
                                    'selected sensor values differ from the model', kind='tie')
            finally:
                c.select()
    ctx.traces_validated += 1
    ctx.count('opened_via=' + how)
    return True


def short_name(n):
    return n.split('c19_')[-1] if 'c19_' in n else n


def expand_wire(w):
    uv, idx, ev = w
    out = []
    for k, i in enumerate(idx):
        out += [uv[i]] * (ev[k + 1] - ev[k])
    return out


# ---------------------------------------------------------------------------------------------------------------
# stage 2: data of the whole against the glued data of the twins

ARRAYS = ['timestamps', 'vis', 'flags', 'weights']


def gen_axis_index(rng, n, head):
    """(python index, wire) on an axis of length n (n >= 1 unless head); never an empty tail selection."""
    kinds = ['int', 'slice', 'slice', 'mask', 'list', 'full']
    kind = rng.choice(kinds)
    if n == 0:
        kind = rng.choice(['slice', 'mask', 'full'])
    if kind == 'full':
        return slice(None), [1, [], [], []], 'full'
    if kind == 'int':
        z = rng.randint(-n, n - 1)
        return z, [0, z], 'int'
    if kind == 'slice':
        a = rng.choice([None, rng.randint(-n, n)]) if n else None
        b = rng.choice([None, rng.randint(-n, n + 1)]) if n else None
        st = rng.choice([None, 1, 2, 3])
        lo, hi, _ = slice(a, b, st).indices(n)
        if hi < lo or (not head and hi <= lo):
            a, b = None, None
        return slice(a, b, st), [1, c02._opt(a), c02._opt(b), c02._opt(st)], 'slice'
    if kind == 'mask':
        m = [rng.random() < 0.6 for _ in range(n)]
        if not head and not any(m):
            m[rng.randrange(n)] = True
        return np.array(m, dtype=bool), [2, [int(x) for x in m]], 'mask'
    k = rng.randint(1, min(n, 4))
    l = sorted(rng.sample(range(n), k))
    if head and rng.random() < 0.3:
        l = l[:-1] + [l[-1] - n]       # the last one written as a negative index
    elif head and len(l) > 1 and rng.random() < 0.4:
        # the parts visited out of time order (each part's own rows still increasing when the cut falls on a part
        # boundary; otherwise the part's own indexer refuses the unsorted list: outside the domain)
        j = rng.randrange(1, len(l))
        l = l[j:] + l[:j]
        return list(l), [3, l], 'rotlist'
    return list(l), [3, l], 'list'


def full_arrays(cs, c, twins_arrays, masks, tag):
    """every array of the whole, completely, against the glued stored arrays of the twins under the masks"""
    tks, fk, bk = masks
    tk_all = np.concatenate([np.asarray(t, dtype=bool) for t in tks]) if tks else np.zeros(0, bool)
    fk, bk = np.asarray(fk, dtype=bool), np.asarray(bk, dtype=bool)
    for arr in ARRAYS:
        glued = np.concatenate([ta[arr] for ta in twins_arrays])
        exp = glued[tk_all] if arr == 'timestamps' else glued[np.ix_(tk_all, fk, bk)]
        try:
            with warnings.catch_warnings():
                warnings.simplefilter('ignore')
                got = np.asarray(getattr(c, arr)[:])
        except Exception as e:      # noqa: BLE001
            cs.disagree('stage=data;array=%s;index=all;%s;what=raises' % (arr, tag), repr(e), None,
                        'reading an array of the concatenation raised', spec=list(exp.shape), array=arr)
            continue
        cs.ctx.traces_validated += 1
        if not nan_eq(got, exp):
            cs.disagree('stage=data;array=%s;index=all;%s;what=wrong_%s' % (arr, tag, 'shape' if got.shape != exp.shape else 'data'),
                        list(got.shape), None, 'an array of the whole is not the concatenation of the arrays of the parts',
                        spec=list(exp.shape), array=arr)


def stage_data(cs, c, twins_arrays, masks, rng, nidx, tag, tws=None, fw_touched=False):
    """masks = (tk list per part, fk, bk) in force on the whole; compares nidx random indices per array kind.
    The reference is the stored arrays of the twins glued along time with the masks of the whole applied; when the
    twins carry the translated selection (tws) it is ALSO what the twins themselves present, glued; after a flags= /
    weights= selection (fw_touched) only the latter is meaningful for flags and weights."""
    ctx = cs.ctx
    tks, fk, bk = masks
    tk_all = np.concatenate([np.asarray(t, dtype=bool) for t in tks]) if tks else np.zeros(0, bool)
    fk, bk = np.asarray(fk, dtype=bool), np.asarray(bk, dtype=bool)
    # a fixed battery (list / mask / slice / scalar head with scalar tails, over the part boundaries) on every array
    # kind, then nidx random indices
    todo = [(a, k) for a in ARRAYS for k in ((0, 1, 2, 3, 4, 5, 6, 7) if a != 'timestamps' else (0, 1, 5, 6, 7))] if tag == 'after=open' else []
    todo += [(None, None)] * nidx
    for (arr, fixed) in todo:
        arr = arr or rng.choice(ARRAYS)
        glued = np.concatenate([ta[arr] for ta in twins_arrays])
        if arr == 'timestamps':
            sel = glued[tk_all]
            tail, tailkeep = [], []
        else:
            sel = glued[np.ix_(tk_all, fk, bk)]
            tail, tailkeep = [len(fk), len(bk)], [[int(x) for x in fk], [int(x) for x in bk]]
        label_tie = True
        if any(sel.shape[ax] == 0 for ax in range(1, sel.ndim)):
            continue        # empty tail selection: C05 F10b (v1 data sets are concatenated indexers themselves)
        if tws is not None:
            with warnings.catch_warnings():
                warnings.simplefilter('ignore')
                own = np.concatenate([np.asarray(getattr(tw, arr)[:]) for tw in tws])
            if fw_touched and arr in ('flags', 'weights'):
                sel, label_tie = own, False
            elif not nan_eq(own, sel):
                cs.disagree('stage=data;array=%s;what=twins_differ_from_stored;%s' % (arr, tag), list(own.shape), None,
                            'harness: what the stand-alone parts present differs from their stored arrays under the same masks',
                            spec=list(sel.shape), kind='tie')
                continue
        if fixed is not None:
            n = sel.shape[0]
            if n == 0:
                continue
            alt = [i % 2 == 0 for i in range(n)]
            heads = [(sorted({0, n - 1}), [3, sorted({0, n - 1})], 'list'), (np.array(alt), [2, [int(x) for x in alt]], 'mask'),
                     (slice(0, n), [1, [0], [n], []], 'slice'), (n - 1, [0, n - 1], 'int'), ([0], [3, [0]], 'list')]
            tails = [[(0, [0, 0], 'int'), (0, [0, 0], 'int')], [(slice(None), [1, [], [], []], 'full'), (0, [0, 0], 'int')],
                     [(0, [0, 0], 'int'), (0, [0, 0], 'int')], [(0, [0, 0], 'int')], [(slice(None), [1, [], [], []], 'full'), (0, [0, 0], 'int')]]
            if fixed >= 5:
                # a strided slice that stops exactly at the first part boundary: the part after the boundary is
                # visited although nothing is selected from it
                b = int(sum(tks[0])) if tks else 0
                st = 2 if fixed == 5 else 3
                if not 0 < b < n:
                    continue
                heads += [None] * (fixed - 4)
                heads[fixed] = (slice(None, b, st), [1, [], [b], [st]], 'slice')
                if fixed == 7:
                    # an integer list that asks for rows of a LATER part first: [first row after the first boundary,
                    # last row, first row] - the answer keeps the order of the list
                    l7 = [b] + ([n - 1] if n - 1 > b else []) + [0]
                    heads[fixed] = (l7, [3, l7], 'rotlist')
                tails += [[]] * (fixed - 4)
            items = [heads[fixed]] + (tails[fixed] if arr != 'timestamps' else [])
            py, wire, forms = [list(x[0]) if isinstance(x[0], list) else x[0] for x in items], [x[1] for x in items], [x[2] for x in items]
            nax = len(items)
        else:
            nax = rng.randint(1, sel.ndim)
            py, wire, forms = [], [], []
            for ax in range(nax):
                p, w, f = gen_axis_index(rng, sel.shape[ax], head=(ax == 0))
                py.append(p)
                wire.append(w)
                forms.append(f)
        # numpy OUTER indexing oracle
        exp = sel
        for ax in reversed(range(nax)):
            ix = py[ax]
            if isinstance(ix, list):
                ix = np.array(ix, dtype=int)
            exp = exp[(slice(None),) * ax + (ix,)]
        # label bases: rows of different parts get disjoint labels
        bases, rows, nxt = [], [], 0
        for t in tks:
            T = len(t)
            base = 0 if T == 0 else -(-nxt // T)
            bases.append(base)
            rows.append(base * T)
            nxt = base * T + T
        mo = ctx.model([[192, [tail, tailkeep, 0, [[len(t), [int(x) for x in t], b] for t, b in zip(tks, bases)], wire]]])[0]
        sig = 'stage=data;array=%s;index=%s;%s' % (arr, ','.join(forms), tag)
        try:
            with warnings.catch_warnings():
                warnings.simplefilter('ignore')
                got = np.asarray(getattr(c, arr)[tuple(py) if len(py) > 1 else py[0]])
        except Exception as e:      # noqa: BLE001
            if mo[0][0] == 0:
                ctx.count('data_index_outside_c05_domain')
                continue
            cs.disagree(sig + ';what=raises', repr(e), mo[0][2], 'indexing the concatenated array raised',
                        spec=list(exp.shape), array=arr, index=wire, masks=[[int(x) for x in tk_all], tailkeep])
            continue
        ctx.traces_validated += 1
        ctx.count('data=' + arr)
        ctx.count('data_head=' + forms[0])
        got, exp = squeeze1(got), squeeze1(exp)
        if not nan_eq(got, exp):
            cs.disagree(sig + ';what=wrong_' + ('shape' if got.shape != exp.shape else 'data'), list(got.shape), mo[0][2] if mo[0][0] else None,
                        'indexing across the parts differs from indexing the concatenated arrays', spec=list(exp.shape),
                        array=arr, index=wire, masks=[[int(x) for x in tk_all], tailkeep])
            continue
        # tie: model labels -> stored values
        if not label_tie:
            continue
        if mo[0][0] == 0 and forms[0] == 'rotlist' and 'v1' in cs.fmt:
            # a v1 data set is itself a concatenation of per-scan indexers: a list that is unsorted inside a PART (which
            # the model of a one-indexer part refuses) can still be sorted inside every scan; the answer was compared
            # with the spec above
            ctx.count('v1_unsorted_list_inside_a_part_answered')
            continue
        if mo[0][0] == 0:
            cs.disagree(sig + ';what=model_rejects', list(got.shape), 'Err', 'model rejects an index the implementation answers', kind='tie',
                        array=arr, index=wire)
            continue
        if mo[0] != mo[1]:
            cs.disagree(sig + ';what=model_vs_spec', mo[0][2], mo[1][2], 'model differs from its spec', kind='tie', array=arr, index=wire)
        flat = glued.reshape(-1)
        width = int(np.prod(tail)) if tail else 1
        lab = np.array(mo[0][3], dtype=np.int64)
        # label = row_label * width + offset-in-row ; row_label = base * T + i0
        rowl, off = lab // width, lab % width
        starts_glued = np.cumsum([0] + [len(t) for t in tks])
        gr = np.zeros(len(lab), dtype=np.int64)
        for i, (t, r0) in enumerate(zip(tks, rows)):
            inpart = (rowl >= r0) & (rowl < r0 + len(t))
            gr[inpart] = starts_glued[i] + (rowl[inpart] - r0)
        vals = flat[gr * width + off].reshape(mo[0][2]) if len(lab) else np.zeros(mo[0][2], dtype=glued.dtype)
        if not nan_eq(got, squeeze1(vals)):
            cs.disagree(sig + ';what=vs_model', list(got.shape), mo[0][2], 'implementation differs from the model', kind='tie',
                        array=arr, index=wire)


# ---------------------------------------------------------------------------------------------------------------
# stage 3: select histories on the whole and on the twins

class MergedObservation(c02.DataSetObservation):
    """C02's view of an opened data set, here the concatenation; name ids are case-wide."""

    def __init__(self, d, name_ids):
        super().__init__(d)
        for k in list(self.name_ids):
            self.name_ids[k] = name_ids.setdefault(k, len(name_ids))


class _Whole:
    """What C02's DataSetObservation reads, for the whole after select(subarray=s, spw=w): that subarray, that
    window, the UNSELECTED sensors."""

    class _Sensors:
        def __init__(self, c):
            self.c = c
            self.timestamps = c.sensor.timestamps

        def __getitem__(self, name):
            return np.asarray(self.c.sensor.get(name)[:])

    def __init__(self, c, s, w):
        self.sensor = _Whole._Sensors(c)
        self.dump_period = c.dump_period
        self.subarrays, self.spectral_windows = [c.subarrays[s]], [c.spectral_windows[w]]
        self.catalogue = c.catalogue

    def select(self, **kw):
        pass


class MultiObservation(MergedObservation):
    """C02's view of the concatenation after select(subarray=s, spw=w); antenna ids are case-wide (ANT_IDS)."""

    def __init__(self, c, name_ids, s, w):
        super().__init__(_Whole(c, s, w), name_ids)
        self.d, self.s, self.w = c, s, w
        assert [a for a in ANT_IDS if a in self.spec['ants']] == self.spec['ants'], 'antennas outside the harness vocabulary / order'
        import katpoint
        mine = {a.name: a for a in self.kants}
        self.spec['ants'] = list(ANT_IDS)
        self.kants = [mine.get(n) or katpoint.Antenna('%s, -30:42:39.8, 21:26:38.0, 1086.6, 13.5, 0 0 0' % n) for n in ANT_IDS]

    def fresh(self):
        d = self.d
        d.select()
        d.select(subarray=self.s, spw=self.w)
        d.select(weights='all', flags='all')
        d._selection = {'spw': self.w, 'subarray': self.s}
        return d


def fz_of(spw):
    """channel frequencies in quarter-channel units, as C02's DataSetObservation takes them"""
    w = float(spw.channel_width) / 4
    freqs = np.asarray(spw.channel_freqs, dtype=float)
    fz = (freqs - (float(freqs.min()) - 8 * w)) / w
    assert np.all(fz == np.round(fz)), 'channel frequencies are not on the quarter-channel grid'
    return [int(x) for x in fz]


def menv_wire(ob, ids, name_ids, twins):
    """Model/ConcatMulti.v menv: targets by global id, half dump, half channel, channel frequencies by spw value id,
    subarray structures by subarray value id (entries: one per raw table position)"""
    table = env_wire(ob, ids, name_ids)[0]
    by_key = {spw_key(tw.spectral_windows[0]): fz_of(tw.spectral_windows[0]) for tw in twins}
    return [table, 2, 2, [by_key[k] for k in ids.raw['spw']], [ids.sub_wire(k) for k in ids.raw['sub']]]


def env_wire(ob, ids, name_ids):
    import katpoint
    table = []
    for desc in ids.tdesc:
        t = katpoint.Target(desc)
        table.append([[name_ids.setdefault(c02.norm_name(n), len(name_ids)) for n in [t.name] + list(t.aliases)],
                      [ob.tag_id(x) for x in t.tags]])
    cps = [ob.input_id(a) + ob.input_id(b) for a, b in ob.cps]
    return [table, 2, ob.fz, 2, cps]


def translate_call(call, i, segs, offs, cat, local_cat, dmask):
    """python kwargs of the call on part i (twin).  dmask: the part's slice of the dump mask (from the model)."""
    from katdal.dataset import _selection_to_list, is_iterable
    out = {}
    so, co = offs
    for (k, v, w, f) in call:
        if k == 'dumps' and dmask is not None:
            out[k] = np.array(dmask, dtype=bool)
        elif k in ('scans', 'compscans'):
            off = so if k == 'scans' else co
            items = _selection_to_list(v)
            out[k] = [(int(it) - off) if isinstance(it, numbers.Integral) else it for it in items]
        elif k == 'targets':
            items = v if is_iterable(v) else [v]
            new = []
            for it in items:
                if isinstance(it, numbers.Integral):
                    g = int(it)
                    if 0 <= g < len(cat) and cat[g] in local_cat:
                        new.append(local_cat.index(cat[g]))
                else:
                    new.append(it)
            out[k] = new
        else:
            out[k] = v
    return out


def observe_masks(d):
    return [[int(x) for x in d._time_keep], [int(x) for x in d._freq_keep], [int(x) for x in d._corrprod_keep]]


def stage_select(cs, c, parts, twins, twins_info, twins_arrays, sorted_idx, wire_parts, names, nhist, sw=None):
    """sw = None: the concatenation has one subarray and one spectral window (wire_191).  sw = (s, w): histories
    after select(subarray=s, spw=w) on a concatenation with several (wire_193): the parts of that subarray and window
    against the translated calls on their stand-alone twins, the other parts must be deselected entirely."""
    ctx, gen = cs.ctx, cs.gen
    ids = cs.ids
    name_ids = {}
    tag = 'select' if sw is None else 'multi'
    hrng = random.Random(gen['hseed'] + (0 if sw is None else 7919 * (1 + sw[0]) + 104729 * (1 + sw[1])))
    if sw is None:
        ob = MergedObservation(c, name_ids)
        env = env_wire(ob, ids, name_ids)
        histories = [[c02.gen_call(hrng, ob) for _ in range(hrng.randint(1, 6))] for _ in range(nhist)]
        outs = ctx.model([[191, [wire_parts, env, [c02.wire_call(cl) for cl in h]]] for h in histories])
        members = list(range(len(sorted_idx)))
    else:
        ob = MultiObservation(c, name_ids, sw[0], sw[1])
        env = menv_wire(ob, ids, name_ids, twins)
        histories = [[[x for x in c02.gen_call(hrng, ob) if x[0] not in ('spw', 'subarray')] for _ in range(hrng.randint(1, 5))]
                     for _ in range(nhist)]
        # every run meets every criterion that reads the subarray's product list / the window's channels, on every pair
        battery = []
        for key in ('pol', 'ants', 'inputs', 'corrprods', 'freqrange'):
            v, wv, f = c02.gen_criterion(hrng, ob, key)
            battery.append([(key, v, wv, f)])
        histories.append(battery)
        outs = ctx.model([[193, [wire_parts, env, sw[0], sw[1], [c02.wire_call(cl) for cl in h]]] for h in histories])
        members, keeps = [], None
        for out in outs:
            if out[0] == 0:
                members = [pi for pi, b in enumerate(out[3]) if b]
                keeps = (out[1], out[2])
                break
        outs = [[o[0], o[4]] if o[0] == 0 else o for o in outs]
    cat = [Ids.gid(ids.tdesc, t.description) for t in c.catalogue.targets]
    segs = [int(x) for x in c._segments]
    so = np.cumsum([0] + [len(twins_info[i]['Observation/scan_index'][0]) for i in sorted_idx]).tolist()
    co = np.cumsum([0] + [len(twins_info[i]['Observation/compscan_index'][0]) for i in sorted_idx]).tolist()
    for hn, (h, out) in enumerate(zip(histories, outs)):
        if out[0] != 0:
            cs.disagree('stage=%s;what=model_cannot_open' % tag, 'opened', out, 'model refuses an opened concatenation', kind='tie')
            return
        steps = out[1]
        d = ob.fresh()
        if sw is not None and hn == 0:
            got0 = [int(x) for x in d._time_keep]
            if got0 != keeps[1]:
                cs.disagree('stage=multi;keys=-;what=time_mask', got0, keeps[0],
                            'select(subarray=s, spw=w) does not keep exactly the dumps of that subarray and spectral window',
                            spec=keeps[1], subarray=sw[0], spw=sw[1])
                return ob
            if keeps[0] != keeps[1]:
                cs.disagree('stage=multi;keys=-;what=time_mask_vs_model', got0, keeps[0], 'model differs from its spec', kind='tie',
                            subarray=sw[0], spw=sw[1])
                return ob
            ctx.traces_validated += 1
            ctx.note_case((cs.cseed, 'multi', sw), nontrivial=len(sorted_idx) >= 2,
                          sample=dict(fmt=cs.fmt, kind=gen['kind'], subarray=sw[0], spw=sw[1], members=members, kept=got0))
            if not members:
                return ob       # no part has this combination: nothing is selected, nothing else to compare
        tws = []
        for pi, i in enumerate(sorted_idx):
            tw = twins[i]
            tw.select()
            tw.select(weights='all', flags='all')
            if pi not in members:
                tw.select(dumps=np.zeros(len(tw.sensor.timestamps), dtype=bool))
            tw._selection = {'spw': 0, 'subarray': 0}
            tws.append(tw)
        fw_touched = False
        for n, call in enumerate(h):
            if n >= len(steps):
                break
            mo, pm, trc = steps[n]
            at = dict(history=[c02.describe_call(x) for x in h[:n + 1]], step=n, hn=hn)
            if sw is not None:
                at.update(subarray=sw[0], spw=sw[1])
            keys = '+'.join(sorted(k for (k, v, w, f) in call)) or '-'
            exc = None
            try:
                with warnings.catch_warnings():
                    warnings.simplefilter('ignore')
                    d.select(**c02.py_call(call))
            except Exception as e:      # noqa: BLE001
                exc = e
            ctx.traces_validated += 1
            ctx.count('select_calls')
            for (k, v, w, f) in call:
                ctx.count('key=' + k)
            icode = 0 if exc is None else (1 if isinstance(exc, TypeError) and 'unexpected keyword' in str(exc) else 2)
            if icode != mo[0]:
                cs.disagree('stage=' + tag + ';keys=%s;what=status impl=%d model=%d' % (keys, icode, mo[0]), repr(exc) if exc else 'ok', mo[0],
                            'implementation and model disagree on whether the call on the whole is accepted', kind='tie', **at)
                break
            if icode == 2:
                break
            if icode == 1:
                continue
            got = observe_masks(d)
            whole_off = got != [mo[1], mo[2], mo[3]]
            if whole_off:
                # the history ends here, but first the parts are compared with their twins: that is the property
                cs.disagree('stage=' + tag + ';keys=%s;what=whole_masks_vs_model' % keys, got, [mo[1], mo[2], mo[3]],
                            'selection masks of the whole differ from the model', kind='tie', **at)
            cur = c02.observe(ob, d)
            exp = c02.expected_from_masks(ob, got[0], got[1], got[2])
            badk = [k for k in c02.PUBLIC if cur[k] != exp[k]]
            if badk:
                cs.disagree('stage=' + tag + ';keys=%s;what=public:%s' % (keys, ','.join(badk)), {k: cur[k] for k in badk},
                            {k: exp[k] for k in badk}, 'public attributes of the whole differ from its masks', **at)
            # ---- the parts
            ok = True
            tks = []
            for pi, (i, tw) in enumerate(zip(sorted_idx, tws)):
                part_masks = observe_masks(c.datasets[pi])
                tks.append(part_masks[0])
                seg_mask = got[0][segs[pi]:segs[pi + 1]]
                if part_masks != [seg_mask, got[1], got[2]]:
                    cs.disagree('stage=' + tag + ';keys=%s;what=part_view' % keys, part_masks, [seg_mask, got[1], got[2]],
                                'a part does not hold its slice of the global masks', part=pi, **at)
                    ok = False
                    continue
                if pi not in members:
                    if any(seg_mask):
                        cs.disagree('stage=multi;keys=%s;what=foreign_part_selected' % keys, seg_mask, None,
                                    'dumps of a part of ANOTHER subarray / spectral window are selected',
                                    spec=[0] * len(seg_mask), part=pi, **at)
                        ok = False
                    continue
                dm = None
                for kv in trc[pi]:
                    if ''.join(chr(ch) for ch in kv[0]) == 'dumps':
                        dm = kv[1]
                local_cat = twins_info[i]['catalogue']
                tcall = translate_call(call, pi, segs, (so[pi], co[pi]), cat, local_cat, dm)
                texc = None
                try:
                    with warnings.catch_warnings():
                        warnings.simplefilter('ignore')
                        tw.select(**tcall)
                except Exception as e:      # noqa: BLE001
                    texc = e
                if texc is not None:
                    cs.disagree('stage=' + tag + ';keys=%s;what=twin_raises' % keys, repr(texc), pm[pi],
                                'the translated call raises on the stand-alone part', part=pi, tcall=repr(tcall), **at)
                    ok = False
                    continue
                twm = observe_masks(tw)
                if twm != part_masks:
                    dims = ''.join(x for x, a, b in zip('TFB', twm, part_masks) if a != b)
                    cs.disagree('stage=' + tag + ';keys=%s;what=part_differs_from_standalone:%s' % (keys, dims), part_masks, pm[pi][1:],
                                'the whole selects in a part something else than the translated criteria select on the part alone',
                                spec=twm, part=pi, tcall=repr(tcall), **at)
                    ok = False
                elif not whole_off and (pm[pi][0] != 0 or twm != pm[pi][1:]):
                    cs.disagree('stage=' + tag + ';keys=%s;what=part_vs_model' % keys, twm, pm[pi], 'part masks differ from the model', kind='tie',
                                part=pi, **at)
                    ok = False
            if not ok or whole_off:
                break
            kept_parts = sum(1 for t in tks if any(t))
            ctx.note_case((cs.cseed, hn, n) if sw is None else (cs.cseed, 'multi', sw, hn, n), nontrivial=len(tks) >= 2 and kept_parts >= 2 and not all(got[0]),
                          sample=dict(fmt=cs.fmt, parts=[p['T'] for p in gen['parts']], order=gen['order'],
                                      history=at['history'], dumps=[int(x) for x in d.dumps]) if n == len(h) - 1 else None)
            # ---- data and sensors under this selection
            fw_touched = fw_touched or any(k in ('flags', 'weights') for (k, v, w, f) in call)
            stage_data(cs, d, [twins_arrays[i] for i in sorted_idx], (tks, got[1], got[2]), hrng, 2, 'after=' + tag,
                       tws=[tw for pi, tw in enumerate(tws) if pi in members], fw_touched=fw_touched)
            if hrng.random() < 0.5:
                check_selected_sensors(cs, d, [twins[i] for i in sorted_idx], [tw for pi, tw in enumerate(tws) if pi in members], names, at)
    return ob


def check_selected_sensors(cs, d, twins_sorted, tws, names, at):
    """cache[name] on the whole = the parts' own selected values glued (present parts only; dummy handled at open)."""
    for n in OBS[3:]:
        try:
            whole = [str(v) for v in np.asarray(d.sensor[n]).tolist()]
            glued = []
            for tw in tws:
                glued += [str(v) for v in np.asarray(tw.sensor[n]).tolist()]
        except Exception as e:      # noqa: BLE001
            cs.disagree('stage=sensor;what=selected_obs_raises:%s' % n.split('/')[1], repr(e), None, 'cache[name] raised', **at)
            continue
        if n in ('Observation/scan_state', 'Observation/label') and whole != glued:
            cs.disagree('stage=sensor;what=selected_obs:%s' % n.split('/')[1], whole, None,
                        'selected values of the whole are not the selected values of the parts', spec=glued, **at)
        elif len(whole) != len(glued):
            cs.disagree('stage=sensor;what=selected_obs_len:%s' % n.split('/')[1], len(whole), None,
                        'selected sensor length differs from the parts', spec=len(glued), **at)


# ---------------------------------------------------------------------------------------------------------------
# stage 3b: several subarrays / spectral windows: select(subarray=s, spw=w, **criteria) against the parts alone

def multi_criteria(rng, tw, T):
    """criteria that need no index translation (names, masks over products / channels of the part's own subarray)"""
    cps = [(str(a), str(b)) for a, b in tw.subarrays[0].corr_products]
    B, F = len(cps), int(tw.spectral_windows[0].num_chans)
    inputs = sorted({x for cp in cps for x in cp})
    ants = sorted({x[:-1] for x in inputs})
    freqs = np.asarray(tw.spectral_windows[0].channel_freqs, dtype=float)
    cw = float(tw.spectral_windows[0].channel_width)
    pool = [dict(pol=rng.choice(['hh', 'vv', 'hv', 'vh', 'h', 'v'])), dict(pol=rng.sample(['hh', 'vv', 'hv', 'vh'], 2)),
            dict(corrprods=rng.choice(['cross', 'auto'])), dict(corrprods=sorted(rng.sample(range(B), min(B, 3)))),
            dict(corrprods=[bool(rng.random() < 0.5) for _ in range(B)]), dict(corrprods=[list(rng.choice(cps))]),
            dict(ants=rng.choice(ants)), dict(ants='~' + rng.choice(ants)), dict(inputs=rng.sample(inputs, min(3, len(inputs)))),
            dict(channels=slice(rng.randrange(F), None)), dict(channels=[rng.randrange(F)]),
            dict(freqrange=(float(freqs.min()) + cw * rng.choice([-1, 0.6, 1]), float(freqs.max()) + cw)),
            dict(targets=rng.choice(['A', 'B', 'Cee', 'Dd', 'nope'])), dict(scans=rng.choice(['track', '~slew', 'scan'])),
            dict(compscans=rng.choice(['track', 'cal', '~raster'])), dict(target_tags=rng.choice(['gaincal', 'target', 'bpcal']))]
    out = [{}]
    for _ in range(2):
        kw = {}
        for x in rng.sample(pool, rng.randint(1, 3)):
            kw.update(x)
        out.append(kw)
    if rng.random() < 0.5:
        out[-1]['dumps'] = [bool(rng.random() < 0.7) for _ in range(T)]
    return out


def stage_sizes(cs, c, twins, arrays, sorted_idx):
    """Parts whose spectral windows / subarrays differ in SIZE: after select(subarray=s, spw=w) every array of the whole
    is the glued stored arrays of the parts of that subarray and window (the others have no selected dump).  h5 parts
    deliver that; v4 parts raise on every access (open finding C19-F5).  Model: wire_196 (ds_getitem_sized)."""
    ctx = cs.ctx
    segs = [int(x) for x in c._segments]
    tws = [twins[i] for i in sorted_idx]
    arrs = [arrays[i] for i in sorted_idx]
    strict = 'v4' in cs.fmt
    msubs, mspws = [sub_key(x) for x in c.subarrays], [spw_key(x) for x in c.spectral_windows]
    for s in range(len(msubs)):
        for w in range(len(mspws)):
            members = [i for i, tw in enumerate(tws) if sub_key(tw.subarrays[0]) == msubs[s] and spw_key(tw.spectral_windows[0]) == mspws[w]]
            if not members:
                continue
            try:
                c.select(subarray=s, spw=w)
            except Exception as e:      # noqa: BLE001
                cs.disagree('stage=sizes;what=select_raises', repr(e), None, 'select(subarray=s, spw=w) raised', sw=[s, w])
                continue
            tk = [bool(x) for x in c._time_keep]
            exp_tk = [i in members for i in range(len(tws)) for _ in range(segs[i + 1] - segs[i])]
            if tk != exp_tk:
                cs.disagree('stage=sizes;what=time_mask', [int(x) for x in tk], None,
                            'select(subarray=s, spw=w) does not keep exactly the dumps of the parts of that subarray and window',
                            spec=[int(x) for x in exp_tk], sw=[s, w])
                continue
            tail = list(arrs[members[0]]['vis'].shape[1:])
            wparts, nxt = [], 0
            for i, a in enumerate(arrs):
                T = a['vis'].shape[0]
                base = 0 if T == 0 else -(-nxt // T)
                nxt = base * T + T
                wparts.append([list(a['vis'].shape[1:]), T, [int(x) for x in tk[segs[i]:segs[i + 1]]], base])
            mo = ctx.model([[196, [int(strict), tail, [[1] * tail[0], [1] * tail[1]], 0, wparts, [[1, [], [], []]]]]])[0]
            if mo == [-999]:
                ctx.count('model_wire_missing_in_last_good_driver:196')
                mo = [[1, 0, list(np.concatenate([arrs[i]['vis'] for i in members]).shape), []]] * 2
            if mo[1][0] == 0:
                cs.disagree('stage=sizes;what=spec_refuses', None, mo[0], 'the spec of the sized model refuses', kind='tie', sw=[s, w])
                continue
            for arr in ARRAYS:
                exp = np.concatenate([arrs[i][arr] for i in members])
                for label, idx in (('all', slice(None)), ('int', 0), ('slice', slice(1, None, 2)), ('mask', np.arange(len(exp)) % 2 == 0)):
                    try:
                        got = np.asarray(getattr(c, arr)[idx])
                    except Exception as e:      # noqa: BLE001
                        if strict and arr != 'timestamps' and isinstance(e, IndexError) and len({a['vis'].shape[1:] for a in arrs}) > 1:
                            # open finding C19-F5: DaskLazyIndexer.shape of the parts of another size
                            ctx.disagree('stage=sizes;what=v4_part_of_other_size_raises;exc=IndexError', cs.doc(sw=[s, w], array=arr), repr(e),
                                         mo[0], 'vis / flags / weights of a concatenation of v4 data sets whose spectral windows / subarrays '
                                         'differ in size cannot be read', spec=list(exp[idx].shape))
                            if mo[0][0] != 0:
                                cs.disagree('stage=sizes;what=raises_vs_model', repr(e), mo[0][2], 'model answers, implementation raises', kind='tie', sw=[s, w])
                        else:
                            cs.disagree('stage=sizes;array=%s;index=%s;what=raises' % (arr, label), repr(e), None,
                                        'reading an array of a concatenation with parts of another size raised', spec=list(exp[idx].shape), sw=[s, w])
                        break
                    ctx.traces_validated += 1
                    if not nan_eq(squeeze1(got), squeeze1(exp[idx])):
                        cs.disagree('stage=sizes;array=%s;index=%s;what=wrong_%s' % (arr, label, 'shape' if squeeze1(got).shape != squeeze1(exp[idx]).shape else 'data'),
                                    list(got.shape), None, 'the whole is not the glued parts of the selected subarray and window',
                                    spec=list(exp[idx].shape), sw=[s, w])
                        break
                    if label == 'all' and arr == 'vis':
                        if mo[0][0] == 0:
                            cs.disagree('stage=sizes;what=model_rejects', list(got.shape), 'Err', 'model refuses, implementation answers', kind='tie', sw=[s, w])
                        elif list(mo[0][2]) != list(got.shape) or mo[0] != mo[1]:
                            cs.disagree('stage=sizes;what=shape_vs_model', list(got.shape), mo[0][2], 'shape differs from the sized model', kind='tie', sw=[s, w])
            ctx.count('sizes_pairs_compared;%s' % ('v4' if strict else 'h5'))
    try:
        c.select(subarray=0, spw=0)
    except Exception:      # noqa: BLE001
        pass


def stage_multi_plain(cs, c, twins, arrays, sorted_idx, rng, mkeeps=None):
    """format mixtures (timestamps of v3 and v4 parts are not on one dump grid: no C02 observation): select(subarray=s,
    spw=w, **criteria that need no index translation) on the whole against the same criteria on the parts alone"""
    ctx = cs.ctx
    segs = [int(x) for x in c._segments]
    T = segs[-1]
    tws = [twins[i] for i in sorted_idx]
    arrs = [arrays[i] for i in sorted_idx]
    same_shape = len({a['vis'].shape[1:] for a in arrs}) == 1
    subs, spws = [], []
    for tw in tws:
        for k, lst in ((sub_key(tw.subarrays[0]), subs), (spw_key(tw.spectral_windows[0]), spws)):
            if k not in lst:
                lst.append(k)
    where = [(subs.index(sub_key(tw.subarrays[0])), spws.index(spw_key(tw.spectral_windows[0]))) for tw in tws]
    nS, nW = len(c.subarrays), len(c.spectral_windows)
    if (nS, nW) != (len(subs), len(spws)):
        return          # reported by stage_open
    for what, kw in (('subarray', dict(subarray=nS)), ('spw', dict(spw=nW))):
        try:
            c.select(**kw)
            cs.disagree('stage=multimix;what=%s_out_of_range_accepted' % what, 'selected', 'IndexError',
                        'a %s index beyond the merged list is accepted' % what, spec='IndexError', kwargs=repr(kw))
        except IndexError:
            pass
        except Exception as e:      # noqa: BLE001
            cs.disagree('stage=multimix;what=%s_out_of_range_raises' % what, repr(e), 'IndexError',
                        'a %s index beyond the merged list does not raise IndexError' % what, spec='IndexError', kwargs=repr(kw))
    for s in range(nS):
        for w in range(nW):
            members = [pi for pi, sw in enumerate(where) if sw == (s, w)]
            ref = tws[members[0]] if members else tws[0]
            for kw in (multi_criteria(rng, ref, T) if members else [{}]):
                keys = '+'.join(sorted(kw)) or '-'
                at = dict(subarray=s, spw=w, kwargs=repr(kw))
                try:
                    with warnings.catch_warnings():
                        warnings.simplefilter('ignore')
                        c.select()
                        c.select(subarray=s, spw=w, **kw)
                except Exception as e:      # noqa: BLE001
                    cs.disagree('stage=multimix;keys=%s;what=raises' % keys, repr(e), None,
                                'select(subarray=, spw=, ...) on the whole raised', **at)
                    continue
                ctx.traces_validated += 1
                ctx.count('multi_select_calls')
                got = observe_masks(c)
                if mkeeps is not None and not kw:
                    if got[0] != mkeeps[0][s][w]:
                        cs.disagree('stage=multimix;keys=-;what=time_mask', got[0], mkeeps[0][s][w],
                                    'select(subarray=s, spw=w) does not keep exactly the dumps of that subarray and window',
                                    spec=mkeeps[1][s][w], **at)
                        continue
                    if mkeeps[0][s][w] != mkeeps[1][s][w]:
                        cs.disagree('stage=multimix;keys=-;what=model_vs_spec', mkeeps[0][s][w], mkeeps[1][s][w],
                                    'model differs from its spec', kind='tie', **at)
                tks, ok = [], True
                for pi, tw in enumerate(tws):
                    seg_mask = got[0][segs[pi]:segs[pi + 1]]
                    part_masks = observe_masks(c.datasets[pi])
                    if part_masks != [seg_mask, got[1], got[2]]:
                        cs.disagree('stage=multimix;keys=%s;what=part_view' % keys, part_masks, [seg_mask, got[1], got[2]],
                                    'a part does not hold its slice of the global masks', part=pi, **at)
                        ok = False
                        break
                    if pi not in members:
                        exp_t = [0] * len(seg_mask)
                        if seg_mask != exp_t:
                            cs.disagree('stage=multimix;keys=%s;what=foreign_part_selected' % keys, seg_mask, None,
                                        'dumps of a part of ANOTHER subarray / spectral window are selected', spec=exp_t, part=pi, **at)
                            ok = False
                        tks.append(seg_mask)
                        continue
                    tkw = dict(kw)
                    if 'dumps' in tkw:
                        tkw['dumps'] = np.array(tkw['dumps'][segs[pi]:segs[pi + 1]], dtype=bool)
                    with warnings.catch_warnings():
                        warnings.simplefilter('ignore')
                        tw.select()
                        tw.select(**tkw)
                    twm = observe_masks(tw)
                    tks.append(seg_mask)
                    if twm != [seg_mask, got[1], got[2]]:
                        dims = ''.join(x for x, a, b in zip('TFB', twm, [seg_mask, got[1], got[2]]) if a != b)
                        cs.disagree('stage=multimix;keys=%s;what=part_differs_from_standalone:%s' % (keys, dims), [seg_mask, got[1], got[2]], None,
                                    'the whole selects in a part something else than the same criteria select on the part alone',
                                    spec=twm, part=pi, **at)
                        ok = False
                        continue
                    pub = dict(corr_products=[(str(a), str(b)) for a, b in c.corr_products] == [(str(a), str(b)) for a, b in tw.corr_products],
                               channel_freqs=nan_eq(c.channel_freqs, tw.channel_freqs), channel_width=c.channel_width == tw.channel_width,
                               ants=[a.description for a in c.ants] == [a.description for a in tw.ants],
                               inputs=list(c.inputs) == list(tw.inputs))
                    badk = sorted(k for k, v in pub.items() if not v)
                    if badk:
                        cs.disagree('stage=multimix;keys=%s;what=public:%s' % (keys, ','.join(badk)),
                                    {k: np.asarray(getattr(c, k)).tolist() if k != 'ants' else [a.description for a in c.ants] for k in badk}, None,
                                    'the whole labels the columns / channels of a part differently from the part itself',
                                    spec={k: np.asarray(getattr(tw, k)).tolist() if k != 'ants' else [a.description for a in tw.ants] for k in badk},
                                    part=pi, **at)
                        ok = False
                ctx.note_case((cs.cseed, 'multi', s, w, keys), nontrivial=len(members) >= 1 and len(tws) >= 2,
                              sample=dict(fmt=cs.fmt, kind=cs.gen['kind'], subarray=s, spw=w, members=members, kwargs=repr(kw)))
                if ok and same_shape and members and any(got[1]) and any(got[2]):
                    full_arrays(cs, c, arrs, (tks, got[1], got[2]), 'after=multi')
    with warnings.catch_warnings():
        warnings.simplefilter('ignore')
        c.select()
        c.select(subarray=0, spw=0)
        for tw in tws:
            tw.select()


def stage_multi(cs, c, parts, twins, infos, arrays, sorted_idx, wire_parts, names, nhist):
    """concatenations with several subarrays / spectral windows: for every pair (s, w) of the merged lists,
    select(subarray=s, spw=w) and select histories from there (stage_select with wire_193); indices beyond the merged
    lists must raise IndexError"""
    ctx = cs.ctx
    nS, nW = len(c.subarrays), len(c.spectral_windows)
    for what, kw in (('subarray', dict(subarray=nS)), ('spw', dict(spw=nW))):
        try:
            c.select(**kw)
            cs.disagree('stage=multi;what=%s_out_of_range_accepted' % what, 'selected', 'IndexError',
                        'a %s index beyond the merged list is accepted' % what, spec='IndexError', kwargs=repr(kw))
        except IndexError:
            pass
        except Exception as e:      # noqa: BLE001
            cs.disagree('stage=multi;what=%s_out_of_range_raises' % what, repr(e), 'IndexError',
                        'a %s index beyond the merged list does not raise IndexError' % what, spec='IndexError', kwargs=repr(kw))
    out = ctx.model([[193, [wire_parts, [[], 2, 2, [], []], nS, 0, []]], [193, [wire_parts, [[], 2, 2, [], []], 0, nW, []]]])
    if [o[0] for o in out] != [8, 8]:
        cs.disagree('stage=multi;what=out_of_range_vs_model', 'IndexError', [o[0] for o in out], 'model accepts an index beyond the merged lists', kind='tie')
    for s in range(nS):
        for w in range(nW):
            if cs.bad:
                break
            stage_select(cs, c, parts, twins, infos, arrays, sorted_idx, wire_parts, names, nhist, sw=(s, w))
            ctx.count('multi_pairs')
    with warnings.catch_warnings():
        warnings.simplefilter('ignore')
        c.select()
        c.select(subarray=0, spw=0)
        for tw in twins:
            tw.select()


# ---------------------------------------------------------------------------------------------------------------
# one case

def run_case(ctx, cseed, gen=None, stages=('open', 'data', 'select', 'scans', 'order')):
    logging.getLogger('katdal').setLevel(logging.ERROR)
    logging.getLogger('katpoint').setLevel(logging.ERROR)
    if gen is None:
        gen = gen_case(random.Random(cseed))
    cs = Case(ctx, gen, cseed)
    tmp = v4.scratch_dir('c19')
    parts = []
    try:
        with warnings.catch_warnings():
            warnings.simplefilter('ignore')
            parts = [c19parts.Part(s, tmp, 'p%d' % i) for i, s in enumerate(gen['parts'])]
            names = sensor_names(gen)
            ids = cs.ids = Ids()
            twins = [p.fresh() for p in parts]
            infos = [read_part(d, names, ids) for d in twins]
            arrays = [read_arrays(d) for d in twins]
            ids.finish(cs)
            for info in infos:
                for n, which in (('Observation/subarray', 'sub'), ('Observation/spw', 'spw')):
                    info[n + ':raw'] = list(info[n][0])
                    info[n][0] = [ids.canon[which][r] for r in info[n][0]]
            for i, (tw, info) in enumerate(zip(twins, infos)):
                if info['catalogue'] != info['Observation/target'][0]:
                    cs.disagree('stage=twin;what=catalogue_is_not_target_values', info['catalogue'], info['Observation/target'][0],
                                'harness assumption: a loader\'s catalogue lists the unique values of its target sensor', kind='tie', part=i)
                idx_ok = cd_wire(tw.sensor.get('Observation/target_index'), int)
                if expand_wire(idx_ok) != expand_index(info['Observation/target']):
                    cs.disagree('stage=twin;what=target_index_is_not_indices', idx_ok, info['Observation/target'],
                                'harness assumption: target_index = CategoricalData(target.indices, target.events)', kind='tie', part=i)
            cs.starts = starts = sorted({o['start'] for o in infos})
            dps = sorted({o['dp'] for o in infos})
            cs.unit = unit = min(dps) / 4.0
            cs.t_epoch = t_epoch = min(o['ts'][0] for o in infos)
            order = gen['order']
            wire_parts = [part_wire(infos[i], t_epoch, unit, starts, dps, names, refused=len(dps) > 1) for i in order]
            cs.uns = [unsigned_bits([o['sens'][n] for o in infos]) for n in names]
            cs.lacks = [any(o['sens'][n] is None for o in infos) and any(o['sens'][n] is not None for o in infos) for n in names]
            wnames = [[j, 0, int(cs.uns[j])] for j in range(len(names))]
            out = ctx.model([[19, [wire_parts, wnames, [int(x) for x in gen['keep']]]]])[0]
            c, exc, how = None, None, ''
            try:
                c, how = c19parts.open_concat(parts, order, gen['via_open'], gen.get('open_ref_ant', ''))
            except Exception as e:      # noqa: BLE001
                exc = e
            ctx.count('fmt=' + cs.fmt)
            ctx.count('built_by=%s;fmt=%s' % (how or 'refused', cs.fmt))
            ctx.count('kind=' + gen['kind'])
            if gen['kind'] == 'period':
                ctx.count('dump_periods=' + ('equal_to_6_digits_only' if any(p['dt'] not in (2.0, 4.0) for p in gen['parts']) else 'clearly_different'))
            ctx.count('parts=%d' % len(parts))
            for n in names[:-2]:
                pres = sum(1 for o in infos if o['sens'][n] is not None)
                ctx.count('sensor_present_in=%d_of_%d' % (pres, len(parts)))
            opened = stage_open(cs, parts, infos, c, exc, out, names, how) if 'open' in stages else c is not None
            if not opened:
                ctx.note_case((cseed, 'open'), nontrivial=len(parts) >= 2, sample=dict(fmt=cs.fmt, kind=gen['kind'], refused=repr(exc)))
                return cs
            ctx.note_case((cseed, 'open'), nontrivial=len(parts) >= 2,
                          sample=dict(fmt=cs.fmt, kind=gen['kind'], parts=[p['T'] for p in gen['parts']], order=order,
                                      catalogue=[t.name for t in c.catalogue.targets], scans=out[2][12]))
            sorted_idx = [i for s in out[2][1] for i in range(len(parts)) if starts.index(infos[i]['start']) == s]
            if how == 'katdal.open':
                # katdal.open([...], ref_ant): every part is opened with that reference antenna (default: its own first one,
                # as the stand-alone twins) and the concatenation reports it
                want = [gen['open_ref_ant']] * len(parts) if gen.get('open_ref_ant') else [twins[i].ref_ant for i in sorted_idx]
                got_ra = [d.ref_ant for d in c.datasets]
                if got_ra != want or c.ref_ant != [twins[i].ref_ant if not gen.get('open_ref_ant') else gen['open_ref_ant'] for i in order][0]:
                    cs.disagree('stage=open;what=ref_ant_of_katdal_open', [c.ref_ant, got_ra], None,
                                'katdal.open([...], ref_ant) did not open every part with that reference antenna',
                                spec=[want[0], want])
                ctx.count('katdal_open_ref_ant=%s' % ('given' if gen.get('open_ref_ant') else 'default'))
            if 'open' in stages:
                with warnings.catch_warnings():
                    warnings.simplefilter('ignore')
                    stage_meta(cs, c, [infos[i]['start'] for i in order], 'via=' + ('open' if how == 'katdal.open' else 'objects'))
            drng = random.Random(gen['hseed'] + 1)
            keep0 = [int(x) for x in c._time_keep]
            segs = [int(x) for x in c._segments]
            same_shape = len({(a['vis'].shape[1:]) for a in arrays}) == 1
            if 'data' in stages and same_shape:
                tks = [keep0[segs[i]:segs[i + 1]] for i in range(len(parts))]
                full_arrays(cs, c, [arrays[i] for i in sorted_idx],
                            (tks, [1] * arrays[0]['vis'].shape[1], [1] * arrays[0]['vis'].shape[2]), 'after=open')
                stage_data(cs, c, [arrays[i] for i in sorted_idx], (tks, [1] * arrays[0]['vis'].shape[1], [1] * arrays[0]['vis'].shape[2]),
                           drng, ctx.scale(4, 8), 'after=open')
            single = len(c.subarrays) == 1 and len(c.spectral_windows) == 1
            offgrid = gen['kind'] == 'overlap' and len(dps) == 1 and \
                any(((o['ts'][0] - t_epoch) / dps[0]) % 1 for o in infos if len(o['ts']))
            if offgrid:
                # overlapping parts shifted by a fraction of a dump: no common dump grid for C02's observation of the
                # whole; like v3+v4 mixtures they get the model-free battery of index-free criteria against the twins
                ctx.count('overlapping_parts_off_the_dump_grid')
            if 'order' in stages and len(parts) >= 2 and cs.bad == 0:
                stage_order(cs, parts, c, names, order, drng)
            ob = None
            if 'select' in stages and single and cs.bad == 0 and not offgrid:
                wp_sorted = [part_wire(infos[i], t_epoch, unit, starts, dps, names) for i in order]
                ob = stage_select(cs, c, parts, twins, infos, arrays, sorted_idx, wp_sorted, names, ctx.scale(2, 4))
            if 'scans' in stages and single and cs.bad == 0 and ob is not None:
                stage_scans(cs, ob, drng)
            if 'select' in stages and cs.bad == 0 and ((not single and gen['mixed']) or offgrid):
                stage_multi_plain(cs, c, twins, arrays, sorted_idx, drng)
            if 'select' in stages and not single and cs.bad == 0 and not same_shape and not gen['mixed']:
                stage_sizes(cs, c, twins, arrays, sorted_idx)
            if 'select' in stages and not single and cs.bad == 0 and same_shape and not gen['mixed'] and not offgrid:
                wp = [part_wire(infos[i], t_epoch, unit, starts, dps, names) for i in order]
                stage_multi(cs, c, parts, twins, infos, arrays, sorted_idx, wp, names, ctx.scale(1, 2))
    finally:
        for p in parts:
            p.close()
        shutil.rmtree(tmp, ignore_errors=True)
    return cs


def expand_index(w):
    uv, idx, ev = w
    out = []
    for k, i in enumerate(idx):
        out += [i] * (ev[k + 1] - ev[k])
    return out


def summary(c, ids, names):
    """Everything the property constrains about an opened concatenation, canonical (for the input-order comparison)."""
    out = dict(ts=np.asarray(c.sensor.timestamps[:]).tolist(), shape=[int(x) for x in c.shape],
               meta=repr([c.name, c.version, c.observer, c.description, c.experiment_id, list(c.obs_params.items()),
                          list(c.receivers.items()), float(c.start_time.secs), float(c.end_time.secs),
                          [d.name for d in c.datasets]]),
               cat=[t.description for t in c.catalogue.targets], subs=[sub_key(s) for s in c.subarrays],
               spws=[spw_key(s) for s in c.spectral_windows], dumps=[int(x) for x in c.dumps])
    for n in OBS:
        out[n] = cd_wire(c.sensor.get(n), lambda v, n=n: obs_vid(ids, n, v))
    for n in names:
        try:
            out[n] = read_sensor(c, n, ids)
        except Exception as e:      # noqa: BLE001
            out[n] = 'raised ' + type(e).__name__
    for a in ARRAYS:
        try:
            v = np.asarray(getattr(c, a)[:])
            out[a] = (list(v.shape), v.tobytes())
        except Exception as e:      # noqa: BLE001
            out[a] = 'raised ' + type(e).__name__
    return out


META_JOINS = [('name', ','), ('url', ' | '), ('version', ','), ('observer', ','), ('description', ' | '), ('experiment_id', ',')]


def _same(a, b):
    """Python's == as itertools.groupby / unique_in_order apply it (anything that cannot be compared is different)"""
    try:
        return type(a) is type(b) and bool(a == b)
    except Exception:      # noqa: BLE001
        return False


def stage_meta(cs, c, input_starts, tag, objs=None):
    """The metadata of the concatenation c against Model/ConcatMeta.v (wire_195).  The attributes of the parts are read
    from c.datasets (the constructor does not touch them) and handed to the model in INPUT order."""
    ctx = cs.ctx
    table = ['']

    def vid_(v):
        for i, t in enumerate(table):
            if _same(t, v):
                return i
        table.append(v)
        return len(table) - 1
    by_start = {float(d.start_time.secs): d for d in c.datasets}
    try:
        objs = objs if objs is not None else [by_start[float(st)] for st in input_starts]
        if sorted(id(d) for d in objs) != sorted(id(d) for d in c.datasets):
            raise KeyError('objects')
    except KeyError:
        cs.disagree('stage=meta;what=datasets_lost;%s' % tag, sorted(by_start), list(input_starts),
                    'self.datasets are not the data sets that were handed in', kind='tie')
        return
    times = sorted({float(d.start_time.secs) for d in objs} | {float(d.end_time.secs) for d in objs})
    wire = []
    for d in objs:
        wire.append([times.index(float(d.start_time.secs)), times.index(float(d.end_time.secs)), vid_(d.name), vid_(d.url),
                     vid_(d.version), vid_(d.observer), vid_(d.description), vid_(d.experiment_id),
                     [[vid_(k), vid_(v)] for k, v in d.obs_params.items()], [[vid_(k), vid_(v)] for k, v in d.receivers.items()],
                     vid_(d.ref_ant), vid_(float(d.time_offset))])
    out = ctx.model([[195, wire]])[0]
    if out == [-999]:
        ctx.count('model_wire_missing_in_last_good_driver:195')      # (only while a broken obligation is being searched)
        return
    if not out:
        cs.disagree('stage=meta;what=model_refuses;%s' % tag, 'opened', out, 'the metadata model refuses data sets that were concatenated', kind='tie')
        return
    ctx.traces_validated += 1
    ctx.count('meta_compared')
    ctx.count('meta_distinct_ref_ants=%d' % len({d.ref_ant for d in objs}))

    def bad(what, impl, model):
        cs.disagree('stage=meta;what=%s;%s' % (what, tag), impl, model,
                    'metadata of the concatenation differs from the model of the merge in ConcatenatedDataSet.__init__', kind='tie')
    for (field, sep), ids_ in zip(META_JOINS, out[:6]):
        exp = sep.join(str(table[i]) for i in ids_)
        if getattr(c, field) != exp:
            bad(field, getattr(c, field), exp)
    for attr, mdict in (('obs_params', out[6]), ('receivers', out[7])):
        got = list(getattr(c, attr).items())
        exp = [(table[k], table[mv[1]] if mv[0] == 0 else [table[x] for x in mv[1]]) for k, mv in mdict]
        ok = len(got) == len(exp)
        for (gk, gv), (ek, ev), (_, mv) in zip(got, exp, mdict):
            if not ok:
                break
            if mv[0] == 0:
                ok = gk == ek and _same(gv, ev)
            else:
                ok = gk == ek and isinstance(gv, list) and len(gv) == len(ev) and all(_same(a, b) for a, b in zip(gv, ev))
                ctx.count('meta_%s_differ_between_parts' % attr)
        if not ok:
            bad(attr, repr(got), repr(exp))
    if float(c.start_time.secs) != times[out[8]] or float(c.end_time.secs) != times[out[9]]:
        bad('start_end', [float(c.start_time.secs), float(c.end_time.secs)], [times[out[8]], times[out[9]]])
    if c.ref_ant != table[out[10]] or float(c.time_offset) != table[out[11]]:
        bad('ref_ant', [c.ref_ant, float(c.time_offset)], [table[out[10]], table[out[11]]])
    if [float(d.start_time.secs) for d in c.datasets] != [times[i] for i in out[12]]:
        bad('order', [float(d.start_time.secs) for d in c.datasets], [times[i] for i in out[12]])


def stage_order(cs, parts, c, names, order, rng):
    """Another input order of the same parts gives the same data set - also (every second time) when the parts carry a
    TIME selection of their own when they are handed to ConcatenatedDataSet: the constructor gives every part a slice
    view of one global mask and applies the default selection; in particular the scan / compscan indices continue by the
    number of scans a part HAS, not by those it had selected."""
    from katdal.concatdata import ConcatenatedDataSet
    other = list(order)
    while other == order:
        rng.shuffle(other)
    done = []
    with warnings.catch_warnings():
        warnings.simplefilter('ignore')
        try:
            fresh = [parts[i].fresh(parts[i].spec.get('ref_ant', '')) for i in other]
            if rng.random() < 0.5:
                for d in fresh:
                    how = rng.choice(['none', 'scan0', 'dump0', 'compscan_last', 'target0', 'state'])
                    try:
                        if how == 'scan0':
                            d.select(scans=0)
                        elif how == 'dump0':
                            d.select(dumps=[0])
                        elif how == 'compscan_last':
                            d.select(compscans=int(max(d.sensor.get('Observation/compscan_index').unique_values)))
                        elif how == 'target0':
                            d.select(targets=0)
                        elif how == 'state':
                            d.select(scans=str(d.sensor.get('Observation/scan_state').unique_values[-1]))
                    except Exception:      # noqa: BLE001
                        how = 'none'
                    done.append(how)
            c2 = ConcatenatedDataSet(fresh)
        except Exception as e:      # noqa: BLE001
            cs.disagree('stage=%s;what=raises' % ('preselect' if done else 'order'), repr(e), 'opens',
                        'another input order of the same parts is refused', order2=other, preselect=done)
            return
        a, b = summary(c, cs.ids, names), summary(c2, cs.ids, names)
    bad = [k for k in a if a[k] != b[k]]
    pre = any(h != 'none' for h in done)
    if bad:
        cs.disagree('stage=%s;what=differs:%s' % ('preselect' if pre else 'order', ','.join(sorted(x.split('/')[-1] for x in bad))),
                    {k: a[k] if not isinstance(a[k], tuple) else a[k][0] for k in bad[:4]},
                    None, 'the concatenation depends on the order of the input list' +
                    (' or on the time selection the parts carried when they were concatenated' if pre else ''),
                    spec={k: b[k] if not isinstance(b[k], tuple) else b[k][0] for k in bad[:4]}, order2=other, preselect=done)
    cs.ctx.count('order_permutations_compared')
    with warnings.catch_warnings():
        warnings.simplefilter('ignore')
        stage_meta(cs, c2, None, 'via=objects', objs=fresh)
    if pre:
        cs.ctx.count('preselected_parts_compared')


def stage_scans(cs, ob, rng):
    """scans() / compscans() on the whole against C03's model and spec (indices continue, selection restored)."""
    from props import c03
    from vh import core
    ctx = cs.ctx
    if '3' in core.DRIVER.get('left_out', {}):
        # C03's model (outside C19's proof cone) does not compile on this tree: its tie is C03's alarm, not ours
        ctx.count('scans_stage_skipped:model_of_C03_left_out')
        return
    before = len(ctx.disagreements)
    mode = c03.MODES[rng.randrange(2)] if rng.random() < 0.8 else c03.MODES[rng.randrange(len(c03.MODES))]
    hist = c03.stack_history(rng, ob, rng.choice([0, 0, 1, 2]))
    c03.run_iter_case(ctx, ob, hist, mode, (cs.cseed, 'scans', mode), note=False)
    # C03's open finding F2 (compscans() yields the lowest-numbered target) belongs to C03: not reported again here
    ctx.disagreements[before:] = [dd for dd in ctx.disagreements[before:] if 'target_not_first_in_time' not in dd['signature']]
    for dd in ctx.disagreements[before:]:
        dd['signature'] = 'fmt=%s;kind=%s;stage=scans;%s' % (cs.fmt, cs.gen['kind'], dd['signature'])
        dd['case'] = cs.doc(inner=dd['case'])
        cs.bad += 1
    ctx.count('iterations=' + mode[0] + ('/' + mode[1] if mode[1] else ''))


# ---------------------------------------------------------------------------------------------------------------

def run(ctx):
    if not ctx.model_ok:
        return
    for f in ctx.findings:
        w = f['witness']
        run_case(ctx, w.get('cseed', 0), gen=w.get('gen'))
    n = ctx.scale(46, 1000)
    seeds = [ctx.rng.randrange(1 << 30) for _ in range(n)]
    kinds = {}

    def qkind(gen):
        close = gen['kind'] == 'period' and any(p['dt'] not in (2.0, 4.0) for p in gen['parts'])
        return 'periodclose' if close else gen['kind']
    for cseed in seeds:
        cs = run_case(ctx, cseed)
        kinds[qkind(cs.gen)] = kinds.get(qkind(cs.gen), 0) + 1
    # every run meets every special kind of case a few times, whatever the seed
    quota = {'period': ctx.scale(3, 30), 'periodclose': ctx.scale(3, 30), 'tie': ctx.scale(2, 20), 'subarray': ctx.scale(2, 30), 'spw': ctx.scale(2, 30),
             'subperm': ctx.scale(3, 30), 'overlap': ctx.scale(4, 40), 'sizes': ctx.scale(4, 40), 'subdesc': ctx.scale(2, 20), 'spwvar': ctx.scale(3, 30), 'multi': ctx.scale(3, 40)}
    tries = 0
    while any(kinds.get(k, 0) < q for k, q in quota.items()) and tries < 20000:
        tries += 1
        cseed = ctx.rng.randrange(1 << 30)
        kind = qkind(gen_case(random.Random(cseed)))
        if kinds.get(kind, 0) < quota.get(kind, 0):
            run_case(ctx, cseed)
            kinds[kind] = kinds.get(kind, 0) + 1
            seeds.append(cseed)
    if ctx.tier == 'thorough':
        incoq(ctx, seeds[:12])


def incoq(ctx, seeds):
    """Cross-check of the extraction: a sample of wire_19 cases re-evaluated inside Coq with vm_compute."""
    from vh import core
    if core.DRIVER.get('left_out'):
        # model files of OTHER properties do not compile on this tree (a partial driver is in use): the complete
        # dispatcher the in-Coq evaluation loads cannot be rebuilt; their owners report that
        ctx.extra['in_coq_crosscheck'] = 'skipped: models outside the cone do not compile (%s)' % ', '.join(sorted(set(core.DRIVER['left_out'].values())))
        return
    cases = []
    for cseed in seeds:
        gen = gen_case(random.Random(cseed))
        # only the shape of the case matters here: synthetic categorical sensors, no katdal involved
        rng = random.Random(cseed)
        wparts = []
        for i, p in enumerate(gen['parts']):
            T = p['T']

            def cdw(vals):
                ev = sorted(set([0] + [rng.randrange(T) for _ in range(2)]))
                return [sorted(set(vals)), [rng.randrange(len(set(vals))) for _ in ev], ev + [T]]
            ns = rng.randint(1, 3)
            sev = sorted(set([0] + [rng.randrange(T) for _ in range(ns)]))
            wparts.append([p['start'] // 100, 0, list(range(8 * i * 10, 8 * i * 10 + 4 * T, 4)), [[0], [0], [0, T]], [[0], [0], [0, T]],
                           cdw([rng.randrange(4) for _ in range(3)]), cdw([0, 1, 2]), cdw([0, 1]),
                           [list(range(len(sev))), list(range(len(sev))), sev + [T]], [[0], [0], [0, T]],
                           [[0, 0, 1, [rng.randrange(5) for _ in range(T)]]] if rng.random() < 0.6 else []])
        cases.append([19, [wparts, [[0, 0, rng.choice([0, 0, 8, 16, 32])]], [int(x) for x in gen['keep']]]])
        # the metadata merge (wire_195): small random dictionaries, shared / missing keys, equal / distinct start times
        metas = []
        for i, p in enumerate(gen['parts']):
            d1 = [[k, rng.randrange(3)] for k in rng.sample(range(1, 6), rng.randint(0, 3))]
            d2 = [[k, rng.randrange(2)] for k in rng.sample(range(1, 4), rng.randint(0, 2))]
            metas.append([p['start'] // 100, p['start'] // 100 + rng.randint(0, 3), i + 1, 10 + i, rng.randrange(2), rng.randrange(3),
                          rng.randrange(2), 0, d1, d2, 40 + rng.randrange(2), 0])
        cases.append([195, metas])
        # parts of another size (wire_196), lenient and strict
        sp = [[[2, 3] if rng.random() < 0.6 else [4, 3], p['T'], None, 10 * i] for i, p in enumerate(gen['parts'])]
        for q in sp:
            q[2] = [int(q[0] == [2, 3] and rng.random() < 0.7) for _ in range(q[1])]
        cases.append([196, [rng.randrange(2), [2, 3], [[1, 1], [1, 0, 1]], 0, sp, [[1, [], [], []]]]])
        # identity of subarrays / spectral windows (wire_194) on small random tables with repeats
        cps = [[a, p, b, q] for a in (0, 1) for p in (0, 1) for b in (0, 1) for q in (0, 1)]
        subs = [[[40, 41][:rng.randint(1, 2)], rng.sample(cps, 3)] for _ in range(3)]
        subs += [rng.choice(subs), [subs[0][0], subs[0][1][::-1]]]
        spws = [[rng.randrange(2), rng.randrange(2), 4, 1, rng.randrange(2), rng.randrange(2), 7] for _ in range(5)]
        cases.append([194, [subs, spws]])
        # select(subarray=, spw=) on a two-subarray concatenation (wire_193), a short history
        if len(wparts) >= 2:
            mp = [list(w) for w in wparts]
            mp[0][3] = [[1], [0], [0, gen['parts'][0]['T']]]
            menv = [[[[1], [1]], [[2], [2]], [[3], [1]], [[4], [2]]], 2, 2, [[8, 12], [8, 12]], subs[:2]]
            calls = [[[[ord(ch) for ch in 'pol'], [9, [[0, 0]]]]], [[[ord(ch) for ch in 'scans'], [2, [[1, 1]]]]]]
            cases.append([193, [mp, menv, rng.randrange(2), 0, calls]])
    with core.BuildLock():
        tg = ' '.join(x[:-2] + '.vo' for x in core.coq_sources() if x.startswith(('Base/', 'Gen/', 'Model/')))
        core.sh('timeout 1500 make -j4 %s' % tg, cwd=core.COQ, timeout=1600)
        core.sh('timeout 600 coqc -Q . KV Extract/Dispatch.v', cwd=core.COQ, timeout=700)
    a = ctx.model(cases)
    b = core.run_model_in_coq(cases, 'c19')
    for c, x, y in zip(cases, a, b):
        if x != y:
            ctx.disagree('extraction_mismatch', dict(case=c), x, y, 'extracted model differs from vm_compute', kind='tie')
    ctx.extra['in_coq_crosscheck'] = len(cases)


def replay(ctx, doc):
    case = doc.get('case') or {}
    if 'witness' in doc and not case:
        case = doc['witness']
    if 'gen' in case or 'cseed' in case:
        run_case(ctx, case.get('cseed', 0), gen=case.get('gen'))
