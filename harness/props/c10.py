"""C10 — categorical sensors are mapped onto dumps by the documented rule (correspondence + search).

Runs the real katdal code through the entry points the property names
  * katdal.categorical.sensor_to_categorical(timestamps, values, dump_midtimes, dump_period, ...)[:]      (path=direct)
  * SensorCache.get(name) / cache[name] for non-float sensors, from RAW samples (unsorted, duplicate timestamps,
    unreadable statuses, time offset, empty sensors, keep masks, explicit / default categorical)            (path=cache)
  * d.sensor[...] of real (synthetic) data sets of every format, with the sensor properties of the format tables
    (harness/props/c10_tables.py)                                                                           (path=dataset)
  * the generator _single_event_per_dump itself                                                             (path=generator)
against the extracted Coq model written over the regenerated definitions (the tie) and the extracted declarative
per-dump rule (the property).
"""
import itertools
import logging
import warnings

import numpy as np

RULE = ('direct: event times on a half-dump grid from three periods before the first dump to two after the last '
        '(several per dump, on edges, crowded, all early / all late, none), values from a 4-letter alphabet, N<=7 dumps '
        '(regular or irregular ends), dump period 1, 2 or 3 s, greedy set of 0/1/2 values or None, initial value '
        'absent/plain/greedy, transform none or a finite map (one merging into a greedy letter), allow_repeats '
        'True/False/left to its default, value representation str/int/wrapped ndarray/wrapped tuple, scalar inputs; '
        'cache: RAW samples in random order with duplicate timestamps, statuses (readable / unreadable / none), a time '
        'offset, possibly no usable sample at all (dummy), keep mask, categorical property absent/True/False, float '
        'dtype; values: array-valued sensors whose values collide in shape ((1,) vs (n,), empty, 0-d, 2-d, scalars, tuples, '
        'lists, NaN) and pairs of such values for ==, != and hash; non-trivial when an event lies inside the dumps and either two events share a dump or a greedy '
        'value occurs; distinct by the full canonical case')
ASSUMPTIONS = ['direct calls: sensor timestamps are non-decreasing and dump mid-times strictly increase (the cache path '
               'sorts: unsorted raw samples are generated there); numpy searchsorted is modelled for sorted arrays',
               'times are dyadic rationals so that float64 comparisons in katdal are exact',
               'array-valued (wrapped) sensors need at least one sample on the direct path (wrappedness is inferred from '
               'the first value); their greedy values are handed over unwrapped (as documented) or wrapped',
               'equality of sensor values is equality of their ids (str, int, same-shape ndarray / tuple via ComparableArrayWrapper) '
               'in the direct / cache / table cases; the value cases (c10_values) let the model of ComparableArrayWrapper.__eq__ assign '
               'the ids and decode by kind, shape and elements; np.array_equal is modelled (same shape, elementwise ==, NaN unequal)',
               'the clean-up of raw samples (sort, last of equal timestamps, readable status) is property C12; here '
               'its model (Model/SensorToCatPath.v clean_r) is tied by the correspondence on the usable samples']

LETTERS = {0: '', 1: 'a', 2: 'b', 3: 'g', 4: 'h', 5: 'i', 6: 'j'}
IDS = {v: k for k, v in LETTERS.items()}
REPRS = ('str', 'int', 'warr', 'wtup')
NONE_ID = -1        # Model.SensorToCatSrc.none_id
STATUSES = ['nominal', 'warn', 'error', 'unknown', 'failure', 'nominally', 'unreachable', '']


def _quiet():
    warnings.simplefilter('ignore')
    logging.getLogger('katdal').setLevel(logging.CRITICAL)


# ---------------------------------------------------------------- value representations

def enc(rep, k):
    """Unwrapped python value standing for id k."""
    if rep == 'str':
        return LETTERS[k]
    if rep in ('int', 'float'):
        return int(k) if rep == 'int' else float(k)
    if k == -2:
        return None
    if rep == 'warr':
        return np.array([k, 10 * k])
    return (int(k), int(k) + 100)


def dec(rep, v):
    from katdal.categorical import ComparableArrayWrapper
    v = ComparableArrayWrapper.unwrap(v)
    if v is None:
        return -2 if rep in ('warr', 'wtup') else NONE_ID
    if rep == 'str':
        return IDS.get(str(v), 900 + (sum(map(ord, str(v))) % 97))     # a string that is not a letter: foreign id
    if rep in ('int', 'float'):
        return int(v)
    return int(np.asarray(v).ravel()[0])


def default_id(rep):
    """Id of the value dummy_sensor_getter makes up for a sensor of this type when there is no initial value."""
    return {'str': 0, 'int': -1, 'warr': -2, 'wtup': -2}.get(rep, 0)


def period_of(case):
    return case.get('P', 2)


def real_inputs(case):
    from katdal.categorical import ComparableArrayWrapper
    rep = case['rep']
    wrapped = rep in ('warr', 'wtup')
    ts = np.array([t / 2.0 for t in case['ts']], dtype=float)
    raw = [enc(rep, k) for k in case['vals']]
    if wrapped:
        vals = np.empty(len(raw), dtype=object)
        for n, r in enumerate(raw):
            vals[n] = ComparableArrayWrapper(r)
    else:
        vals = np.array(raw) if raw else np.array([], dtype={'str': '<U1', 'int': int, 'float': float}[rep])
    P = period_of(case)
    mid = np.array([e / 2.0 - P / 4.0 for e in case['ends']], dtype=float)
    kw = {}
    if case['tr'] is not None:
        m = dict(case['tr'])
        kw['transform'] = lambda v: enc(rep, m.get(dec(rep, v), dec(rep, v)))
    if case['init'] is not None:
        kw['initial_value'] = enc(rep, case['init'])
    if case['greedy'] is not None:
        # array-valued greedy values: case['raw_greedy'] = the documented unwrapped form (finding F27, repaired: unwrapped
        # ndarrays made `value in greedy_values` raise), otherwise wrapped (what callers had to do before the repair)
        wrapg = wrapped and not case.get('raw_greedy')
        kw['greedy_values'] = [ComparableArrayWrapper(enc(rep, k)) if wrapg else enc(rep, k) for k in case['greedy']]
    if case['ar'] is not None:
        kw['allow_repeats'] = bool(case['ar'])
    return ts, vals, mid, P / 2.0, kw


def impl_direct(case):
    from katdal.categorical import sensor_to_categorical
    ts, vals, mid, period, kw = real_inputs(case)
    if case.get('scalar') and len(ts) == 1:
        return sensor_to_categorical(float(ts[0]), vals[0], mid, period, **kw)
    return sensor_to_categorical(ts, vals, mid, period, **kw)


def impl_cache(case):
    """-> (result of cache.get, result of cache[name] or exception text)."""
    from katdal.sensordata import SensorCache, SimpleSensorGetter
    ts, vals, mid, period, kw = real_inputs(case)
    st = case.get('status')
    status = None if st is None else np.array([STATUSES[k] for k in st], dtype='S12')
    if case.get('off') is not None:
        kw['time_offset'] = case['off'] / 2.0
    if case.get('categ') is not None:
        kw['categorical'] = bool(case['categ'])
    keep = slice(None) if case.get('keep') is None else np.array(case['keep'], dtype=bool)
    cache = SensorCache({'s': SimpleSensorGetter('s', ts.copy(), vals, status)}, mid, period, keep=keep, props={'s': kw})
    c = cache.get('s')
    try:
        sel = cache['s']
    except Exception as e:   # noqa: BLE001
        sel = 'err:' + type(e).__name__
    return c, sel


def observe(case):
    """-> ('ok', events, indices, unique ids, per-dump ids[, selected ids]) | ('num',) | ('err', exception name)."""
    from katdal.categorical import CategoricalData
    rep = case['rep']
    try:
        sel = None
        if case.get('path') == 'cache':
            c, sel = impl_cache(case)
            if not isinstance(c, CategoricalData):
                return ('num',)
        else:
            c = impl_direct(case)
        ev = [int(e) for e in c.events]
        ind = [int(i) for i in c.indices]
        uniq = [dec(rep, v) for v in c.unique_values]
        per = [dec(rep, v) for v in c[:]]
        if sel is not None and not isinstance(sel, str):
            sel = [dec(rep, v) for v in sel]
        return ('ok', ev, ind, uniq, per, sel)
    except Exception as e:   # noqa: BLE001
        return ('err', type(e).__name__ + ': ' + str(e)[:80])


# ---------------------------------------------------------------- model side

def _opt(x):
    return [] if x is None else [x]


def wire(case):
    P = period_of(case)
    mids = [e - P // 2 for e in case['ends']]
    tr = [] if case['tr'] is None else [[list(p) for p in case['tr']]]
    ar = [] if case['ar'] is None else [1 if case['ar'] else 0]
    if case.get('path') == 'cache':
        st = case.get('status')
        raw = [[t, v, [ord(ch) for ch in (STATUSES[st[n]] if st is not None else '')]]
               for n, (t, v) in enumerate(zip(case['ts'], case['vals']))]
        keep = [] if case.get('keep') is None else [[1 if b else 0 for b in case['keep']]]
        categ = [] if case.get('categ') is None else [1 if case['categ'] else 0]
        dflt = case['dflt'] if 'dflt' in case else (default_id(case['rep']) if case['rep'] != 'float' else 0)
        isf = case['is_float'] if 'is_float' in case else case['rep'] == 'float'
        return [103, [raw, 1 if st is not None else 0, _opt(case.get('off')), dflt,
                      mids, P, tr, _opt(case['init']), case['greedy'] or [], ar, keep, categ, 1 if isf else 0]]
    return [10, [case['ts'], case['vals'], mids, P, tr, _opt(case['init']), case['greedy'] or [], ar]]


def usable_py(case):
    """Python rendering of Model.SensorToCatPath.usable_samples (only for classification / the fallback)."""
    off = case.get('off') or 0
    st = case.get('status')
    rows = sorted(((t + off, n) for n, t in enumerate(case['ts'])), key=lambda r: r[0])
    out = []
    for k, (t, n) in enumerate(rows):
        if k + 1 < len(rows) and rows[k + 1][0] == t:
            continue
        if st is not None and STATUSES[st[n]][:7] not in ('nominal', 'warn', 'error'):
            continue
        out.append((t, case['vals'][n]))
    if not out:
        out = [(0, case['init'] if case['init'] is not None else case.get('dflt', default_id(case.get('rep', 'str'))))]
    return out


def effective(case):
    """(times, values) that reach sensor_to_categorical."""
    if case.get('path') == 'cache':
        u = usable_py(case)
        return [t for t, _ in u], [v for _, v in u]
    return case['ts'], case['vals']


def classify(case):
    ts, _ = effective(case)
    P = period_of(case)
    e0 = case['ends'][0] if case['ends'] else 0
    prior = any(t <= e0 - P for t in ts)
    in0 = any(e0 - P < t <= e0 for t in ts)
    inrange = any(t <= case['ends'][-1] for t in ts) if case['ends'] else False
    g = case['greedy'] or []
    init = 'none' if case['init'] is None else ('greedy' if case['init'] in g else 'plain')
    return 'init=%s;prior=%d;first_dump_event=%d;inrange=%d' % (init, prior, in0, inrange)


def nontrivial(case):
    ends = case['ends']
    if not ends:
        return False
    ts, vals = effective(case)
    lo = ends[0] - period_of(case)
    dumps = [sum(1 for e in ends if e < t) for t in ts if lo < t <= ends[-1]]
    tr = dict(case['tr'] or [])
    g = case['greedy'] or []
    return bool(dumps) and (len(set(dumps)) < len(dumps) or any(tr.get(v, v) in g for v in vals))


def wellformed(case, ob):
    ev, ind, uniq, per = ob[1:5]
    n = len(case['ends'])
    bad = []
    if not ev or ev[0] != 0:
        bad.append('first_event_not_0')
    if not ev or ev[-1] != n:
        bad.append('last_event_not_N')
    if any(a >= b for a, b in zip(ev, ev[1:])):
        bad.append('events_not_increasing')
    if len(ind) != len(ev) - 1:
        bad.append('len_indices')
    if len(per) != n:
        bad.append('not_one_value_per_dump')
    if len(set(uniq)) != len(uniq):
        bad.append('unique_values_repeat')
    if not case['ar'] and any(a == b for a, b in zip(ind, ind[1:])):
        bad.append('repeated_consecutive_value')
    return bad


def parse_model(case, mo):
    """-> dict(model=[ok, events, indices, unique, [ok, per]] | None, spec, coded, f14s, f14d, decision, usable, selected)."""
    if mo is None:
        return py_fallback(case)
    if case.get('path') == 'cache':
        (decision, spec_decision), usable, m, spec, coded = mo
        return dict(model=m[0], selected=m[1], spec=spec, coded=coded, decision=bool(decision), spec_decision=bool(spec_decision),
                    usable=[tuple(p) for p in usable], f14s=None, f14d=None)
    m, spec, coded, f14s, f14d = mo
    return dict(model=m, selected=None, spec=spec, coded=coded, decision=True, usable=None, f14s=bool(f14s), f14d=bool(f14d))


def compare(ctx, case, mo, ob=None, prefix=''):
    """ob: precomputed observation (c10_tables observes through its own value abstraction)."""
    if ob is None:
        ob = observe(case)
    ctx.traces_validated += 1
    path = case.get('path', 'direct')
    base = prefix + 'path=%s;%s' % (path, classify(case))
    # (finding F27: the unwrapped form of ndarray greedy values made the call RAISE; every other symptom is classified as usual)
    rbase = 'greedy=unwrapped_ndarray;' + base if case.get('raw_greedy') and case['rep'] == 'warr' else base
    M = parse_model(case, mo)
    model, spec, coded = M['model'], M['spec'], M['coded']
    # ---- the categorical / numerical decision of _extract: against the SPEC (explicit property, else non-float) and,
    #      as a tie, against the decision of the model written over the regenerated default
    want = M.get('spec_decision', M['decision'])
    if path == 'cache' and ob[0] != 'err' and (want != (ob[0] != 'num') or M['decision'] != (ob[0] != 'num')):
        ctx.disagree(base + ';symptom=categorical_decision', case, ob[0], [M['decision'], want],
                     'SensorCache.get treats the sensor as %s, the rule (explicit property, else non-float) says %s'
                     % ('numerical' if ob[0] == 'num' else 'categorical', 'categorical' if want else 'numerical'),
                     kind='property' if want != (ob[0] != 'num') else 'tie')
        return ob
    if ob[0] == 'num' or not want:
        return ob
    in_domain = spec[0] == 1
    # ---- tie: implementation vs extracted model
    if model is not None:
        if ob[0] == 'err' and model[0] == 1:
            if not in_domain:    # in domain this is reported once, below, as a violation of the property
                ctx.disagree(base + ';symptom=raises_model_answers', case, ob[1], model[1:],
                             'implementation raised, model returned data', spec=spec, kind='tie')
        elif ob[0] == 'ok' and model[0] == 0:
            ctx.disagree(base + ';symptom=answers_model_raises', case, ob[1:], 'Err',
                         'implementation returned data where the model raises', spec=spec, kind='tie')
        elif ob[0] == 'ok':
            mper = model[4][1] if model[4][0] == 1 else 'Err'
            pairs = [('events', ob[1], model[1]), ('indices', ob[2], model[2]),
                     ('unique_values', ob[3], model[3]), ('per_dump', ob[4], mper)]
            if M['selected'] is not None:
                pairs.append(('selected', ob[5], M['selected'][1] if M['selected'][0] == 1 else 'Err'))
            for name, a, b in pairs:
                if a != b:
                    ctx.disagree(base + ';symptom=tie_%s' % name, case, a, b,
                                 '%s of the implementation differ from the model of the code' % name, spec=spec, kind='tie')
                    break
    # ---- property: implementation vs declarative spec
    if in_domain:
        if ob[0] == 'err':
            ctx.disagree(rbase + ';symptom=raises', case, ob[1], model, 'sensor_to_categorical raised although a value is '
                         'defined for every dump', spec=spec[1])
        else:
            if ob[4] != spec[1]:
                explained = coded[0] == 1 and ob[4] == coded[1] and M['f14d'] in (None, True) \
                    and ob[4][1:] == spec[1][1:]
                beyond = '' if explained else ';not_explained_by_dropped_initial_value'
                # the F14 defect seen through a format table / a data set is the same finding as through the cache
                sig = (base[len(prefix):] if explained else base) + ';symptom=per_dump_differs_from_rule' + beyond
                ctx.disagree(sig, case, ob[4], model and model[1:],
                             'per-dump values differ from the documented rule', spec=spec[1])
            elif M['f14d']:
                ctx.disagree(base + ';symptom=f14_boundary', case, ob[4], model and model[1:],
                             'the exact F14 boundary (theorem C10_per_dump_exact) says the code differs from the rule '
                             'here, but it does not', spec=spec[1], kind='tie')
            bad = wellformed(case, ob)
            if bad:
                ctx.disagree(base + ';symptom=' + bad[0], case, ob[1:5], model and model[1:],
                             'result is not well formed: ' + ','.join(bad), spec=spec[1])
            # cache[name] (select=True) = the per-dump values under the keep mask
            if path == 'cache' and ob[5] is not None:
                keep = case.get('keep')
                want = spec[1] if keep is None else [v for v, k in zip(spec[1], keep) if k]
                if ob[5] != want and ob[4] == spec[1]:
                    ctx.disagree(base + ';symptom=selected_values', case, ob[5], M['selected'],
                                 'cache[name] is not the per-dump values under the keep mask', spec=want)
    elif ob[0] == 'ok':
        # out of domain (no dump, or no initial value and no event at or before the last dump): must not answer
        ctx.disagree(base + ';symptom=answers_out_of_domain', case, ob[1:5], model, 'data returned although no start value is defined',
                     spec=None)
    return ob


# ---------------------------------------------------------------- python fallback (only while searching with no model)

def py_spec(case, init):
    ends = case['ends']
    ts, vals = effective(case)
    if not ends:
        return [0]
    P = period_of(case)
    tr = dict(case['tr'] or [])
    tv = [(t, tr.get(v, v)) for t, v in zip(ts, vals)]
    g = case['greedy'] or []
    if init is not None:
        st = init
    else:
        f = [v for t, v in tv if t <= ends[-1]]
        if not f:
            return [0]
        st = f[0]
    out = []
    los = [ends[0] - P] + list(ends[:-1])
    for lo, hi in zip(los, ends):
        before = [v for t, v in tv if t <= lo]
        S = [before[-1] if before else st] + [v for t, v in tv if lo < t <= hi]
        gs = [v for v in S if v in g]
        out.append(gs[-1] if gs else S[-1])
    return [1, out]


def py_fallback(case):
    ts, _ = effective(case)
    P = period_of(case)
    e0 = case['ends'][0] if case['ends'] else 0
    coded = case['init']
    if not any(t <= e0 - P for t in ts) and any(e0 - P < t <= e0 for t in ts):
        coded = None
    categ = case.get('categ')
    decision = bool(categ) if categ is not None else not case.get('is_float', case['rep'] == 'float')
    return dict(model=None, selected=None, spec=py_spec(case, case['init']), coded=py_spec(case, coded),
                decision=decision, spec_decision=decision, usable=None, f14s=None, f14d=None)


# ---------------------------------------------------------------- generators

def gen_ends(rng, nmax):
    n = rng.randint(1, nmax)
    P = rng.choice([2, 2, 2, 4, 6])
    if rng.random() < 0.15:
        ends, e = [], rng.randint(-2, 2)
        for _ in range(n):
            ends.append(e)
            e += rng.choice([1, 2, 2, 3, 4])
    else:
        base = rng.choice([0, 0, 0, 2, -3])
        ends = [base + P * k for k in range(n)]
    return ends, P


def gen_case(rng, nmax=7, mmax=9):
    ends, P = gen_ends(rng, nmax)
    rep = rng.choice(['str', 'str', 'int', 'warr', 'wtup'])
    m = rng.randint(1 if rep in ('warr', 'wtup') else 0, mmax)
    lo, hi = ends[0] - 3 * P, ends[-1] + 2 * P
    mode = rng.random()
    if mode < 0.15:      # everything late / early
        pool = list(range(ends[-1] + 1, hi + 1)) if rng.random() < 0.5 else list(range(lo, ends[0] - P + 1))
    elif mode < 0.35:    # crowded: few distinct times
        pool = [rng.randint(lo, hi) for _ in range(3)]
    elif mode < 0.45:    # exactly on the edges
        pool = [ends[0] - P] + list(ends)
    else:
        pool = list(range(lo, hi + 1))
    ts = sorted(rng.choice(pool) for _ in range(m))
    vals = [rng.choice([1, 2, 3, 4]) for _ in range(m)]
    greedy = rng.choice([None, [], [3], [3], [3, 4], [4, 1]])
    init = rng.choice([None, None, 5, 3, 3, 1])
    tr = rng.choice([None, None, [(2, 1)], [(1, 3)], [(3, 2), (4, 4)]])
    ar = rng.choice([None, False, False, True])
    case = dict(ts=ts, vals=vals, ends=ends, tr=tr, init=init, greedy=greedy, ar=ar, rep=rep, path='direct')
    if P != 2:
        case['P'] = P
    if m == 1 and rng.random() < 0.3:
        case['scalar'] = True
    if rep in ('warr', 'wtup') and greedy and rng.random() < 0.6:
        case['raw_greedy'] = True       # greedy values as documented: unwrapped
    return case


def gen_cache_case(rng):
    """Raw samples for SensorCache.get: random order, duplicate timestamps, statuses, offset, keep, categorical."""
    c = gen_case(rng, 6, 8)
    c.pop('scalar', None)
    c['path'] = 'cache'
    if c['rep'] == 'wtup':
        c['rep'] = 'warr'
    r = rng.random()
    isfloat = r < 0.08 and c['ts']
    if isfloat:
        c['rep'] = 'float'
        c['tr'] = None
    m = len(c['ts'])
    if m and rng.random() < 0.5:         # duplicates
        for _ in range(rng.randint(1, 2)):
            k = rng.randrange(m)
            c['ts'].append(c['ts'][k])
            c['vals'].append(rng.choice([1, 2, 3, 4]))
    order = list(range(len(c['ts'])))
    if rng.random() < 0.6:
        rng.shuffle(order)
    c['ts'] = [c['ts'][k] for k in order]
    c['vals'] = [c['vals'][k] for k in order]
    if rng.random() < 0.5 and not isfloat:      # (a float sensor without usable samples gets a NaN dummy: no id)
        mode = rng.random()
        c['status'] = [rng.choice([0, 0, 0, 1, 2, 3, 4, 5, 6, 7]) if mode < 0.8 else rng.choice([3, 4, 7])
                       for _ in c['ts']]
    if rng.random() < 0.3:
        c['off'] = rng.choice([-4, -2, -1, 1, 2, 3])
    if rng.random() < 0.3:
        c['keep'] = [rng.random() < 0.6 for _ in c['ends']]
    c['categ'] = rng.choice([None, None, None, True, False]) if c['rep'] != 'float' else rng.choice([None, None, True])
    if c['categ'] is False or (c['rep'] == 'float' and c['categ'] is None):
        # numerical extraction needs numbers
        if c['rep'] not in ('int', 'float'):
            c['categ'] = None
    return c


def canon(case):
    return (tuple(case['ts']), tuple(case['vals']), tuple(case['ends']), period_of(case), repr(case['tr']), case['init'],
            tuple(case['greedy'] or ()), case['greedy'] is None, case['ar'], case['rep'], case.get('path', 'direct'),
            case.get('scalar', False), bool(case.get('raw_greedy')), tuple(case.get('status') or ()), case.get('status') is None, case.get('off'),
            tuple(case.get('keep') or ()), case.get('keep') is None, case.get('categ'))


def run_cases(ctx, cases, tag):
    if not cases:
        return
    mouts = ctx.model([wire(c) for c in cases]) if ctx.model_ok else [None] * len(cases)
    for n, (case, mo) in enumerate(zip(cases, mouts)):
        ob = compare(ctx, case, mo)
        nt = nontrivial(case)
        ctx.note_case(canon(case), nontrivial=nt,
                      sample=dict(case, observed=list(ob[1:]) if ob[0] == 'ok' else ob[0:2]) if nt and n % 97 == 0 else None)
        ctx.count('%s:N=%d' % (tag, len(case['ends'])))
        ctx.count('rep=' + case['rep'])
        ctx.count(classify(case).split(';')[0])
        ctx.count('result=' + ob[0])
        ctx.count('period=%d' % period_of(case))
        ctx.count('events=%s' % ('0' if not case['ts'] else '1' if len(case['ts']) == 1 else '2+'))
        ctx.count('allow_repeats=%s' % case['ar'])
        if case['tr'] is not None:
            ctx.count('with_transform')
        if case.get('scalar'):
            ctx.count('scalar_inputs')
        if case['rep'] in ('warr', 'wtup') and case['greedy']:
            ctx.count('array_greedy_values=%s' % ('unwrapped' if case.get('raw_greedy') else 'wrapped'))
        if tag == 'cache':
            ts = case['ts']
            ctx.count('cache:unsorted' if any(a > b for a, b in zip(ts, ts[1:])) else 'cache:sorted')
            if len(set(ts)) < len(ts):
                ctx.count('cache:duplicate_timestamps')
            if case.get('status') is not None:
                ctx.count('cache:with_status')
            if case.get('off') is not None:
                ctx.count('cache:time_offset')
            if case.get('keep') is not None:
                ctx.count('cache:keep_mask')
            ctx.count('cache:categorical=%s' % case.get('categ'))
            if mo is not None and len(mo[1]) == 1 and (not ts or tuple(mo[1][0]) not in set(zip([t + (case.get('off') or 0) for t in ts], case['vals']))):
                # (mo[1] = usable samples)
                ctx.count('cache:dummy_sample')


def gen_generator_cases(ctx, n):
    """Direct inputs of _single_event_per_dump: non-decreasing dump indices starting at 0 plus terminator,
    values over the alphabet and a greedy set (flags = value in greedy set)."""
    rng = ctx.rng
    out = []
    for _ in range(n):
        nd = rng.randint(1, 7)
        m = rng.randint(1, 9)
        ev = sorted([0] + [rng.randint(0, nd - 1) for _ in range(m - 1)])
        out.append((ev + [nd], [rng.choice([1, 2, 3, 4]) for _ in range(m)], rng.choice([[], [3], [3, 4], [1, 4]])))
    return out


def run_generator(ctx, gcases):
    from katdal.categorical import _single_event_per_dump
    if not ctx.model_ok or not gcases:
        return
    mouts = ctx.model([[101, [ev, [int(v in g) for v in vals]]] for ev, vals, g in gcases])
    mouts2 = ctx.model([[102, [ev, vals, g]] for ev, vals, g in gcases])
    for (ev, vals, g), mo, mo2 in zip(gcases, mouts, mouts2):
        arr = np.array(ev)
        case = dict(path='generator', events=ev, vals=vals, greedy=g)
        try:
            cleaned = [int(i) for i in _single_event_per_dump(arr, [v in g for v in vals])]
            ob = [cleaned, [int(x) for x in arr]]
            pairs = [[vals[i], int(arr[i])] for i in cleaned]
        except Exception as e:   # noqa: BLE001
            ob = ['err', type(e).__name__]
            pairs = ob
        ctx.traces_validated += 1
        if ob != mo:
            ctx.disagree('path=generator;symptom=tie_cleaned_up', case, ob, mo,
                         '_single_event_per_dump differs from the index-based model of the generator', kind='tie')
        elif pairs != mo2[0] or pairs != mo2[1]:
            ctx.disagree('path=generator;symptom=tie_cached_lookup_machine', case, pairs, mo2,
                         '(value, dump) pairs of _single_event_per_dump differ from the cached-look-up machine the '
                         'per-dump theorem is proved about', kind='tie')
        ctx.note_case(('gen', tuple(ev), tuple(vals), tuple(g)),
                      nontrivial=len(set(ev)) < len(ev) and any(v in g for v in vals), sample=None)
        ctx.count('generator_direct')


def exhaustive_cases(nmax=3, mmax=4):
    """Every placement of <= mmax events on the grid (before prior edge, on it, inside, on each edge, after)
    x every value word over {a, g, h} x greedy sets x initial value none/plain/greedy."""
    for n in range(1, nmax + 1):
        ends = [2 * k for k in range(n)]
        grid = list(range(-3, ends[-1] + 2))
        for m in range(0, mmax + 1):
            for ts in itertools.combinations_with_replacement(grid, m):
                for vals in itertools.product([1, 3, 4], repeat=m):
                    for greedy in ([], [3], [3, 4]):
                        for init in (None, 5, 3):
                            yield dict(ts=list(ts), vals=list(vals), ends=ends, tr=None, init=init, greedy=greedy,
                                       ar=(len(ts) + sum(vals)) % 3 == 0, rep='str', path='direct')


def boundary_cases():
    """Hand-picked degenerate-but-legal inputs."""
    out = []
    base = dict(tr=None, init=None, greedy=None, ar=None, rep='str', path='direct')
    out.append(dict(base, ts=[], vals=[], ends=[0, 2], init=5))                 # no sample at all, initial value
    out.append(dict(base, ts=[], vals=[], ends=[0, 2]))                         # ... and none: must raise
    out.append(dict(base, ts=[1], vals=[1], ends=[]))                           # no dump: must raise
    out.append(dict(base, ts=[0], vals=[1], ends=[0], scalar=True))             # one dump, scalar inputs, on the edge
    out.append(dict(base, ts=[-2], vals=[1], ends=[0]))                         # exactly on the prior edge
    out.append(dict(base, ts=[-2, -2, 0, 0, 0], vals=[1, 2, 3, 4, 1], ends=[0], greedy=[3]))   # duplicates, direct
    out.append(dict(base, ts=[1, 1, 1, 1, 1, 1, 1, 1, 1], vals=[1, 3, 1, 3, 1, 4, 1, 3, 1], ends=[0, 2, 4], greedy=[3, 4]))
    out.append(dict(base, ts=[3], vals=[3], ends=[0, 2, 4], init=3, greedy=[3], ar=True))
    out.append(dict(base, ts=[-9, 20], vals=[2, 2], ends=[0, 4, 8, 12, 16], P=4, ar=True))
    out.append(dict(base, ts=[0, 6, 12], vals=[1, 3, 1], ends=[0, 6, 12], P=6, greedy=[3], init=1))
    out.append(dict(base, ts=[5], vals=[1], ends=[0, 2, 4], rep='warr', init=3, greedy=[3]))
    c = dict(base, path='cache', ts=[], vals=[], ends=[0, 2], categ=None)
    out.append(dict(c, rep='str'))                                                # empty sensor: dummy '' at time 0
    out.append(dict(c, rep='int', init=4))                                        # ... carrying the initial value
    out.append(dict(c, rep='int', init=2, tr=[(2, 1)]))                           # the dummy is transformed like an event
    out.append(dict(c, rep='str', ts=[1, 1], vals=[1, 2], status=[3, 4], init=1))  # only unreadable statuses
    out.append(dict(c, rep='float', ts=[0, 1], vals=[1, 2]))                      # float: numerical unless asked
    out.append(dict(c, rep='float', ts=[0, 1], vals=[1, 2], categ=True))
    out.append(dict(c, rep='int', ts=[0, 1], vals=[1, 2], categ=False))
    out.append(dict(c, rep='str', ts=[3, -1, 3, 1], vals=[1, 2, 3, 4], off=-2, keep=[True, False], greedy=[3]))
    return out


def run(ctx):
    _quiet()
    # known-finding witnesses first
    for f in ctx.findings:
        w = dict(f['witness'])
        if w.get('path') == 'dataset' or 'table' in w or str(w.get('path', '')).startswith(('values_', 'pair')):
            continue           # run by c10_tables.run / c10_values.run below
        mo = ctx.model([wire(w)])[0] if ctx.model_ok else None
        compare(ctx, w, mo)
        ctx.count('known_finding_witness')
    # probe of F27: documented (unwrapped) ndarray greedy values
    probe = dict(ts=[-1, 1, 2], vals=[1, 3, 2], ends=[0, 2, 4], tr=None, init=None, greedy=[3], ar=False, rep='warr',
                 path='direct', raw_greedy=True)
    if not any(f['witness'] == probe for f in ctx.findings):
        compare(ctx, probe, ctx.model([wire(probe)])[0] if ctx.model_ok else None)
    run_cases(ctx, [c for c in boundary_cases() if c['path'] == 'direct'], 'boundary')
    run_cases(ctx, [c for c in boundary_cases() if c['path'] == 'cache'], 'cache')
    rng = ctx.rng
    n = ctx.scale(20000, 400000)
    batch = 20000
    done = 0
    while done < n:
        k = min(batch, n - done)
        cases = [gen_case(rng) for _ in range(k)]
        run_cases(ctx, cases, 'direct')
        done += k
    # through SensorCache.get / cache[name] from raw samples
    run_cases(ctx, [gen_cache_case(rng) for _ in range(ctx.scale(6000, 80000))], 'cache')
    run_generator(ctx, gen_generator_cases(ctx, ctx.scale(5000, 60000)))
    # the sensor property tables of the formats and real data sets
    from props import c10_tables, c10_values
    c10_tables.run(ctx)
    # array-valued sensors: values that are not just ids (equality by shape and elements)
    c10_values.run(ctx)
    # quarter placements in the first / last dump (cache, data sets) and histories of conversions over one getter
    from props import c10_hist
    c10_hist.run(ctx)
    if ctx.tier == 'thorough' and not ctx.searching:
        buf, tot = [], 0
        for c in exhaustive_cases():
            buf.append(c)
            if len(buf) >= 20000:
                run_cases(ctx, buf, 'exhaustive')
                tot += len(buf)
                buf = []
        run_cases(ctx, buf, 'exhaustive')
        tot += len(buf)
        ctx.extra['exhaustive_small_scope'] = ('all %d cases with N<=3 dumps, <=4 events on the full time grid, values over '
                                               '{a,g,h}, 3 greedy sets, initial value none/plain/greedy' % tot)
        # cross-check of the extraction inside Coq on a sample
        from vh import core
        sample = [wire(gen_case(rng, 4, 5)) for _ in range(110)] + [wire(gen_cache_case(rng)) for _ in range(40)]
        a = ctx.model(sample)
        # the thorough tier rebuilt from clean only what Props/C10 needs: make sure the dispatcher's .vo files exist
        targets = ' '.join(x[:-2] + '.vo' for x in core.coq_sources() if x.startswith(('Base/', 'Gen/', 'Model/')))
        core.sh('timeout 1200 make -j4 %s && timeout 600 coqc -Q . KV Extract/Dispatch.v' % targets, cwd=core.COQ, timeout=1900)
        b = core.run_model_in_coq(sample, 'c10')
        if a != b:
            bad = next(i for i in range(len(a)) if a[i] != b[i])
            ctx.disagree('symptom=extraction_differs_from_vm_compute', dict(wire=sample[bad]), a[bad], b[bad],
                         'extracted model and vm_compute disagree', kind='tie')
        ctx.extra['extraction_crosscheck_cases'] = len(sample)
    ctx.exhaustive = False


def replay(ctx, doc):
    _quiet()
    case = doc.get('case', {})
    if 'hist' in case:
        from props import c10_hist
        return c10_hist.replay(ctx, case)
    if case.get('path') == 'generator':
        run_generator(ctx, [(case['events'], case['vals'], case['greedy'])])
        return
    if str(case.get('path', '')).startswith(('values_', 'pair')):
        from props import c10_values
        return c10_values.replay(ctx, case)
    if case.get('path') == 'dataset' or 'table' in case:
        from props import c10_tables
        return c10_tables.replay(ctx, case)
    if 'ts' not in case:
        return run(ctx)
    if case.get('tr') is not None:
        case['tr'] = [tuple(p) for p in case['tr']]
    mo = ctx.model([wire(case)])[0] if ctx.model_ok else None
    compare(ctx, case, mo)
    ctx.note_case(canon(case))
