"""C10 — categorical sensors are mapped onto dumps by the documented rule (correspondence + search).

Runs the real katdal.categorical.sensor_to_categorical (directly, and through SensorCache.get for
non-float sensors) and the real generator _single_event_per_dump against the extracted Coq model
(the tie) and the extracted declarative per-dump spec (the property).
"""
import itertools
import logging
import warnings

import numpy as np

RULE = ('a case is (event times in half-dump units from two periods before the first dump to two after the last, '
        'several per dump, on edges; values from a 4-letter alphabet; N<=7 dumps, regular or irregular dump ends; '
        'greedy set of 0/1/2 values; initial value absent/plain/greedy; transform none or merging two letters; '
        'allow_repeats; value representation str/int/wrapped ndarray/wrapped tuple; path direct or SensorCache.get); '
        'non-trivial when at least one event lies inside the dumps and either two events share a dump or a greedy '
        'value occurs; distinct by the full canonical case')
ASSUMPTIONS = ['sensor timestamps are sorted (SensorCache._extract sorts them) and dump mid-times strictly increase; '
               'numpy searchsorted is modelled for sorted arrays',
               'times are dyadic rationals so that float64 comparisons in katdal are exact',
               'on the SensorCache path remove_duplicates_and_invalid_values (property C12) is applied first: the '
               'harness keeps the last of equal timestamps before calling the model',
               'array-valued (wrapped) sensors need at least one sample (wrappedness is inferred from the first value) and '
               'their greedy values are handed over wrapped, except in the single F27 probe',
               'equality of sensor values is equality of their ids (str, int, ndarray via ComparableArrayWrapper)']

PERIOD = 2          # wire units per dump; python uses dump_period = 1.0
LETTERS = {1: 'a', 2: 'b', 3: 'g', 4: 'h', 5: 'i', 6: 'j'}
IDS = {v: k for k, v in LETTERS.items()}
REPRS = ('str', 'int', 'warr', 'wtup')


def _quiet():
    warnings.simplefilter('ignore')
    logging.getLogger('katdal').setLevel(logging.CRITICAL)


# ---------------------------------------------------------------- value representations

def enc(rep, k):
    """Unwrapped python value standing for id k."""
    if rep == 'str':
        return LETTERS[k]
    if rep == 'int':
        return int(k)
    if rep == 'warr':
        return np.array([k, 10 * k])
    return (int(k), int(k) + 100)


def dec(rep, v):
    if rep == 'str':
        return IDS[str(v)]
    if rep == 'int':
        return int(v)
    return int(np.asarray(v).ravel()[0])


def impl_direct(case):
    from katdal.categorical import ComparableArrayWrapper, sensor_to_categorical
    rep = case['rep']
    wrapped = rep in ('warr', 'wtup')
    ts = np.array([t / 2.0 for t in case['ts']], dtype=float)
    raw = [enc(rep, k) for k in case['vals']]
    if wrapped:
        vals = np.empty(len(raw), dtype=object)
        for n, r in enumerate(raw):
            vals[n] = ComparableArrayWrapper(r)
    else:
        vals = np.array(raw) if raw else np.array([], dtype='<U1' if rep == 'str' else int)
    mid = np.array([e / 2.0 - 0.5 for e in case['ends']], dtype=float)
    kw = {}
    if case['tr'] is not None:
        m = dict(case['tr'])
        kw['transform'] = lambda v: enc(rep, m.get(dec(rep, v), dec(rep, v)))
    if case['init'] is not None:
        kw['initial_value'] = enc(rep, case['init'])
    if case['greedy'] is not None:
        # ndarray-valued greedy values must be handed over wrapped (finding F27: unwrapped ones make
        # `value in greedy_values` raise); case['raw_greedy'] asks for the documented unwrapped form
        wrapg = rep == 'warr' and not case.get('raw_greedy')
        kw['greedy_values'] = [ComparableArrayWrapper(enc(rep, k)) if wrapg else enc(rep, k) for k in case['greedy']]
    if case['ar']:
        kw['allow_repeats'] = True
    if case.get('path') == 'cache':
        from katdal.sensordata import SensorCache, SimpleSensorGetter
        cache = SensorCache({'s': SimpleSensorGetter('s', ts.copy(), vals)}, mid, 1.0, props={'s': kw})
        return cache.get('s')
    return sensor_to_categorical(ts, vals, mid, 1.0, **kw)


def observe(case):
    """-> ('ok', events, indices, unique ids, per-dump ids) or ('err', exception name)."""
    rep = case['rep']
    try:
        c = impl_direct(case)
        ev = [int(e) for e in c.events]
        ind = [int(i) for i in c.indices]
        uniq = [dec(rep, v) for v in c.unique_values]
        allv = c[:]
        per = [dec(rep, v) for v in allv]
        return ('ok', ev, ind, uniq, per)
    except Exception as e:   # noqa: BLE001
        return ('err', type(e).__name__ + ': ' + str(e)[:80])


# ---------------------------------------------------------------- model side

def wire(case):
    ts, vals = case['ts'], case['vals']
    if case.get('path') == 'cache':
        # C12's clean-up: keep the last of each run of equal timestamps (timestamps are already sorted here)
        keep = [n for n in range(len(ts)) if n == len(ts) - 1 or ts[n + 1] != ts[n]]
        ts, vals = [ts[n] for n in keep], [vals[n] for n in keep]
    return [10, [ts, vals, case['ends'], PERIOD, [] if case['tr'] is None else [[list(p) for p in case['tr']]],
                 [] if case['init'] is None else [case['init']], case['greedy'] or [], 1 if case['ar'] else 0]]


def classify(case):
    e0 = case['ends'][0]
    prior = any(t <= e0 - PERIOD for t in case['ts'])
    in0 = any(e0 - PERIOD < t <= e0 for t in case['ts'])
    inrange = any(t <= case['ends'][-1] for t in case['ts'])
    tr = dict(case['tr'] or [])
    g = case['greedy'] or []
    init = 'none' if case['init'] is None else ('greedy' if case['init'] in g else 'plain')
    return 'init=%s;prior=%d;first_dump_event=%d;inrange=%d' % (init, prior, in0, inrange), tr


def nontrivial(case):
    ends = case['ends']
    lo = ends[0] - PERIOD
    dumps = [sum(1 for e in ends if e < t) for t in case['ts'] if lo < t <= ends[-1]]
    tr = dict(case['tr'] or [])
    g = case['greedy'] or []
    return bool(dumps) and (len(set(dumps)) < len(dumps) or any(tr.get(v, v) in g for v in case['vals']))


def wellformed(case, ob):
    _, ev, ind, uniq, per = ob
    n = len(case['ends'])
    bad = []
    if not ev or ev[0] != 0:
        bad.append('first_event_not_0')
    if not ev or ev[-1] != n:
        bad.append('last_event_not_N')
    if any(a >= b for a, b in zip(ev, ev[1:])):
        bad.append('events_not_increasing')
    if len(ind) != len(ev) - 1:
        bad.append('len_indices')
    if len(per) != n:
        bad.append('not_one_value_per_dump')
    if len(set(uniq)) != len(uniq):
        bad.append('unique_values_repeat')
    if not case['ar'] and any(a == b for a, b in zip(ind, ind[1:])):
        bad.append('repeated_consecutive_value')
    return bad


def compare(ctx, case, mo):
    """mo = [model, spec, spec_as_coded] from wire_10 (or None while searching without a model binary)."""
    ob = observe(case)
    ctx.traces_validated += 1
    shape, _ = classify(case)
    base = 'path=%s;%s' % (case.get('path', 'direct'), shape)
    if case.get('raw_greedy'):
        base = 'greedy=unwrapped_ndarray;' + base
    if mo is None:
        mo = py_fallback(case)
    model, spec, coded = mo
    in_domain = spec[0] == 1
    # ---- tie: implementation vs extracted model
    if model is not None:
        if ob[0] == 'err' and model[0] == 1:
            if not in_domain:    # in domain this is reported once, below, as a violation of the property
                ctx.disagree(base + ';symptom=raises_model_answers', case, ob[1], model[1:],
                             'implementation raised, model returned data', spec=spec, kind='tie')
        elif ob[0] == 'ok' and model[0] == 0:
            if True:
                ctx.disagree(base + ';symptom=answers_model_raises', case, ob[1:], 'Err',
                             'implementation returned data where the model raises', spec=spec, kind='tie')
        elif ob[0] == 'ok':
            mper = model[4][1] if model[4][0] == 1 else 'Err'
            for name, a, b in (('events', ob[1], model[1]), ('indices', ob[2], model[2]),
                               ('unique_values', ob[3], model[3]), ('per_dump', ob[4], mper)):
                if a != b:
                    ctx.disagree(base + ';symptom=tie_%s' % name, case, a, b,
                                 '%s of the implementation differ from the model of the code' % name, spec=spec, kind='tie')
                    break
    # ---- property: implementation vs declarative spec
    if in_domain:
        if ob[0] == 'err':
            ctx.disagree(base + ';symptom=raises', case, ob[1], model, 'sensor_to_categorical raised although a value is '
                         'defined for every dump', spec=spec[1])
        else:
            if ob[4] != spec[1]:
                beyond = '' if (coded[0] == 1 and ob[4] == coded[1]) else ';not_explained_by_dropped_initial_value'
                ctx.disagree(base + ';symptom=per_dump_differs_from_rule' + beyond, case, ob[4], model and model[1:],
                             'per-dump values differ from the documented rule', spec=spec[1])
            bad = wellformed(case, ob)
            if bad:
                ctx.disagree(base + ';symptom=' + bad[0], case, ob[1:], model and model[1:],
                             'result is not well formed: ' + ','.join(bad), spec=spec[1])
    elif ob[0] == 'ok':
        # out of domain (no dump, or no initial value and no event at or before the last dump): must not answer
        ctx.disagree(base + ';symptom=answers_out_of_domain', case, ob[1:], model, 'data returned although no start value is defined',
                     spec=None)
    return ob


# ---------------------------------------------------------------- python fallback (only while searching with no model)

def py_spec(case, init):
    ts, ends = case['ts'], case['ends']
    if case.get('path') == 'cache':
        w = wire(case)[1]
        ts, vals = w[0], w[1]
    else:
        vals = case['vals']
    if not ends:
        return [0]
    tr = dict(case['tr'] or [])
    tv = [(t, tr.get(v, v)) for t, v in zip(ts, vals)]
    g = case['greedy'] or []
    if init is not None:
        st = init
    else:
        f = [v for t, v in tv if t <= ends[-1]]
        if not f:
            return [0]
        st = f[0]
    out = []
    los = [ends[0] - PERIOD] + list(ends[:-1])
    for lo, hi in zip(los, ends):
        before = [v for t, v in tv if t <= lo]
        S = [before[-1] if before else st] + [v for t, v in tv if lo < t <= hi]
        gs = [v for v in S if v in g]
        out.append(gs[-1] if gs else S[-1])
    return [1, out]


def py_fallback(case):
    e0 = case['ends'][0] if case['ends'] else 0
    coded = case['init']
    if not any(t <= e0 - PERIOD for t in case['ts']) and any(e0 - PERIOD < t <= e0 for t in case['ts']):
        coded = None
    return None, py_spec(case, case['init']), py_spec(case, coded)


# ---------------------------------------------------------------- generators

def gen_case(rng, nmax=7, mmax=9):
    n = rng.randint(1, nmax)
    if rng.random() < 0.15:
        ends, e = [], rng.randint(-2, 2)
        for _ in range(n):
            ends.append(e)
            e += rng.choice([1, 2, 2, 3, 4])
    else:
        base = rng.choice([0, 0, 0, 2, -3])
        ends = [base + PERIOD * k for k in range(n)]
    rep = rng.choice(['str', 'str', 'int', 'warr', 'wtup'])
    m = rng.randint(1 if rep in ('warr', 'wtup') else 0, mmax)
    lo, hi = ends[0] - 3 * PERIOD, ends[-1] + 2 * PERIOD
    mode = rng.random()
    if mode < 0.15:      # everything late / early
        pool = list(range(ends[-1] + 1, hi + 1)) if rng.random() < 0.5 else list(range(lo, ends[0] - PERIOD + 1))
    elif mode < 0.35:    # crowded: few distinct times
        pool = [rng.randint(lo, hi) for _ in range(3)]
    else:
        pool = list(range(lo, hi + 1))
    ts = sorted(rng.choice(pool) for _ in range(m))
    vals = [rng.choice([1, 2, 3, 4]) for _ in range(m)]
    greedy = rng.choice([None, [], [3], [3], [3, 4], [4, 1]])
    init = rng.choice([None, None, 5, 3, 3, 1])
    tr = rng.choice([None, None, [(2, 1)], [(1, 3)], [(3, 2), (4, 4)]])
    ar = rng.random() < 0.3
    return dict(ts=ts, vals=vals, ends=ends, tr=tr, init=init, greedy=greedy, ar=ar, rep=rep, path='direct')


def canon(case):
    return (tuple(case['ts']), tuple(case['vals']), tuple(case['ends']), repr(case['tr']), case['init'],
            tuple(case['greedy'] or ()), case['greedy'] is None, case['ar'], case['rep'], case.get('path', 'direct'))


def run_cases(ctx, cases, tag):
    if not cases:
        return
    mouts = ctx.model([wire(c) for c in cases]) if ctx.model_ok else [None] * len(cases)
    for n, (case, mo) in enumerate(zip(cases, mouts)):
        ob = compare(ctx, case, mo)
        nt = nontrivial(case)
        ctx.note_case(canon(case), nontrivial=nt,
                      sample=dict(case, observed=ob[1:] if ob[0] == 'ok' else ob[1]) if nt and n % 97 == 0 else None)
        ctx.count('%s:N=%d' % (tag, len(case['ends'])))
        ctx.count('rep=' + case['rep'])
        ctx.count('init=' + classify(case)[0].split(';')[0][5:])
        ctx.count('result=' + ob[0])
        if case['tr'] is not None:
            ctx.count('with_transform')
        if case['ar']:
            ctx.count('allow_repeats')


def gen_generator_cases(ctx, n):
    """Direct inputs of _single_event_per_dump: non-decreasing dump indices starting at 0 plus terminator,
    values over the alphabet and a greedy set (flags = value in greedy set)."""
    rng = ctx.rng
    out = []
    for _ in range(n):
        nd = rng.randint(1, 7)
        m = rng.randint(1, 9)
        ev = sorted([0] + [rng.randint(0, nd - 1) for _ in range(m - 1)])
        out.append((ev + [nd], [rng.choice([1, 2, 3, 4]) for _ in range(m)], rng.choice([[], [3], [3, 4], [1, 4]])))
    return out


def run_generator(ctx, gcases):
    from katdal.categorical import _single_event_per_dump
    if not ctx.model_ok or not gcases:
        return
    mouts = ctx.model([[101, [ev, [int(v in g) for v in vals]]] for ev, vals, g in gcases])
    mouts2 = ctx.model([[102, [ev, vals, g]] for ev, vals, g in gcases])
    for (ev, vals, g), mo, mo2 in zip(gcases, mouts, mouts2):
        arr = np.array(ev)
        case = dict(path='generator', events=ev, vals=vals, greedy=g)
        try:
            cleaned = [int(i) for i in _single_event_per_dump(arr, [v in g for v in vals])]
            ob = [cleaned, [int(x) for x in arr]]
            pairs = [[vals[i], int(arr[i])] for i in cleaned]
        except Exception as e:   # noqa: BLE001
            ob = ['err', type(e).__name__]
            pairs = ob
        ctx.traces_validated += 1
        if ob != mo:
            ctx.disagree('path=generator;symptom=tie_cleaned_up', case, ob, mo,
                         '_single_event_per_dump differs from the index-based model of the generator', kind='tie')
        elif pairs != mo2[0] or pairs != mo2[1]:
            ctx.disagree('path=generator;symptom=tie_cached_lookup_machine', case, pairs, mo2,
                         '(value, dump) pairs of _single_event_per_dump differ from the cached-look-up machine the '
                         'per-dump theorem is proved about', kind='tie')
        ctx.note_case(('gen', tuple(ev), tuple(vals), tuple(g)),
                      nontrivial=len(set(ev)) < len(ev) and any(v in g for v in vals), sample=None)
        ctx.count('generator_direct')


def exhaustive_cases(nmax=3, mmax=4):
    """Every placement of <= mmax events on the grid (before prior edge, on it, inside, on each edge, after)
    x every value word over {a, g, h} x greedy sets x initial value none/plain/greedy."""
    for n in range(1, nmax + 1):
        ends = [PERIOD * k for k in range(n)]
        grid = list(range(-PERIOD - 1, ends[-1] + 2))
        for m in range(0, mmax + 1):
            for ts in itertools.combinations_with_replacement(grid, m):
                for vals in itertools.product([1, 3, 4], repeat=m):
                    for greedy in ([], [3], [3, 4]):
                        for init in (None, 5, 3):
                            yield dict(ts=list(ts), vals=list(vals), ends=ends, tr=None, init=init, greedy=greedy,
                                       ar=(len(ts) + sum(vals)) % 3 == 0, rep='str', path='direct')


def run(ctx):
    _quiet()
    # known-finding witnesses first
    for f in ctx.findings:
        w = dict(f['witness'])
        mo = ctx.model([wire(w)])[0] if ctx.model_ok else None
        compare(ctx, w, mo)
        ctx.count('known_finding_witness')
    # probe of F27: documented (unwrapped) ndarray greedy values
    probe = dict(ts=[-1, 1, 2], vals=[1, 3, 2], ends=[0, 2, 4], tr=None, init=None, greedy=[3], ar=False, rep='warr',
                 path='direct', raw_greedy=True)
    if not any(f['witness'] == probe for f in ctx.findings):
        compare(ctx, probe, ctx.model([wire(probe)])[0] if ctx.model_ok else None)
    rng = ctx.rng
    n = ctx.scale(20000, 400000)
    batch = 20000
    done = 0
    while done < n:
        k = min(batch, n - done)
        cases = [gen_case(rng) for _ in range(k)]
        run_cases(ctx, cases, 'direct')
        done += k
    # through SensorCache.get (non-float sensors): needs at least one sample
    ncache = ctx.scale(3000, 40000)
    cases = []
    while len(cases) < ncache:
        c = gen_case(rng)
        if not c['ts']:
            continue
        c['path'] = 'cache'
        if c['rep'] == 'wtup':
            c['rep'] = 'warr'
        cases.append(c)
    run_cases(ctx, cases, 'cache')
    run_generator(ctx, gen_generator_cases(ctx, ctx.scale(5000, 60000)))
    if ctx.tier == 'thorough' and not ctx.searching:
        buf, tot = [], 0
        for c in exhaustive_cases():
            buf.append(c)
            if len(buf) >= 20000:
                run_cases(ctx, buf, 'exhaustive')
                tot += len(buf)
                buf = []
        run_cases(ctx, buf, 'exhaustive')
        tot += len(buf)
        ctx.extra['exhaustive_small_scope'] = ('all %d cases with N<=3 dumps, <=4 events on the full time grid, values over '
                                               '{a,g,h}, 3 greedy sets, initial value none/plain/greedy' % tot)
        # cross-check of the extraction inside Coq on a sample
        from vh import core
        sample = [wire(gen_case(rng, 4, 5)) for _ in range(150)]
        a = ctx.model(sample)
        # the thorough tier rebuilt from clean only what Props/C10 needs: make sure the dispatcher's .vo files exist
        targets = ' '.join(x[:-2] + '.vo' for x in core.coq_sources() if x.startswith(('Base/', 'Gen/', 'Model/')))
        core.sh('timeout 1200 make -j4 %s && timeout 600 coqc -Q . KV Extract/Dispatch.v' % targets, cwd=core.COQ, timeout=1900)
        b = core.run_model_in_coq(sample, 'c10')
        if a != b:
            bad = next(i for i in range(len(a)) if a[i] != b[i])
            ctx.disagree('symptom=extraction_differs_from_vm_compute', dict(wire=sample[bad]), a[bad], b[bad],
                         'extracted model and vm_compute disagree', kind='tie')
        ctx.extra['extraction_crosscheck_cases'] = len(sample)
    ctx.exhaustive = False


def replay(ctx, doc):
    _quiet()
    case = doc.get('case', {})
    if case.get('path') == 'generator':
        run_generator(ctx, [(case['events'], case['vals'], case['greedy'])])
        return
    if 'ts' not in case:
        return run(ctx)
    if case.get('tr') is not None:
        case['tr'] = [tuple(p) for p in case['tr']]
    mo = ctx.model([wire(case)])[0] if ctx.model_ok else None
    compare(ctx, case, mo)
    ctx.note_case(canon(case))
