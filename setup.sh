#!/bin/bash
# Build the whole framework offline from files on disk: regenerate Generated.v from /repo's working tree,
# compile every Coq file (full .vo build), extract the models and build the OCaml driver.
# Proof or translator failures caused by the state of /repo are NOT setup failures: every check rebuilds and
# re-judges its own obligations; setup only fails when the tool chain itself is unusable.
cd "$(dirname "$0")"
export PYTHONPATH=${VERIF_REPO:-/repo}:$PWD/harness PYTHONHASHSEED=0 PYTHONDONTWRITEBYTECODE=1
mkdir -p build evidence replays coq/Gen
command -v coqc >/dev/null && command -v ocamlfind >/dev/null || { echo "coqc / ocamlfind missing"; exit 1; }
/venv/bin/python - <<'PY'
import sys
from vh import core
with core.BuildLock():
    ok, msg = core.regenerate()
    if not ok:
        print('WARNING (left to the checks):', msg)
    core.ensure_makefile()
    rc, out = core.sh('timeout 3000 make -k -j%d' % core.NPROC, cwd=core.COQ, timeout=3100)
    print(out[-1500:])
    if rc:
        print('WARNING: some Coq files did not compile (left to the checks)')
    ok, msg = core.build_model()[:2]
    if not ok:
        print('WARNING: model driver not built (left to the checks):', msg[-500:])
print('setup ok')
PY
