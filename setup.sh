#!/bin/bash
# Build the whole framework offline from files on disk: regenerate Generated.v from /repo,
# compile every Coq file (full .vo build), extract the models and build the OCaml driver.
set -e
cd "$(dirname "$0")"
export PYTHONPATH=${VERIF_REPO:-/repo}:$PWD/harness PYTHONHASHSEED=0 PYTHONDONTWRITEBYTECODE=1
mkdir -p build evidence replays
/venv/bin/python - <<'PY'
import sys
from vh import core
with core.BuildLock():
    ok, msg = core.regenerate()
    if not ok:
        print('translator failed:', msg); sys.exit(1)
    rc, out = core.make(None)
    print(out[-2000:])
    if rc:
        sys.exit(1)
    ok, msg = core.build_model()
    if not ok:
        print(msg); sys.exit(1)
print('setup ok')
PY
