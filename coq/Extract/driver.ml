open Model
(* Z <-> OCaml int conversion (small ints only in the wire format) *)
let rec pos_of_int n = if n = 1 then XH else if n land 1 = 0 then XO (pos_of_int (n lsr 1)) else XI (pos_of_int (n lsr 1))
let z_of_int n = if n = 0 then Z0 else if n > 0 then Zpos (pos_of_int n) else Zneg (pos_of_int (-n))
let rec int_of_pos = function XH -> 1 | XO p -> 2 * int_of_pos p | XI p -> 2 * int_of_pos p + 1
let int_of_z = function Z0 -> 0 | Zpos p -> int_of_pos p | Zneg p -> - (int_of_pos p)
(* parser for "(1 2 (3 -4))" *)
let parse s =
  let n = String.length s in
  let i = ref 0 in
  let rec skip () = while !i < n && (s.[!i] = ' ' || s.[!i] = '\n') do incr i done
  and item () = skip ();
    if s.[!i] = '(' then begin incr i; let l = ref [] in skip ();
      while s.[!i] <> ')' do l := item () :: !l; skip () done; incr i; L (List.rev !l) end
    else begin let j = !i in while !i < n && s.[!i] <> ' ' && s.[!i] <> ')' && s.[!i] <> '(' do incr i done;
      I (z_of_int (int_of_string (String.sub s j (!i - j)))) end in
  item ()
let rec print b = function
  | I z -> Buffer.add_string b (string_of_int (int_of_z z))
  | L l -> Buffer.add_char b '('; List.iteri (fun k x -> if k > 0 then Buffer.add_char b ' '; print b x) l; Buffer.add_char b ')'
let () =
  try while true do
    let line = input_line stdin in
    let b = Buffer.create 64 in print b (run (parse line)); print_endline (Buffer.contents b)
  done with End_of_file -> ()
