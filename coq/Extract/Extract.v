(* Extraction of the executable models and specs to OCaml.
   Only the directives of ExtrOcamlBasic are used (bool, option, unit, list, prod,
   sumbool, sumor -> OCaml natives); Z, positive, N, nat, ascii, string stay the Coq datatypes. *)
From KV Require Import Extract.Dispatch.
Require Import ExtrOcamlBasic.
Extraction Language OCaml.
Extraction "model.ml" run.
