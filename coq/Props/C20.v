(* C20 — Lazily initialised shared state is safe under every thread interleaving.  Statements only. *)
From Coq Require Import List Arith Bool ZArith Permutation String.
From KV Require Import Base.Sx Gen.Generated Model.LazyInit Proofs.LazyInitP Model.TaskGraph Proofs.TaskGraphP
                       Model.Guarded Proofs.GuardedP Model.SharedSites Proofs.SharedSitesP Model.LockOrder Proofs.LockOrderP Proofs.ReqProgP
                       Model.PerCall Proofs.PerCallP.
From KV Require Model.ScratchRace Proofs.ScratchRaceP Model.GuardTest Proofs.GuardTestP.
Import ListNotations.
Close Scope Z_scope.
Open Scope nat_scope.

(* SERIALISABILITY, for every body, every number of threads and every schedule: threads that each run
   `Acquire; body; Release` one source line at a time behave as if the critical sections ran one after the
   other in the order of lock acquisition (c_hist): the shared state is the serial one, the lock holder is
   exactly a partial serial run, every finished thread has the local result of its serial run. *)
Theorem C20_serializable : forall (S V : Type) (f : S -> V) body sh0 schedule,
  Inv S V f body sh0 (exec S V f body sh0 schedule).
Proof. exact serializable. Qed.
Print Assumptions C20_serializable.

(* LAZY INITIALISATION: if the body satisfies the sequential contract of a lazily-initialising accessor,
   then for every schedule of any number of threads: nothing raises, every thread that has returned got the
   value a single thread would get (f s0), and whenever no thread is inside, the value was initialised
   exactly once. *)
Theorem C20_guarded_lazy_init_safe : forall (S V : Type) (f : S -> V) s0 keep body sh0 schedule,
  serial_ok S V f s0 keep body -> lazy_ok S V f s0 keep sh0 ->
  let c := exec S V f body sh0 schedule in
  (forall t, c_th c t <> Failed) /\
  (forall t lo, c_th c t = Done lo -> lres lo = Some (f s0)) /\
  (c_lock c = None -> lazy_ok S V f s0 keep (c_sh c) /\ (c_hist c <> [] -> ncomp (c_sh c) = 1)) /\
  (forall t lo, c_th c t = Done lo -> In t (c_hist c)).
Proof. exact guarded_lazy_init_safe. Qed.
Print Assumptions C20_guarded_lazy_init_safe.

(* The three lazily-initialising sites, as TRANSLATED FROM THE CURRENT SOURCE, satisfy the sequential contract
   and keep every access to their shared fields inside the lock (these obligations break when a lock is
   removed or narrowed, or when the order test / compute / assign / clear is disturbed). *)
Theorem C20_site_dask : forall S V (f : S -> V) s0, serial_ok S V f s0 false site_dask.
Proof. exact site_dask_serial_ok. Qed.
Print Assumptions C20_site_dask.
Theorem C20_site_spw : forall S V (f : S -> V) s0, serial_ok S V f s0 true site_spw.
Proof. exact site_spw_serial_ok. Qed.
Print Assumptions C20_site_spw.
Theorem C20_site_sensor_get : forall S V (f : S -> V) s0, serial_ok S V f s0 true site_sensor_get.
Proof. exact site_sensor_get_serial_ok. Qed.
Print Assumptions C20_site_sensor_get.

Theorem C20_sites_locked :
  site_dask_locked = true /\ site_spw_locked = true /\ site_sensor_get_locked = true /\
  sensor_setitem_locked = true /\ sensor_delitem_locked = true /\ sensor_contains_locked = true /\
  pool_get_locked = true /\ pool_put_locked = true /\ sensor_lock_reentrant = true.
Proof. exact sites_locked. Qed.
Print Assumptions C20_sites_locked.

(* the guard objects: one lock per object, created in __init__ and never replaced, of the modelled kind; no method but
   the constructor touches a guarded field outside its lock (SensorCache: only the listed dict-level methods); the pool
   starts empty, `with pool() as s` is get / use / put, and S3ChunkStore.request sends through the session it borrowed *)
Theorem C20_lock_discipline :
  (site_dask_lock_kind = 1%Z /\ site_dask_lock_once = true /\ only_init site_dask_unlocked_methods = true) /\
  (site_spw_lock_kind = 1%Z /\ site_spw_lock_once = true /\ only_init site_spw_unlocked_methods = true) /\
  (sensor_lock_kind = 2%Z /\ sensor_lock_once = true /\ all_allowed sensor_unlocked_methods = true) /\
  (pool_lock_kind = 1%Z /\ pool_lock_once = true /\ only_init pool_unlocked_methods = true) /\
  pool_init_empty = true /\ pool_call_ok = true /\ s3_request_session_from_pool = true.
Proof. exact lock_discipline. Qed.
Print Assumptions C20_lock_discipline.

(* hence each site, from its freshly constructed state, under any interleaving of any number of threads: nothing raises,
   every thread that has returned holds the single-thread value f s0, the value was computed exactly once *)
Theorem C20_dask_dataset_safe : forall (S V : Type) (f : S -> V) s0 schedule,
  let c := exec S V f site_dask (mkSh None (Some s0) 0) schedule in
  (forall t, c_th c t <> Failed) /\ (forall t lo, c_th c t = Done lo -> lres lo = Some (f s0)) /\
  (c_lock c = None -> c_hist c <> [] -> ncomp (c_sh c) = 1).
Proof. exact dask_dataset_safe. Qed.
Print Assumptions C20_dask_dataset_safe.
Theorem C20_spw_channel_freqs_safe : forall (S V : Type) (f : S -> V) s0 schedule,
  let c := exec S V f site_spw (mkSh None (Some s0) 0) schedule in
  (forall t, c_th c t <> Failed) /\ (forall t lo, c_th c t = Done lo -> lres lo = Some (f s0)) /\
  (c_lock c = None -> c_hist c <> [] -> ncomp (c_sh c) = 1).
Proof. exact spw_channel_freqs_safe. Qed.
Print Assumptions C20_spw_channel_freqs_safe.
Theorem C20_sensor_get_safe : forall (S V : Type) (f : S -> V) s0 schedule,
  let c := exec S V f site_sensor_get (mkSh None (Some s0) 0) schedule in
  (forall t, c_th c t <> Failed) /\ (forall t lo, c_th c t = Done lo -> lres lo = Some (f s0)) /\
  (c_lock c = None -> c_hist c <> [] -> ncomp (c_sh c) = 1).
Proof. exact sensor_get_safe. Qed.
Print Assumptions C20_sensor_get_safe.

(* the lock is necessary: the same body without mutual exclusion fails on a concrete 2-thread schedule *)
Theorem C20_unlocked_refuted :
  exists schedule t, c_th (exec_nolock nat nat Datatypes.S site_dask (mkSh None (Some 41) 0) schedule) t = Failed.
Proof. exact unlocked_refuted. Qed.
Print Assumptions C20_unlocked_refuted.

(* re-entrancy: the thread that holds the sensor-cache lock can take it again (virtual sensors look up other
   sensors) and releasing restores the previous state; another thread is excluded *)
Theorem C20_rlock_reentrancy : forall t d,
  r_acquire (Some (t, d)) t = Some (Some (t, Datatypes.S d)) /\
  r_release (Some (t, Datatypes.S (Datatypes.S d))) t = Some (Some (t, Datatypes.S d)) /\
  r_acquire None t = Some (Some (t, 1)) /\ r_release (Some (t, 1)) t = Some None.
Proof. exact rlock_reentrancy. Qed.
Print Assumptions C20_rlock_reentrancy.
Theorem C20_rlock_excludes : forall h t d, h <> t ->
  r_acquire (Some (h, d)) t = None /\ r_release (Some (h, d)) t = None.
Proof. exact rlock_excludes. Qed.
Print Assumptions C20_rlock_excludes.

(* instantiating a virtual sensor: the creating function runs inside SensorCache.get's `with self._lock:` and calls
   cache.get / cache[...] = ... itself.  With the lock kind found in the source every well-bracketed nest of critical
   sections by the holder goes through and leaves the lock free; with a plain Lock the first nested lookup never returns *)
Theorem C20_virtual_sensor_nesting : forall t prog, bracketed 0 prog = true ->
  run_nest sensor_lock_kind None t prog = Some None.
Proof. exact nested_ok. Qed.
Print Assumptions C20_virtual_sensor_nesting.
Theorem C20_plain_lock_nesting_refuted : exists prog, bracketed 0 prog = true /\ run_nest 1 None 0 prog = None.
Proof. exact nested_plain_lock_refuted. Qed.
Print Assumptions C20_plain_lock_nesting_refuted.

(* session pool, with get/put AS TRANSLATED from _Pool (which end of the list, which branch of the emptiness test):
   after ANY sequence of get/put operations by any threads nothing has raised, no item is lent twice or both lent and
   free (NoDup over free ++ held), and every item was produced by the factory *)
Theorem C20_pool_exclusive : forall ops,
  let p := fold_left pool_step ops pool_init in
  p_err p = false /\ NoDup (p_free p ++ map snd (p_held p)) /\
  forall x, In x (p_free p ++ map snd (p_held p)) -> x < p_next p.
Proof. exact pool_exclusive. Qed.
Print Assumptions C20_pool_exclusive.
Theorem C20_pool_peek_refuted : exists ops, ~ NoDup (items (fold_left (pool_step_c 0 3 0) ops pool_init)).
Proof. exact pool_peek_refuted. Qed.
Print Assumptions C20_pool_peek_refuted.
Theorem C20_pool_inverted_test_refuted : exists ops, p_err (fold_left (pool_step_c 1 0 0) ops pool_init) = true.
Proof. exact pool_inverted_refuted. Qed.
Print Assumptions C20_pool_inverted_test_refuted.

(* ---------- "Loading data with the multi-threaded scheduler returns the same arrays as a single-threaded load" ---------- *)
(* A load is the evaluation of a task graph listed in topological order whose tasks are functions of their dependencies'
   results (chunk reads: of nothing).  crun is dask's local scheduler for ANY number of workers: an arbitrary list of
   Start w i (hand task i and the cached results of its dependencies to worker w) / Finish w (publish w's result).
   SAFETY: whatever the schedule, every published result is the single-threaded one. *)
Theorem C20_sched_sound : forall (V : Type) (g : graph V) es i v,
  wf V g = true -> c_done (crun V g es) i = Some v -> seq_run V g i = Some v.
Proof. exact sched_sound. Qed.
Print Assumptions C20_sched_sound.
(* THE CLAUSE: a finished load under any schedule of any number of workers returns, for every task (hence for the output
   arrays), what the one-worker, one-task-at-a-time load returns *)
Theorem C20_threaded_load_eq_single : forall (V : Type) (g : graph V) es,
  wf V g = true -> all_done V g (crun V g es) = true ->
  forall i, i < List.length g -> c_done (crun V g es) i = c_done (crun V g (sync_events (List.length g))) i.
Proof. exact threaded_eq_single. Qed.
Print Assumptions C20_threaded_load_eq_single.
Theorem C20_sync_is_sequential : forall (V : Type) (g : graph V),
  wf V g = true -> forall i, c_done (crun V g (sync_events (List.length g))) i = seq_run V g i.
Proof. exact sync_is_seq. Qed.
Print Assumptions C20_sync_is_sequential.
(* no task is handed out twice; an unfinished load can always continue (no schedule deadlocks the scheduler) *)
Theorem C20_sched_once : forall (V : Type) (g : graph V) es, wf V g = true -> NoDup (c_started (crun V g es)).
Proof. exact sched_once. Qed.
Print Assumptions C20_sched_once.
Theorem C20_sched_progress : forall (V : Type) (g : graph V) es, wf V g = true ->
  let s := crun V g es in all_done V g s = true \/ exists e, fire V g s e <> None.
Proof. exact sched_progress. Qed.
Print Assumptions C20_sched_progress.
(* the output stage (da.store(..., lock=False) in DaskLazyIndexer.get): cell writes to pairwise distinct positions give
   the same array in ANY order, i.e. for any interleaving of the chunk tasks at element granularity; distinctness is
   necessary *)
Theorem C20_store_order_independent : forall (V : Type) ws ws' (t : vmap V),
  NoDup (map fst ws) -> Permutation ws ws' -> forall p, apply_writes V ws t p = apply_writes V ws' t p.
Proof. exact writes_order_independent. Qed.
Print Assumptions C20_store_order_independent.
Theorem C20_store_overlap_refuted :
  exists ws ws' p, Permutation ws ws' /\ apply_writes nat ws (vempty nat) p <> apply_writes nat ws' (vempty nat) p.
Proof. exact writes_overlap_refuted. Qed.
Print Assumptions C20_store_overlap_refuted.

(* ====================================================================================================================
   EXTENSION: the remaining lazily initialised / shared mutable sites reachable from the accesses the property lists
   ==================================================================================================================== *)

(* GENERIC GUARDED OBJECT: any shared state, any thread-local state, ANY deterministic `line` function (one source line
   of the critical section, which may end normally -- also with a legitimate exception -- or crash): for every number of
   threads and every schedule the interleaved run is the serial run of the sections in the order in which they were left *)
Theorem C20_guarded_serializable : forall (Sh Lo : Type) (line : Sh -> Lo -> act Sh Lo) (start : nat -> Lo) sh0 schedule,
  GInv Sh Lo line start sh0 (gexec Sh Lo line start sh0 schedule).
Proof. exact g_serializable. Qed.
Print Assumptions C20_guarded_serializable.

(* ---------- extracting sensors / instantiating virtual sensors: the sensor cache as a memoised DAG ---------- *)
(* VALUES, for every well-founded set of virtual-sensor templates g, every set of threads asking for any names (existing
   or not) and EVERY interleaving -- even if no lock were taken at all: nothing crashes, every cached value and every
   value a virtual-sensor function has fetched so far is the single-thread value (consistent state at every line), every
   thread that returned got the single-thread value of its name, KeyError exactly for names nothing creates *)
Theorem C20_sensor_values_any_interleaving : forall (V : Type) (g : graph V) virt want lookup_first schedule,
  wf V g = true ->
  let c := uexec _ _ (mline V g virt true lookup_first) (mstart V want) (m0 V) schedule in
  (forall t, g_th c t <> GFail) /\
  (forall t lo, g_th c t = GDone lo -> mpost V g want t lo) /\
  cons V g (g_sh c) /\
  (forall t lo, g_th c t = GIn lo -> Jl V g want t lo).
Proof. intros V g virt want lf schedule Hwf. exact (memo_values_safe V g virt want Hwf lf schedule). Qed.
Print Assumptions C20_sensor_values_any_interleaving.
(* ONCE, with the lock of the kind found in the source and the look-up-before-templates order found in the source: the same
   for the locked machine, and whenever the lock is free every cached name has been created exactly once, the others never;
   a thread inside holds the lock and the names it is creating are not in the cache yet *)
Theorem C20_sensor_created_once : forall (V : Type) (g : graph V) virt want schedule,
  wf V g = true ->
  let c := gexec _ _ (mline V g virt sensor_reentrant c20_sensor_get_lookup_first) (mstart V want) (m0 V) schedule in
  (forall t, g_th c t <> GFail) /\
  (forall t lo, g_th c t = GDone lo -> mpost V g want t lo) /\
  (g_lock c = None -> IL V g (g_sh c)) /\
  (forall t lo, g_th c t = GIn lo -> g_lock c = Some t /\ JL V g want t (g_sh c) lo).
Proof. intros V g virt want schedule Hwf. exact (memo_locked_once V g virt want Hwf schedule). Qed.
Print Assumptions C20_sensor_created_once.
Theorem C20_sensor_count_le_1 : forall (V : Type) (g : graph V) virt want schedule k,
  wf V g = true ->
  m_count (g_sh (gexec _ _ (mline V g virt sensor_reentrant c20_sensor_get_lookup_first) (mstart V want) (m0 V) schedule)) k <= 1.
Proof. intros V g virt want schedule k Hwf. exact (memo_count_le_1 V g virt want Hwf schedule k). Qed.
Print Assumptions C20_sensor_count_le_1.
(* NOTHING HANGS: in every reachable configuration the thread that is inside completes its request by its own lines
   alone (every nested acquisition succeeds, the recursion through the templates ends) *)
Theorem C20_sensor_holder_finishes : forall (V : Type) (g : graph V) virt want schedule,
  wf V g = true ->
  let c := gexec _ _ (mline V g virt sensor_reentrant c20_sensor_get_lookup_first) (mstart V want) (m0 V) schedule in
  forall t lo, g_th c t = GIn lo ->
  exists sh' lo', cs_run _ _ (mline V g virt sensor_reentrant c20_sensor_get_lookup_first) (g_sh c) lo sh' (OFin lo').
Proof. intros V g virt want schedule Hwf. exact (memo_holder_finishes V g virt want Hwf true schedule). Qed.
Print Assumptions C20_sensor_holder_finishes.
(* what the lock, its kind, the look-up order and well-foundedness buy (each: a concrete counter-example) *)
Theorem C20_sensor_unlocked_twice_refuted :
  exists schedule, m_count (g_sh (uexec _ _ (mline nat g2 (fun k => Nat.eqb k 1) true true) (mstart nat (fun _ => 0)) (m0 nat) schedule)) 0 = 2.
Proof. exact memo_unlocked_twice. Qed.
Print Assumptions C20_sensor_unlocked_twice_refuted.
Theorem C20_sensor_plain_lock_refuted :
  exists schedule, g_th (gexec _ _ (mline nat g2 (fun k => Nat.eqb k 1) false true) (mstart nat (fun _ => 1)) (m0 nat) schedule) 0 = GFail.
Proof. exact memo_plain_lock_crashes. Qed.
Print Assumptions C20_sensor_plain_lock_refuted.
Theorem C20_sensor_templates_first_refuted :
  exists schedule, m_count (g_sh (gexec _ _ (mline nat g2 (fun k => Nat.eqb k 1) true false) (mstart nat (fun _ => 0)) (m0 nat) schedule)) 0 = 2.
Proof. exact memo_templates_first_twice. Qed.
Print Assumptions C20_sensor_templates_first_refuted.
Theorem C20_sensor_cycle_refuted :
  run_cs _ _ (mline nat [mkTask [0] (fun _ => 0)] (fun _ => true) true true) 300 (m0 nat) (mstart nat (fun _ => 0) 0) = None.
Proof. exact memo_cycle_refuted. Qed.
Print Assumptions C20_sensor_cycle_refuted.
(* non-vacuity: two threads, a virtual sensor built from a raw one, an interleaved schedule: both finish with the
   single-thread values, both names created once *)
Theorem C20_sensor_example :
  let c := gexec _ _ (mline nat g2 (fun k => Nat.eqb k 1) sensor_reentrant c20_sensor_get_lookup_first)
                 (mstart nat (fun t => 1 - t)) (m0 nat) [0; 0; 1; 0; 0; 0; 1; 0; 0; 0; 0; 1; 1; 1; 1] in
  option_map (mresult nat) (match g_th c 0 with GDone lo => Some lo | _ => None end) = Some (Some 8) /\
  option_map (mresult nat) (match g_th c 1 with GDone lo => Some lo | _ => None end) = Some (Some 7) /\
  map (m_count (g_sh c)) [0; 1] = [1; 1].
Proof. exact memo_example. Qed.
Print Assumptions C20_sensor_example.
(* every virtual-sensor function of katdal (dataset.py, h5datav1-3.py, visdatav4.py), AS TRANSLATED, has the shape of a
   frame of the machine: fetch all inputs with cache.get, compute, store complete values, return a stored value -- no
   fetch after the first store, no in-place change of a fetched (cached) input; the statement discriminates *)
Theorem C20_virtual_functions_fit : forallb (fun p => skel_ok (snd p)) c20_virtual_fn_skeletons = true.
Proof. exact virtual_functions_fit. Qed.
Print Assumptions C20_virtual_functions_fit.
Theorem C20_virtual_functions_fit_example :
  skel_ok [4; 1; 1; 4; 2; 2; 3]%Z = true /\ skel_ok [1; 2; 1; 3]%Z = false /\ skel_ok [1; 2; 5]%Z = false /\ skel_ok [1; 6; 2; 3]%Z = false.
Proof. exact skel_ok_example. Qed.
Print Assumptions C20_virtual_functions_fit_example.

(* ---------- the wildcard property map (_get_props AS TRANSLATED: own entry, one pass over the map, return) ---------- *)
(* inside a lock, for any initial map, any classification of its keys into patterns and names, any threads extracting any
   sensors: the iteration never meets a map that changed size (RuntimeError), every thread merges exactly the pattern
   entries a single thread would, the pattern entries are never disturbed *)
Theorem C20_props_locked_safe : forall wild name sh0 schedule,
  (forall t, wild (name t) = false) ->
  let c := gexec _ _ pline (pstart c20_props_code name) sh0 schedule in
  (forall t, g_th c t <> GFail) /\
  (forall t lo, g_th c t = GDone lo -> PPost wild sh0 t lo) /\
  (g_lock c = None -> PI wild sh0 (g_sh c)) /\
  (forall t lo, g_th c t = GIn lo -> g_lock c = Some t /\ PJ wild name sh0 c20_props_code t (g_sh c) lo).
Proof. intros wild name sh0 schedule Hn. exact (props_locked_safe wild name Hn sh0 c20_props_code props_code_is_ok schedule). Qed.
Print Assumptions C20_props_locked_safe.
(* FINDING C20-F1 (repaired on branch fix-C20x): ConcatenatedSensorCache.get ran this code on its merged map with no lock *)
Theorem C20_props_unlocked_refuted :
  exists schedule, g_th (uexec _ _ pline (pstart c20_props_code (fun t => 5 + t)) [9] schedule) 0 = GFail.
Proof. exact props_unlocked_refuted. Qed.
Print Assumptions C20_props_unlocked_refuted.
Theorem C20_props_example :
  let c := gexec _ _ pline (pstart c20_props_code (fun t => 5 + t)) [9; 2] [0; 0; 0; 1; 1; 0; 0; 0; 0; 0; 0; 0; 1; 1; 1; 1; 1; 1; 1; 1; 1; 1] in
  match g_th c 0, g_th c 1 with
  | GDone a, GDone b => filter (fun k => Nat.eqb k 9) (p_seen a) = [9] /\ p_seen b = [9; 2; 5; 6]
  | _, _ => False
  end.
Proof. exact props_example. Qed.
Print Assumptions C20_props_example.
(* the merged property map of ConcatenatedSensorCache now has a guard: an RLock created once in __init__, every access
   to self.props outside __init__ inside it *)
Theorem C20_concat_props_guarded :
  c20_concat_lock_kind = 2%Z /\ c20_concat_lock_once = true /\ only_init c20_concat_props_unlocked_methods = true.
Proof. exact concat_props_guarded. Qed.
Print Assumptions C20_concat_props_guarded.

(* ---------- S3ChunkStore._verified_buckets: an UNLOCKED test / list / add on a set (statement order translated) ---------- *)
(* for every server state (status: ANY function), any threads checking any buckets, EVERY interleaving: only buckets
   that exist and are not empty are ever remembered, and every thread ends as a single thread on a fresh store would
   (StoreUnavailable for a missing or empty bucket, plain return otherwise) *)
Theorem C20_verified_buckets_safe : forall status bucket schedule,
  let c := uexec _ _ (vline status c20_verify_bucket_code) (vstart bucket) [] schedule in
  (forall t, g_th c t <> GFail) /\
  (forall t lo, g_th c t = GDone lo -> VPost status bucket t lo) /\
  VC status (g_sh c).
Proof. intros status bucket schedule. exact (verify_unlocked_safe status c20_verify_bucket_code bucket verify_code_is_ok schedule). Qed.
Print Assumptions C20_verified_buckets_safe.
Theorem C20_verified_buckets_add_first_refuted :
  exists schedule, match g_th (uexec _ _ (vline (fun _ => 0%Z) [0; 4; 1; 2; 3]%Z) (vstart (fun _ => 7)) [] schedule) 1 with
                   | GDone lo => v_out lo <> vspec (fun _ => 0%Z) 7
                   | _ => False end.
Proof. exact verify_add_first_refuted. Qed.
Print Assumptions C20_verified_buckets_add_first_refuted.
Theorem C20_verified_buckets_example :
  let c := uexec _ _ (vline (fun b => Z.of_nat b) c20_verify_bucket_code) (vstart (fun t => t)) []
                 [2; 2; 3; 3; 2; 3; 2; 3; 2; 3; 2; 3; 2; 3; 2; 3; 0; 0; 0; 1; 1; 1; 1; 1] in
  map (fun t => match g_th c t with GDone lo => v_out lo | _ => (-1)%Z end) [0; 1; 2; 3] = [2; 2; 1; 1]%Z /\ g_sh c = [3; 2].
Proof. exact verify_example. Qed.
Print Assumptions C20_verified_buckets_example.
(* the set is created empty in __init__, touched by _verify_bucket only, and get_chunk consults it on a missing object *)
Theorem C20_verified_buckets_site :
  c20_verified_buckets_users = ["__init__"%string; "_verify_bucket"%string] /\ c20_verified_buckets_init_empty = true /\
  c20_get_chunk_verifies_on_404 = true.
Proof. exact verify_site_facts. Qed.
Print Assumptions C20_verified_buckets_site.

(* ---------- the session pool across retries and back-off sleeps ---------- *)
(* ANY sequence of borrow / send / sleep / give back / lose events by any threads: the pool never raises, a session that a
   request sends through is in no other hands and not in the free list (also while its holder sleeps), made = free +
   borrowed + lost, lost only through requests that ended with an exception *)
Theorem C20_request_sessions_exclusive : forall evs,
  let r := fold_left rstep evs rinit in
  p_err (r_pool r) = false /\ r_clash r = false /\
  NoDup (p_free (r_pool r) ++ map snd (p_held (r_pool r))) /\
  p_next (r_pool r) = List.length (p_free (r_pool r)) + List.length (p_held (r_pool r)) + r_lost r /\
  r_lost r <= List.length (filter is_drop evs).
Proof. exact request_pool_safe. Qed.
Print Assumptions C20_request_sessions_exclusive.
(* one request AS TRANSLATED (sleep inside the `with`, no finally in _Pool.__call__) borrows exactly once whatever its
   attempts do; with a finally clause no session would ever be lost *)
Theorem C20_request_one_borrow : forall t outs,
  List.length (filter (fun o => match o with RGet _ => true | _ => false end)
                      (request_events c20_pool_call_finally c20_request_sleep_in_borrow t outs)) = 1.
Proof. exact (request_one_borrow c20_pool_call_finally). Qed.
Print Assumptions C20_request_one_borrow.
Theorem C20_request_no_loss_with_finally : forall s t outs, filter is_drop (request_events true s t outs) = [].
Proof. exact request_no_drop_with_finally. Qed.
Print Assumptions C20_request_no_loss_with_finally.
Theorem C20_request_example :
  let evs := request_events c20_pool_call_finally c20_request_sleep_in_borrow 0 [0; 1]%Z ++
             request_events c20_pool_call_finally c20_request_sleep_in_borrow 1 [2]%Z ++
             request_events c20_pool_call_finally c20_request_sleep_in_borrow 1 [1]%Z in
  let r := fold_left rstep evs rinit in
  p_free (r_pool r) = [1] /\ r_lost r = 1 /\ p_next (r_pool r) = 2 /\ r_unheld r = false.
Proof. exact request_example. Qed.
Print Assumptions C20_request_example.

(* ---------- several locks taken in a fixed order (nested DaskLazyIndexer objects, the concatenated sensor cache and its parts) ---------- *)
(* plain locks named by their rank; every thread asks only for a lock that ranks above all it holds, releases in reverse
   order and ends holding nothing (`ordered`).  For ANY finite set of threads, programs and schedule:
   NO DEADLOCK -- as long as some thread has not finished, some thread can take its next step;
   MUTUAL EXCLUSION -- no lock is ever held by two threads. *)
Theorem C20_lock_order_no_deadlock : forall ts prog schedule,
  (forall t, ordered [] (prog t) = true) -> (forall t, ~ In t ts -> prog t = []) ->
  let c := hexec ts (hinit prog) schedule in
  (exists t, In t ts /\ h_prog c t <> []) ->
  exists t, In t ts /\ List.length (h_prog (hstep ts c t) t) < List.length (h_prog c t).
Proof. exact hier_no_deadlock. Qed.
Print Assumptions C20_lock_order_no_deadlock.
Theorem C20_lock_order_mutex : forall ts prog schedule,
  (forall t, ordered [] (prog t) = true) -> (forall t, ~ In t ts -> prog t = []) ->
  let c := hexec ts (hinit prog) schedule in
  forall t1 t2 l, In t1 ts -> In t2 ts -> In l (h_held c t1) -> In l (h_held c t2) -> t1 = t2.
Proof. exact hier_mutex. Qed.
Print Assumptions C20_lock_order_mutex.
(* the discipline is needed (two locks, opposite orders: both threads blocked for ever); and it is not vacuous (two outer
   indexers over one inner one, interleaved, both finish) *)
Theorem C20_lock_order_unordered_refuted :
  let c := hexec [0; 1] (hinit cross) [0; 1] in
  h_prog c 0 <> [] /\ hstep [0; 1] c 0 = c /\ hstep [0; 1] c 1 = c.
Proof. exact unordered_deadlock. Qed.
Print Assumptions C20_lock_order_unordered_refuted.
Theorem C20_lock_order_example :
  (forall t, ordered [] (nested2 t) = true) /\
  let c := hexec [0; 1] (hinit nested2) [0; 1; 0; 1; 1; 0; 0; 1; 1; 1] in h_prog c 0 = [] /\ h_prog c 1 = [].
Proof. exact nested_example. Qed.
Print Assumptions C20_lock_order_example.

(* ---------- non-vacuity of the first-round theorems: concrete finished runs ---------- *)
Theorem C20_lazy_init_example :
  let c := exec nat nat Datatypes.S site_dask (mkSh None (Some 41) 0) [0; 1; 0; 1; 0; 0; 1; 0; 0; 0; 0; 0; 0; 1; 1; 1; 1; 1; 1; 1; 1; 1; 1] in
  done_val (c_th c 0) = Some 42 /\ done_val (c_th c 1) = Some 42 /\ ncomp (c_sh c) = 1 /\ c_lock c = None.
Proof. exact lazy_init_example. Qed.
Print Assumptions C20_lazy_init_example.
Theorem C20_pool_example :
  let p := fold_left pool_step [PGet 0; PGet 1; PPut 0; PGet 2; PPut 1; PPut 2] pool_init in
  p_next p = 2 /\ p_held p = [] /\ List.length (p_free p) = 2 /\ p_err p = false.
Proof. exact pool_example. Qed.
Print Assumptions C20_pool_example.
Theorem C20_sched_example :
  let es := [Start 0 0; Finish 0; Start 1 2; Start 0 1; Finish 1; Finish 0; Start 1 3; Finish 1] in
  wf nat gdia = true /\ all_done nat gdia (crun nat gdia es) = true /\
  map (c_done (crun nat gdia es)) [0; 1; 2; 3] = [Some 3; Some 13; Some 23; Some 299] /\
  map (seq_run nat gdia) [0; 1; 2; 3] = [Some 3; Some 13; Some 23; Some 299].
Proof. exact sched_example. Qed.
Print Assumptions C20_sched_example.

(* ---------- threads RUNNING request programs against the pool ---------- *)
(* ANY threads, each running ANY sequence of S3ChunkStore.request calls with ANY attempt outcomes (retried / succeeded /
   raised / retries exhausted), whatever the two translated flags are, under EVERY interleaving: the pool never raises, no
   attempt is sent without a borrowed session or through a session that is free or in other hands; once every thread has
   finished nothing is borrowed any more and made = free + lost *)
Theorem C20_requests_safe : forall fin sleep_in (reqs : nat -> list (list Z)) schedule,
  let c := rcexec (fun t => thread_prog fin sleep_in t (reqs t)) schedule in
  let r := rc_pool c in
  p_err (r_pool r) = false /\ r_clash r = false /\ r_unheld r = false /\
  ((forall t, rc_rem c t = []) -> p_held (r_pool r) = [] /\ p_next (r_pool r) = List.length (p_free (r_pool r)) + r_lost r).
Proof. exact requests_safe. Qed.
Print Assumptions C20_requests_safe.
Theorem C20_requests_example :
  let reqs := fun t : nat => match t with 0 => [[0%Z; 1%Z]; [1%Z]] | 1 => [[2%Z]; [0%Z; 0%Z; 1%Z]] | 2 => [[1%Z]] | _ => [] end in
  let c := rcexec (fun t => thread_prog c20_pool_call_finally c20_request_sleep_in_borrow t (reqs t))
                  [0; 1; 2; 0; 1; 1; 2; 2; 0; 0; 0; 1; 1; 0; 0; 0; 1; 1; 1; 1; 1; 1; 1; 1] in
  (forall t, t < 3 -> rc_rem c t = []) /\ r_lost (rc_pool c) = 1 /\ p_next (r_pool (rc_pool c)) = 3 /\
  List.length (p_free (r_pool (rc_pool c))) = 2.
Proof. exact requests_example. Qed.
Print Assumptions C20_requests_example.

(* ================================================================================================================ *)
(* strengthening round: state that OUTLIVES A CALL at the sites reached by a multi-threaded load                      *)
(* ================================================================================================================ *)
(* PER-CALL STATE ONLY => INTERLEAVING-INDEPENDENT.  For EVERY shared state, thread-local state and deterministic `line`
   function that never changes the shared state (every write goes to objects the call made itself), any number of
   threads, EVERY schedule, NO lock: the shared state stays what it was, a thread that has finished (normally or with an
   exception) ended exactly as it ends when it runs ALONE, a thread that is running has so far done what it does alone *)
Theorem C20_percall_interleaving_independent :
  forall (Sh Lo : Type) (line : Sh -> Lo -> act Sh Lo) (start : nat -> Lo), readonly Sh Lo line ->
  forall sh0 schedule,
  let c := uexec Sh Lo line start sh0 schedule in
  g_sh c = sh0 /\
  (forall t lo, g_th c t = GDone lo -> cs_run Sh Lo line sh0 (start t) sh0 (OFin lo)) /\
  (forall t, g_th c t = GFail -> cs_run Sh Lo line sh0 (start t) sh0 OCrash) /\
  (forall t lo, g_th c t = GIn lo -> lines Sh Lo line sh0 (start t) sh0 lo).
Proof. exact percall_interleaving_independent. Qed.
Print Assumptions C20_percall_interleaving_independent.
(* instance: the block function of the applycal corrections (_correction_block: one calc_correction_per_corrprod per
   dump) -- any gain function g of (parameters, solution interval, channel chunk), any number of dask workers computing any
   blocks over the ONE CorrectionParams object of the graph, every interleaving: every block is the single-threaded block *)
Theorem C20_correction_blocks_any_interleaving :
  forall (P V : Type) (g : P -> nat -> nat -> V) (sol : nat -> nat) p blocks schedule,
  let c := uexec P (blocal V) (bline P V g sol) (bstart V blocks) p schedule in
  g_sh c = p /\ (forall t, g_th c t <> GFail) /\
  forall t lo, g_th c t = GDone lo -> bl_out lo = block_spec P V g sol p (blocks t).
Proof. exact blocks_any_interleaving. Qed.
Print Assumptions C20_correction_blocks_any_interleaving.
(* the block functions dask runs (applycal, vis_flags_weights) AS TRANSLATED consist of reads of shared state, call-local
   statements, returns of fresh objects / of arguments and writes that are modelled (an output parameter whose callers
   pass a fresh array; copy on first write); and every write to an object that outlives its call, in all the files whose
   functions run in worker threads or behind the first-time accesses, is one of the sites a theorem above covers *)
Theorem C20_worker_functions_per_call_state :
  forallb (fun s => percall_code_ok (snd s)) c20_worker_fn_skeletons = true /\
  c20_outparam_callers_fresh = true /\ c20_copy_on_write_ok = true.
Proof. exact worker_functions_per_call. Qed.
Print Assumptions C20_worker_functions_per_call_state.
Theorem C20_worker_functions_listed :
  map fst c20_worker_fn_skeletons =
  ["applycal._correction_block"; "applycal.calc_correction_per_corrprod"; "applycal._correction_inputs_to_corrprods";
   "applycal.apply_vis_correction"; "applycal.apply_weights_correction"; "applycal.apply_flags_correction";
   "vis_flags_weights._default_zero"; "vis_flags_weights._apply_data_lost"; "vis_flags_weights._narrow";
   "vis_flags_weights.weight_power_scale"]%string.
Proof. exact worker_functions_listed. Qed.
Print Assumptions C20_worker_functions_listed.
Theorem C20_shared_writes_modelled : c20_shared_writes_unmodelled = [].
Proof. exact shared_writes_modelled. Qed.
Print Assumptions C20_shared_writes_modelled.
(* what a "same as last call" memo on the shared parameter object does without a lock (the answer is read one line after
   the question was compared; question and answer are stored by two lines): a hit returns ANOTHER call's answer *)
Theorem C20_memo_unlocked_refuted :
  exists schedule,
    let c := uexec _ _ (memo_line nat nat g_ex sol_ex) (mstart_memo nat blocks_ex) (mkMemo 7 None None) schedule in
    match g_th c 0 with
    | GDone lo => bl_out (ml_b lo) <> block_spec nat nat g_ex sol_ex 7 (blocks_ex 0)
    | _ => False
    end.
Proof. exact memo_unlocked_refuted. Qed.
Print Assumptions C20_memo_unlocked_refuted.
Theorem C20_memo_half_done_refuted :
  exists schedule,
    let c := uexec _ _ (memo_line nat nat g_ex sol_ex) (mstart_memo nat blocks_ex2) (mkMemo 7 None None) schedule in
    match g_th c 1 with
    | GDone lo => bl_out (ml_b lo) <> block_spec nat nat g_ex sol_ex 7 (blocks_ex2 1)
    | _ => False
    end.
Proof. exact memo_half_done_refuted. Qed.
Print Assumptions C20_memo_half_done_refuted.
(* ... and inside a lock: any gain function, blocks, threads, schedule -- every block is the single-threaded block *)
Theorem C20_memo_locked_safe :
  forall (P V : Type) (g : P -> nat -> nat -> V) (sol : nat -> nat) (p0 : P) blocks schedule,
  let c := gexec (memo P V) (mlocal V) (memo_line P V g sol) (mstart_memo V blocks) (mkMemo p0 None None) schedule in
  (forall t, g_th c t <> GFail) /\
  forall t lo, g_th c t = GDone lo -> bl_out (ml_b lo) = block_spec P V g sol p0 (blocks t).
Proof. exact memo_locked_safe. Qed.
Print Assumptions C20_memo_locked_safe.

(* THE RETRY BUDGET OF A REQUEST IS NOT SHARED BETWEEN IN-FLIGHT REQUESTS.  ANY sequence of borrow / store-budget / send /
   sleep / give-back / lose events by any threads, the adapters being what the session factory AS TRANSLATED makes them (one
   per session): no attempt is ever sent with a budget other than the one its own request stored in the adapter of the
   session it holds; what a thread has stored stays in that slot as long as it holds the session *)
Theorem C20_retry_budget_private : forall evs,
  let b := bexec adapter_of evs in
  b_foreign b = false /\
  (forall t v, b_set b t = Some v -> exists x, held_by t (r_pool (b_r b)) = Some x /\ b_slot b (adapter_of x) = v) /\
  r_clash (b_r b) = false /\ p_err (r_pool (b_r b)) = false.
Proof. exact retry_budget_private. Qed.
Print Assumptions C20_retry_budget_private.
(* threads RUNNING request programs (any budgets, any attempt outcomes, either value of the finally / sleep flags), the
   budget stored before every attempt, every interleaving: additionally no attempt goes out before its own budget is in
   place or without a borrowed session *)
Theorem C20_retry_budget_requests_safe : forall fin sl (reqs : nat -> list (Z * list Z)) schedule,
  let c := bcexec adapter_of (fun t => bthread_prog fin sl true t (reqs t)) schedule in
  b_foreign (bc_st c) = false /\ b_unset (bc_st c) = false /\
  r_unheld (b_r (bc_st c)) = false /\ r_clash (b_r (bc_st c)) = false /\ p_err (r_pool (b_r (bc_st c))) = false.
Proof. exact retry_budget_requests_safe. Qed.
Print Assumptions C20_retry_budget_requests_safe.
(* the source: the factory attaches nothing to a session that it did not make itself except the (stateless) authentication
   handler and the URL; the adapter is made per session; request() stores the budget before every attempt *)
Theorem C20_session_parts :
  c20_session_shared_parts = ["auth"; "url"]%string /\ c20_auth_state_writes = [] /\
  c20_adapter_per_session = true /\ c20_request_sets_budget_first = true.
Proof. exact session_parts. Qed.
Print Assumptions C20_session_parts.
(* what each ingredient buys: ONE adapter for all sessions -> an attempt goes out with another request's budget (although
   no session is ever in two hands); the budget not stored before the attempt -> an attempt goes out with what was left *)
Theorem C20_retry_budget_shared_adapter_refuted :
  exists evs, b_foreign (bexec (fun _ => 0) evs) = true /\ r_clash (b_r (bexec (fun _ => 0) evs)) = false.
Proof. exact budget_shared_refuted. Qed.
Print Assumptions C20_retry_budget_shared_adapter_refuted.
Theorem C20_retry_budget_shared_requests_refuted :
  exists schedule,
    let prog := fun t : nat => match t with
                               | 0 => brequest false true true 0 2%Z [1%Z]
                               | 1 => brequest false true true 1 2%Z [0%Z; 1%Z]
                               | _ => [] end in
    b_foreign (bc_st (bcexec (fun _ => 0) prog schedule)) = true /\
    b_foreign (bc_st (bcexec (fun x => x) prog schedule)) = false.
Proof. exact budget_shared_requests_refuted. Qed.
Print Assumptions C20_retry_budget_shared_requests_refuted.
Theorem C20_retry_budget_not_stored_refuted :
  b_unset (bexec (fun x => x) (bthread_prog false true false 0 [(2%Z, [1%Z])])) = true.
Proof. exact budget_not_stored_refuted. Qed.
Print Assumptions C20_retry_budget_not_stored_refuted.
Theorem C20_retry_budget_example :
  let prog := fun t : nat => match t with
                             | 0 => bthread_prog c20_pool_call_finally c20_request_sleep_in_borrow c20_request_sets_budget_first 0
                                                 [(2%Z, [0%Z; 1%Z]); (0%Z, [1%Z])]
                             | 1 => bthread_prog c20_pool_call_finally c20_request_sleep_in_borrow c20_request_sets_budget_first 1
                                                 [(2%Z, [0%Z; 0%Z; 1%Z])]
                             | _ => [] end in
  let c := bcexec adapter_of prog [0; 1; 0; 1; 1; 0; 0; 1; 1; 0; 0; 1; 1; 1; 1; 0; 0; 0; 0; 0; 1; 1; 1] in
  (forall t, t < 2 -> bc_rem c t = []) /\ b_foreign (bc_st c) = false /\ b_unset (bc_st c) = false /\
  p_next (r_pool (b_r (bc_st c))) = 2.
Proof. exact budget_example. Qed.
Print Assumptions C20_retry_budget_example.

(* ================================================================================================================ *)
(* round 4: what the tasks of one graph are handed (shared, mutable, written = data race at any granularity)         *)
Theorem C20_block_buffers_race_free :
  forall (V : Type) (bind : nat -> nat -> ScratchRace.buf) (prog : nat -> list (ScratchRace.op V)),
    ScratchRace.race_free V bind prog -> forall m0 sched t,
    let c := ScratchRace.exec V bind prog m0 sched in
    let r := ScratchRace.solo V bind prog m0 t (ScratchRaceP.count t sched) in
    ScratchRace.c_th V c t = snd r /\ forall p, ScratchRace.touches V (prog t) p = true -> forall i, ScratchRace.c_mem V c (bind t p) i = fst r (bind t p) i.
Proof. exact ScratchRaceP.race_free_solo. Qed.
Print Assumptions C20_block_buffers_race_free.
Theorem C20_graph_binding_race_free : forall V (bound : nat -> bool) (prog : nat -> list (ScratchRace.op V)),
  (forall t p, ScratchRace.writes V (prog t) p = true -> bound p = false) -> ScratchRace.race_free V (ScratchRace.bind_graph bound) prog.
Proof. exact ScratchRaceP.bind_graph_race_free. Qed.
Print Assumptions C20_graph_binding_race_free.
Theorem C20_block_args_read_only : ScratchRace.block_calls_ok c20_block_calls = true.
Proof. exact ScratchRaceP.block_args_read_only. Qed.
Print Assumptions C20_block_args_read_only.
Theorem C20_block_tasks_any_interleaving : forall V c (prog : nat -> list (ScratchRace.op V)),
  In c c20_block_calls -> (forall t, ScratchRace.respects c (prog t)) ->
  forall m0 sched t,
    let bind := ScratchRace.bind_graph (ScratchRace.call_bound c) in
    let cf := ScratchRace.exec V bind prog m0 sched in
    let r := ScratchRace.solo V bind prog m0 t (ScratchRaceP.count t sched) in
    ScratchRace.c_th V cf t = snd r /\ forall p, ScratchRace.touches V (prog t) p = true -> forall i, ScratchRace.c_mem V cf (bind t p) i = fst r (bind t p) i.
Proof. exact ScratchRaceP.block_tasks_any_interleaving. Qed.
Print Assumptions C20_block_tasks_any_interleaving.
Theorem C20_scale_weights_call_listed :
  exists c, In c c20_block_calls /\ fst c = "vis_flags_weights.py:_scale_weights:blockwise:weight_power_scale"%string /\
            map fst (snd c) = ["vis"; "weights"; "auto_indices"; "index1"; "index2"; "divide"]%string.
Proof. exact ScratchRaceP.scale_weights_call_listed. Qed.
Print Assumptions C20_scale_weights_call_listed.
Theorem C20_kernel_written_params :
  c20_kernel_written_params =
  [("vis_flags_weights.py:weight_power_scale", ["out"]); ("applycal.py:_correction_inputs_to_corrprods", ["g_per_cp"]);
   ("applycal.py:apply_vis_correction", []); ("applycal.py:apply_weights_correction", []);
   ("applycal.py:apply_flags_correction", [])]%string.
Proof. exact ScratchRaceP.kernel_written_params. Qed.
Print Assumptions C20_kernel_written_params.
Theorem C20_shared_scratch_refuted :
  exists sched, ScratchRaceP.ex_out (fun p => p =? 2) sched 0 <> ScratchRaceP.ex_out (fun p => p =? 2) (filter (fun t => t =? 0) sched) 0 /\
                ScratchRaceP.ex_out (fun _ => false) sched 0 = ScratchRaceP.ex_out (fun _ => false) (filter (fun t => t =? 0) sched) 0.
Proof. exact ScratchRaceP.shared_scratch_refuted. Qed.
Print Assumptions C20_shared_scratch_refuted.
Example C20_private_scratch_example :
  let sched := repeat 0 4 ++ repeat 1 4 ++ repeat 0 12 ++ repeat 1 12 in
  ScratchRaceP.ex_out (fun _ => false) sched 0 = [4; 6; 9]%Z /\ ScratchRaceP.ex_out (fun _ => false) sched 1 = [25; 35; 49]%Z /\
  ScratchRaceP.ex_out (fun p => p =? 2) sched 0 = [25; 35; 49]%Z.
Proof. exact ScratchRaceP.private_scratch_example. Qed.
Print Assumptions C20_private_scratch_example.

(* round 4: a test made OUTSIDE a lock on state that is written UNDER it (recursion guard of the virtual sensors)       *)
Theorem C20_guard_test_safe : forall pos want len, pos <> GuardTest.GOutside -> forall sched,
  let c := GuardTest.gexec pos want len sched in
  (forall t, GuardTest.g_th c t <> GuardTest.TRaised) /\
  (forall t, GuardTest.g_th c t = GuardTest.TDone -> In (want t) (GuardTest.g_cached c)) /\
  (GuardTest.g_holder c = None -> GuardTest.g_busy c = []) /\
  (forall t, GuardTest.inside (GuardTest.g_th c t) = true <-> GuardTest.g_holder c = Some t).
Proof. exact GuardTestP.guard_safe. Qed.
Print Assumptions C20_guard_test_safe.
Theorem C20_sensor_no_spurious_keyerror : forall want len sched,
  let c := GuardTest.gexec GuardTest.sensor_guard_pos want len sched in
  (forall t, GuardTest.g_th c t <> GuardTest.TRaised) /\
  (forall t, GuardTest.g_th c t = GuardTest.TDone -> In (want t) (GuardTest.g_cached c)) /\
  (GuardTest.g_holder c = None -> GuardTest.g_busy c = []) /\
  (forall t, GuardTest.inside (GuardTest.g_th c t) = true <-> GuardTest.g_holder c = Some t).
Proof. exact GuardTestP.sensor_no_spurious_keyerror. Qed.
Print Assumptions C20_sensor_no_spurious_keyerror.
Theorem C20_guard_test_outside_refuted :
  exists sched, GuardTest.g_th (GuardTest.gexec GuardTest.GOutside (fun _ => 7) (fun _ => 2) sched) 1 = GuardTest.TRaised /\
                GuardTest.g_th (GuardTest.gexec GuardTest.GOutside (fun _ => 7) (fun _ => 2) (filter (fun t => t =? 1) (sched ++ repeat 1 8))) 1 = GuardTest.TDone /\
                GuardTest.g_th (GuardTest.gexec GuardTest.GInside (fun _ => 7) (fun _ => 2) (sched ++ repeat 0 8 ++ repeat 1 8)) 1 = GuardTest.TDone.
Proof. exact GuardTestP.guard_outside_refuted. Qed.
Print Assumptions C20_guard_test_outside_refuted.
Example C20_guard_test_inside_example :
  let c := GuardTest.gexec GuardTest.GInside (fun t => match t with 0 => 7 | 1 => 7 | _ => 9 end) (fun _ => 2)
             ([0; 0; 0; 1; 2; 1; 0; 2] ++ repeat 0 8 ++ repeat 1 10 ++ repeat 2 10) in
  GuardTest.g_th c 0 = GuardTest.TDone /\ GuardTest.g_th c 1 = GuardTest.TDone /\ GuardTest.g_th c 2 = GuardTest.TDone /\
  GuardTest.g_busy c = [] /\ GuardTest.g_cached c = [9; 7].
Proof. exact GuardTestP.guard_inside_example. Qed.
Print Assumptions C20_guard_test_inside_example.
Theorem C20_outside_lock_mentions_listed :
  c20_outside_lock_mentions =
  [("sensor", ["add_aliases:_raw"; "__iter__:_raw"; "__len__:_raw"]); ("concat", []); ("dask", []); ("spw", []); ("pool", [])]%string
  /\ c20_guarded_derived =
  [("sensor", ["_raw"; "timestamps"]); ("concat", []); ("dask", ["_dataset"; "_orig_dataset"]); ("spw", ["_channel_freqs"]);
   ("pool", ["_pool"])]%string
  /\ c20_sensor_get_pretests = [].
Proof. exact GuardTestP.outside_lock_mentions_listed. Qed.
Print Assumptions C20_outside_lock_mentions_listed.
