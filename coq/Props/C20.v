(* C20 — Lazily initialised shared state is safe under every thread interleaving.  Statements only. *)
From Coq Require Import List Arith Bool ZArith Permutation.
From KV Require Import Base.Sx Gen.Generated Model.LazyInit Proofs.LazyInitP Model.TaskGraph Proofs.TaskGraphP.
Import ListNotations.
Close Scope Z_scope.
Open Scope nat_scope.

(* SERIALISABILITY, for every body, every number of threads and every schedule: threads that each run
   `Acquire; body; Release` one source line at a time behave as if the critical sections ran one after the
   other in the order of lock acquisition (c_hist): the shared state is the serial one, the lock holder is
   exactly a partial serial run, every finished thread has the local result of its serial run. *)
Theorem C20_serializable : forall (S V : Type) (f : S -> V) body sh0 schedule,
  Inv S V f body sh0 (exec S V f body sh0 schedule).
Proof. exact serializable. Qed.
Print Assumptions C20_serializable.

(* LAZY INITIALISATION: if the body satisfies the sequential contract of a lazily-initialising accessor,
   then for every schedule of any number of threads: nothing raises, every thread that has returned got the
   value a single thread would get (f s0), and whenever no thread is inside, the value was initialised
   exactly once. *)
Theorem C20_guarded_lazy_init_safe : forall (S V : Type) (f : S -> V) s0 keep body sh0 schedule,
  serial_ok S V f s0 keep body -> lazy_ok S V f s0 keep sh0 ->
  let c := exec S V f body sh0 schedule in
  (forall t, c_th c t <> Failed) /\
  (forall t lo, c_th c t = Done lo -> lres lo = Some (f s0)) /\
  (c_lock c = None -> lazy_ok S V f s0 keep (c_sh c) /\ (c_hist c <> [] -> ncomp (c_sh c) = 1)) /\
  (forall t lo, c_th c t = Done lo -> In t (c_hist c)).
Proof. exact guarded_lazy_init_safe. Qed.
Print Assumptions C20_guarded_lazy_init_safe.

(* The three lazily-initialising sites, as TRANSLATED FROM THE CURRENT SOURCE, satisfy the sequential contract
   and keep every access to their shared fields inside the lock (these obligations break when a lock is
   removed or narrowed, or when the order test / compute / assign / clear is disturbed). *)
Theorem C20_site_dask : forall S V (f : S -> V) s0, serial_ok S V f s0 false site_dask.
Proof. exact site_dask_serial_ok. Qed.
Print Assumptions C20_site_dask.
Theorem C20_site_spw : forall S V (f : S -> V) s0, serial_ok S V f s0 true site_spw.
Proof. exact site_spw_serial_ok. Qed.
Print Assumptions C20_site_spw.
Theorem C20_site_sensor_get : forall S V (f : S -> V) s0, serial_ok S V f s0 true site_sensor_get.
Proof. exact site_sensor_get_serial_ok. Qed.
Print Assumptions C20_site_sensor_get.

Theorem C20_sites_locked :
  site_dask_locked = true /\ site_spw_locked = true /\ site_sensor_get_locked = true /\
  sensor_setitem_locked = true /\ sensor_delitem_locked = true /\ sensor_contains_locked = true /\
  pool_get_locked = true /\ pool_put_locked = true /\ sensor_lock_reentrant = true.
Proof. exact sites_locked. Qed.
Print Assumptions C20_sites_locked.

(* the guard objects: one lock per object, created in __init__ and never replaced, of the modelled kind; no method but
   the constructor touches a guarded field outside its lock (SensorCache: only the listed dict-level methods); the pool
   starts empty, `with pool() as s` is get / use / put, and S3ChunkStore.request sends through the session it borrowed *)
Theorem C20_lock_discipline :
  (site_dask_lock_kind = 1%Z /\ site_dask_lock_once = true /\ only_init site_dask_unlocked_methods = true) /\
  (site_spw_lock_kind = 1%Z /\ site_spw_lock_once = true /\ only_init site_spw_unlocked_methods = true) /\
  (sensor_lock_kind = 2%Z /\ sensor_lock_once = true /\ all_allowed sensor_unlocked_methods = true) /\
  (pool_lock_kind = 1%Z /\ pool_lock_once = true /\ only_init pool_unlocked_methods = true) /\
  pool_init_empty = true /\ pool_call_ok = true /\ s3_request_session_from_pool = true.
Proof. exact lock_discipline. Qed.
Print Assumptions C20_lock_discipline.

(* hence each site, from its freshly constructed state, under any interleaving of any number of threads: nothing raises,
   every thread that has returned holds the single-thread value f s0, the value was computed exactly once *)
Theorem C20_dask_dataset_safe : forall (S V : Type) (f : S -> V) s0 schedule,
  let c := exec S V f site_dask (mkSh None (Some s0) 0) schedule in
  (forall t, c_th c t <> Failed) /\ (forall t lo, c_th c t = Done lo -> lres lo = Some (f s0)) /\
  (c_lock c = None -> c_hist c <> [] -> ncomp (c_sh c) = 1).
Proof. exact dask_dataset_safe. Qed.
Print Assumptions C20_dask_dataset_safe.
Theorem C20_spw_channel_freqs_safe : forall (S V : Type) (f : S -> V) s0 schedule,
  let c := exec S V f site_spw (mkSh None (Some s0) 0) schedule in
  (forall t, c_th c t <> Failed) /\ (forall t lo, c_th c t = Done lo -> lres lo = Some (f s0)) /\
  (c_lock c = None -> c_hist c <> [] -> ncomp (c_sh c) = 1).
Proof. exact spw_channel_freqs_safe. Qed.
Print Assumptions C20_spw_channel_freqs_safe.
Theorem C20_sensor_get_safe : forall (S V : Type) (f : S -> V) s0 schedule,
  let c := exec S V f site_sensor_get (mkSh None (Some s0) 0) schedule in
  (forall t, c_th c t <> Failed) /\ (forall t lo, c_th c t = Done lo -> lres lo = Some (f s0)) /\
  (c_lock c = None -> c_hist c <> [] -> ncomp (c_sh c) = 1).
Proof. exact sensor_get_safe. Qed.
Print Assumptions C20_sensor_get_safe.

(* the lock is necessary: the same body without mutual exclusion fails on a concrete 2-thread schedule *)
Theorem C20_unlocked_refuted :
  exists schedule t, c_th (exec_nolock nat nat Datatypes.S site_dask (mkSh None (Some 41) 0) schedule) t = Failed.
Proof. exact unlocked_refuted. Qed.
Print Assumptions C20_unlocked_refuted.

(* re-entrancy: the thread that holds the sensor-cache lock can take it again (virtual sensors look up other
   sensors) and releasing restores the previous state; another thread is excluded *)
Theorem C20_rlock_reentrancy : forall t d,
  r_acquire (Some (t, d)) t = Some (Some (t, Datatypes.S d)) /\
  r_release (Some (t, Datatypes.S (Datatypes.S d))) t = Some (Some (t, Datatypes.S d)) /\
  r_acquire None t = Some (Some (t, 1)) /\ r_release (Some (t, 1)) t = Some None.
Proof. exact rlock_reentrancy. Qed.
Print Assumptions C20_rlock_reentrancy.
Theorem C20_rlock_excludes : forall h t d, h <> t ->
  r_acquire (Some (h, d)) t = None /\ r_release (Some (h, d)) t = None.
Proof. exact rlock_excludes. Qed.
Print Assumptions C20_rlock_excludes.

(* instantiating a virtual sensor: the creating function runs inside SensorCache.get's `with self._lock:` and calls
   cache.get / cache[...] = ... itself.  With the lock kind found in the source every well-bracketed nest of critical
   sections by the holder goes through and leaves the lock free; with a plain Lock the first nested lookup never returns *)
Theorem C20_virtual_sensor_nesting : forall t prog, bracketed 0 prog = true ->
  run_nest sensor_lock_kind None t prog = Some None.
Proof. exact nested_ok. Qed.
Print Assumptions C20_virtual_sensor_nesting.
Theorem C20_plain_lock_nesting_refuted : exists prog, bracketed 0 prog = true /\ run_nest 1 None 0 prog = None.
Proof. exact nested_plain_lock_refuted. Qed.
Print Assumptions C20_plain_lock_nesting_refuted.

(* session pool, with get/put AS TRANSLATED from _Pool (which end of the list, which branch of the emptiness test):
   after ANY sequence of get/put operations by any threads nothing has raised, no item is lent twice or both lent and
   free (NoDup over free ++ held), and every item was produced by the factory *)
Theorem C20_pool_exclusive : forall ops,
  let p := fold_left pool_step ops pool_init in
  p_err p = false /\ NoDup (p_free p ++ map snd (p_held p)) /\
  forall x, In x (p_free p ++ map snd (p_held p)) -> x < p_next p.
Proof. exact pool_exclusive. Qed.
Print Assumptions C20_pool_exclusive.
Theorem C20_pool_peek_refuted : exists ops, ~ NoDup (items (fold_left (pool_step_c 0 3 0) ops pool_init)).
Proof. exact pool_peek_refuted. Qed.
Print Assumptions C20_pool_peek_refuted.
Theorem C20_pool_inverted_test_refuted : exists ops, p_err (fold_left (pool_step_c 1 0 0) ops pool_init) = true.
Proof. exact pool_inverted_refuted. Qed.
Print Assumptions C20_pool_inverted_test_refuted.

(* ---------- "Loading data with the multi-threaded scheduler returns the same arrays as a single-threaded load" ---------- *)
(* A load is the evaluation of a task graph listed in topological order whose tasks are functions of their dependencies'
   results (chunk reads: of nothing).  crun is dask's local scheduler for ANY number of workers: an arbitrary list of
   Start w i (hand task i and the cached results of its dependencies to worker w) / Finish w (publish w's result).
   SAFETY: whatever the schedule, every published result is the single-threaded one. *)
Theorem C20_sched_sound : forall (V : Type) (g : graph V) es i v,
  wf V g = true -> c_done (crun V g es) i = Some v -> seq_run V g i = Some v.
Proof. exact sched_sound. Qed.
Print Assumptions C20_sched_sound.
(* THE CLAUSE: a finished load under any schedule of any number of workers returns, for every task (hence for the output
   arrays), what the one-worker, one-task-at-a-time load returns *)
Theorem C20_threaded_load_eq_single : forall (V : Type) (g : graph V) es,
  wf V g = true -> all_done V g (crun V g es) = true ->
  forall i, i < length g -> c_done (crun V g es) i = c_done (crun V g (sync_events (length g))) i.
Proof. exact threaded_eq_single. Qed.
Print Assumptions C20_threaded_load_eq_single.
Theorem C20_sync_is_sequential : forall (V : Type) (g : graph V),
  wf V g = true -> forall i, c_done (crun V g (sync_events (length g))) i = seq_run V g i.
Proof. exact sync_is_seq. Qed.
Print Assumptions C20_sync_is_sequential.
(* no task is handed out twice; an unfinished load can always continue (no schedule deadlocks the scheduler) *)
Theorem C20_sched_once : forall (V : Type) (g : graph V) es, wf V g = true -> NoDup (c_started (crun V g es)).
Proof. exact sched_once. Qed.
Print Assumptions C20_sched_once.
Theorem C20_sched_progress : forall (V : Type) (g : graph V) es, wf V g = true ->
  let s := crun V g es in all_done V g s = true \/ exists e, fire V g s e <> None.
Proof. exact sched_progress. Qed.
Print Assumptions C20_sched_progress.
(* the output stage (da.store(..., lock=False) in DaskLazyIndexer.get): cell writes to pairwise distinct positions give
   the same array in ANY order, i.e. for any interleaving of the chunk tasks at element granularity; distinctness is
   necessary *)
Theorem C20_store_order_independent : forall (V : Type) ws ws' (t : vmap V),
  NoDup (map fst ws) -> Permutation ws ws' -> forall p, apply_writes V ws t p = apply_writes V ws' t p.
Proof. exact writes_order_independent. Qed.
Print Assumptions C20_store_order_independent.
Theorem C20_store_overlap_refuted :
  exists ws ws' p, Permutation ws ws' /\ apply_writes nat ws (vempty nat) p <> apply_writes nat ws' (vempty nat) p.
Proof. exact writes_overlap_refuted. Qed.
Print Assumptions C20_store_overlap_refuted.
