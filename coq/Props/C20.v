(* C20 — Lazily initialised shared state is safe under every thread interleaving.  Statements only. *)
From Coq Require Import List Arith Bool.
From KV Require Import Base.Sx Gen.Generated Model.LazyInit Proofs.LazyInitP.
Import ListNotations.
Close Scope Z_scope.
Open Scope nat_scope.

(* SERIALISABILITY, for every body, every number of threads and every schedule: threads that each run
   `Acquire; body; Release` one source line at a time behave as if the critical sections ran one after the
   other in the order of lock acquisition (c_hist): the shared state is the serial one, the lock holder is
   exactly a partial serial run, every finished thread has the local result of its serial run. *)
Theorem C20_serializable : forall (S V : Type) (f : S -> V) body sh0 schedule,
  Inv S V f body sh0 (exec S V f body sh0 schedule).
Proof. exact serializable. Qed.
Print Assumptions C20_serializable.

(* LAZY INITIALISATION: if the body satisfies the sequential contract of a lazily-initialising accessor,
   then for every schedule of any number of threads: nothing raises, every thread that has returned got the
   value a single thread would get (f s0), and whenever no thread is inside, the value was initialised
   exactly once. *)
Theorem C20_guarded_lazy_init_safe : forall (S V : Type) (f : S -> V) s0 keep body sh0 schedule,
  serial_ok S V f s0 keep body -> lazy_ok S V f s0 keep sh0 ->
  let c := exec S V f body sh0 schedule in
  (forall t, c_th c t <> Failed) /\
  (forall t lo, c_th c t = Done lo -> lres lo = Some (f s0)) /\
  (c_lock c = None -> lazy_ok S V f s0 keep (c_sh c) /\ (c_hist c <> [] -> ncomp (c_sh c) = 1)) /\
  (forall t lo, c_th c t = Done lo -> In t (c_hist c)).
Proof. exact guarded_lazy_init_safe. Qed.
Print Assumptions C20_guarded_lazy_init_safe.

(* The three lazily-initialising sites, as TRANSLATED FROM THE CURRENT SOURCE, satisfy the sequential contract
   and keep every access to their shared fields inside the lock (these obligations break when a lock is
   removed or narrowed, or when the order test / compute / assign / clear is disturbed). *)
Theorem C20_site_dask : forall S V (f : S -> V) s0, serial_ok S V f s0 false site_dask.
Proof. exact site_dask_serial_ok. Qed.
Print Assumptions C20_site_dask.
Theorem C20_site_spw : forall S V (f : S -> V) s0, serial_ok S V f s0 true site_spw.
Proof. exact site_spw_serial_ok. Qed.
Print Assumptions C20_site_spw.
Theorem C20_site_sensor_get : forall S V (f : S -> V) s0, serial_ok S V f s0 true site_sensor_get.
Proof. exact site_sensor_get_serial_ok. Qed.
Print Assumptions C20_site_sensor_get.

Theorem C20_sites_locked :
  site_dask_locked = true /\ site_spw_locked = true /\ site_sensor_get_locked = true /\
  sensor_setitem_locked = true /\ sensor_delitem_locked = true /\ sensor_contains_locked = true /\
  pool_get_locked = true /\ pool_put_locked = true /\ sensor_lock_reentrant = true.
Proof. exact sites_locked. Qed.
Print Assumptions C20_sites_locked.

(* hence, e.g., DaskLazyIndexer.dataset under any interleaving of any number of threads *)
Theorem C20_dask_dataset_safe : forall (S V : Type) (f : S -> V) s0 schedule,
  let c := exec S V f site_dask (mkSh None (Some s0) 0) schedule in
  (forall t, c_th c t <> Failed) /\ (forall t lo, c_th c t = Done lo -> lres lo = Some (f s0)).
Proof.
  intros S V f s0 schedule c.
  destruct (guarded_lazy_init_safe S V f s0 false site_dask (mkSh None (Some s0) 0) schedule
              (site_dask_serial_ok S V f s0)) as (A & B & _).
  - left. repeat split; reflexivity.
  - split; [exact A|exact B].
Qed.
Print Assumptions C20_dask_dataset_safe.

(* the lock is necessary: the same body without mutual exclusion fails on a concrete 2-thread schedule *)
Theorem C20_unlocked_refuted :
  exists schedule t, c_th (exec_nolock nat nat Datatypes.S site_dask (mkSh None (Some 41) 0) schedule) t = Failed.
Proof. exact unlocked_refuted. Qed.
Print Assumptions C20_unlocked_refuted.

(* re-entrancy: the thread that holds the sensor-cache lock can take it again (virtual sensors look up other
   sensors) and releasing restores the previous state; another thread is excluded *)
Theorem C20_rlock_reentrancy : forall t d,
  r_acquire (Some (t, d)) t = Some (Some (t, Datatypes.S d)) /\
  r_release (Some (t, Datatypes.S (Datatypes.S d))) t = Some (Some (t, Datatypes.S d)) /\
  r_acquire None t = Some (Some (t, 1)) /\ r_release (Some (t, 1)) t = Some None.
Proof. exact rlock_reentrancy. Qed.
Print Assumptions C20_rlock_reentrancy.
Theorem C20_rlock_excludes : forall h t d, h <> t ->
  r_acquire (Some (h, d)) t = None /\ r_release (Some (h, d)) t = None.
Proof. exact rlock_excludes. Qed.
Print Assumptions C20_rlock_excludes.

(* session pool: after ANY sequence of get/put operations by any threads, no item is lent twice or both lent
   and free (NoDup over free ++ held), and every item was produced by the factory *)
Theorem C20_pool_exclusive : forall ops,
  let p := fold_left pool_step ops pool_init in
  NoDup (p_free p ++ map snd (p_held p)) /\ forall x, In x (p_free p ++ map snd (p_held p)) -> x < p_next p.
Proof. exact pool_exclusive. Qed.
Print Assumptions C20_pool_exclusive.
